"""python -m symx.replay <file.json>: run a counterexample against the real,
unpatched menpo code with ordinary floats (fresh interpreter)."""
import json
import os
import sys

HERE = os.path.dirname(os.path.dirname(os.path.abspath(__file__)))
sys.path.insert(0, HERE)


def main():
    body = json.load(open(sys.argv[1]))
    from symx import driver

    out = driver.run_concrete(body["spec"], body.get("inputs", {}))
    out["obligation"] = body.get("obligation")
    print("REPLAY-RESULT " + json.dumps(out, default=str))
    return 0


if __name__ == "__main__":
    sys.exit(main())
