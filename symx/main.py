"""./check <id> [--tier quick|thorough] [--replay file] [--only func] [--jobs N]

Exit status: 0 property held on everything explored (known findings listed);
1 replayed violation (VIOLATION line); 2 inconclusive (undecided obligations,
unsupported operation, bound hit, vacuous harness); 3 encoding mismatch (a
solver counterexample that the real code does not reproduce).
"""
import argparse
import concurrent.futures as cf
import hashlib
import importlib
import json
import multiprocessing as mp
import os
import re
import subprocess
import sys
import time

HERE = os.path.dirname(os.path.dirname(os.path.abspath(__file__)))
sys.path.insert(0, HERE)

from symx import driver  # noqa: E402


class _InstanceTimeout(BaseException):
    pass


def _worker(spec):
    import signal

    _dump_on_usr1()

    # die with the parent (a check killed by an outer timeout must not leave workers spinning)
    try:
        import ctypes

        ctypes.CDLL("libc.so.6", use_errno=True).prctl(1, signal.SIGKILL)  # PR_SET_PDEATHSIG
        if spec.get("parent_pid") and os.getppid() != spec["parent_pid"]:
            os._exit(0)  # the parent went away before the signal was armed
    except Exception:
        pass

    # self-test hook for the broken-pool recovery: SYMX_TEST_DIE=<marker file> makes one worker die once
    mk = os.environ.get("SYMX_TEST_DIE")
    if mk and not os.path.exists(mk):
        open(mk, "w").close()
        os._exit(77)

    # hard wall-clock limit per instance: pure-Python polynomial arithmetic has no other interruption point
    limit = int(spec.get("limits", {}).get("max_s", 900) * 1.5) + 120

    def _alarm(signum, frame):
        raise _InstanceTimeout()

    try:
        signal.signal(signal.SIGALRM, _alarm)
        signal.alarm(limit)
    except (ValueError, AttributeError):
        pass
    # last resort: a solver call that ignores its own limits never returns to Python, so the alarm above cannot
    # fire; a timer thread (foreign calls release the GIL) then ends this worker process.  The parent sees a broken
    # pool and re-runs what was unfinished in a fresh one.
    import threading

    from symx import core as _core

    _core.WATCHDOG = True  # per solver call: allowance + 90 s
    dog = threading.Timer(limit + 60, lambda: os._exit(77))
    dog.daemon = True
    dog.start()
    try:
        return driver.run_instance(spec)
    except _InstanceTimeout:
        return {"spec": {k: spec.get(k) for k in ("prop", "module", "func", "cfg")},
                "engine_error": "instance exceeded its hard wall-clock limit of %d s (not a verdict)" % limit}
    except BaseException as e:  # engine failure: never a verdict
        import traceback

        return {"spec": {k: spec.get(k) for k in ("prop", "module", "func", "cfg")}, "engine_error":
                "%s: %s\n%s" % (type(e).__name__, e, traceback.format_exc(limit=-8))}
    finally:
        dog.cancel()
        try:
            signal.alarm(0)
        except Exception:
            pass


def load_known():
    p = os.path.join(HERE, "known_findings.json")
    if not os.path.exists(p):
        return {"findings": [], "fixed": []}
    return json.load(open(p))


def match_known(known, prop, func, cfg, obname):
    for k in known.get("findings", []):
        if k["property"] != prop or k["harness"] != func:
            continue
        if not re.fullmatch(k.get("obligation", ".*"), obname):
            continue
        if any(cfg.get(a) != b for a, b in k.get("cfg", {}).items()):
            continue
        return k
    return None


def replay_file(path, timeout=600):
    p = subprocess.run([sys.executable, "-m", "symx.replay", path], cwd=HERE, capture_output=True,
                       text=True, timeout=timeout, env=dict(os.environ, PYTHONPATH=HERE))
    for line in p.stdout.splitlines():
        if line.startswith("REPLAY-RESULT "):
            return json.loads(line[len("REPLAY-RESULT "):])
    return {"failed": [], "error": "replay crashed: " + (p.stderr[-800:] or p.stdout[-800:]), "crash": True}


def _dump_on_usr1():
    """debug aid: `kill -USR1 <pid>` prints the Python stacks of a (seemingly) stuck process to stderr"""
    try:
        import faulthandler
        import signal

        faulthandler.register(signal.SIGUSR1, all_threads=True)
    except Exception:
        pass


def main(argv=None):
    _dump_on_usr1()
    ap = argparse.ArgumentParser()
    ap.add_argument("prop")
    ap.add_argument("--tier", default=os.environ.get("VERIF_TIER", "quick"))
    ap.add_argument("--replay")
    ap.add_argument("--only")
    ap.add_argument("--jobs", type=int, default=int(os.environ.get("SYMX_JOBS", "16")))
    ap.add_argument("--no-evidence", action="store_true")
    ap.add_argument("-v", action="store_true")
    ap.add_argument("--times", action="store_true")
    a = ap.parse_args(argv)
    prop = a.prop.upper()
    seed = int(os.environ.get("VERIF_SEED", "0"))
    if a.replay:
        r = replay_file(a.replay)
        print(json.dumps(r, indent=1))
        if r.get("failed"):
            print("VIOLATION property=%s replay=%s" % (prop, a.replay))
            return 1
        return 0
    t0 = time.time()
    hmod = importlib.import_module("harness.%s" % prop.lower())
    specs = []
    for inst in hmod.instances(a.tier):
        func, cfg = inst[0], inst[1]
        lim = dict(inst[2]) if len(inst) > 2 else {}
        if a.tier == "thorough":
            lim.setdefault("xcheck", 2)  # cvc5 second opinion on up to 2 solver-decided obligations per instance
        if a.only and not re.search(a.only, func):
            continue
        specs.append({"prop": prop, "module": hmod.__name__, "func": func, "cfg": cfg, "limits": lim,
                      "parent_pid": os.getpid()})
    pre = getattr(hmod, "pre_run", None)
    extra_results = pre(a.tier) if pre else []
    results = []
    known = load_known()
    out_dir = os.path.join(HERE, "replays", prop)
    violations, known_hits, mismatches, inconclusive = [], {}, [], []
    tot = dict(paths=0, obligations=0, discharged=0, syntactic=0, queries=0, solver_s=0.0, reach=0,
               infeasible=0, shortcut=0, paths_with_obligations=0)
    functions, samples, per_harness = set(), [], []
    xtot = {"tried": 0, "agree": 0, "unknown": 0, "disagree": 0}
    exhaustive = True
    cut_short = []
    announced = set()

    def handle(r):
        nonlocal exhaustive, samples, functions
        sp = r["spec"]
        tag = "%s%s" % (sp["func"], json.dumps(sp["cfg"], sort_keys=True))
        if "engine_error" in r:
            inconclusive.append("engine error in %s: %s" % (tag, r["engine_error"]))
            return
        for k in ("paths", "obligations", "discharged", "syntactic", "reach", "infeasible",
                  "paths_with_obligations"):
            tot[k] += r.get(k, 0)
        tot["queries"] += r["stats"]["queries"]
        tot["solver_s"] += r["stats"]["solver_s"]
        tot["shortcut"] += r["stats"].get("shortcut", 0)
        functions |= set(r["functions"])
        if len(samples) < 6:
            samples += r["samples"][:1]
        exhaustive = exhaustive and r["exhaustive"]
        xc = r.get("xcheck") or {}
        for k in ("tried", "agree", "unknown"):
            xtot[k] += xc.get(k, 0)
        for dsg in xc.get("disagree", []):
            xtot["disagree"] += 1
            inconclusive.append("SOLVER-DISAGREEMENT %s obligation=%s path=%s (z3 unsat, cvc5 sat)" % (tag, dsg["name"], dsg["prefix"]))
        per_harness.append({"harness": sp["func"], "cfg": sp["cfg"], "paths": r["paths"],
                            "obligations": r["obligations"], "discharged": r["discharged"],
                            "undecided": len(r["undecided"]), "wall_s": r["wall_s"],
                            "solver_s": round(r["stats"]["solver_s"], 3), "exhaustive": r["exhaustive"]})
        if r.get("external"):
            # results produced by another engine (CrossHair): already replayed
            for v in r.get("violations", []):
                violations.append(v)
            for m in r.get("inconclusive", []):
                inconclusive.append(m)
            return
        if r["reach"] == 0 and not r["cex"]:
            inconclusive.append("vacuous harness (no path reached an obligation): %s" % tag)
        for u in r["undecided"]:
            inconclusive.append("undecided %s obligation=%s path=%s" % (tag, u["name"], u["prefix"]))
        for ab in r["aborted"]:
            inconclusive.append("aborted path %s: %s" % (tag, ab["why"]))
        for n in r["notes"]:
            inconclusive.append("note %s: %s" % (tag, n))
        # replay counterexamples: one per obligation family first (so that a known finding cannot use up the
        # budget and hide a different violation of the same instance), then more of each, up to a budget
        fams = {}
        for c in r["cex"]:
            fams.setdefault(c["name"].split("[")[0], []).append(c)
        ordered = [l[0] for l in fams.values()] + [c for l in fams.values() for c in l[1:]]
        replayed = 0
        for c in ordered:
            if replayed >= max(6, len(fams)):
                break
            os.makedirs(out_dir, exist_ok=True)
            body = {"property": prop, "spec": sp, "obligation": c["name"], "prefix": c["prefix"],
                    "kind": c["kind"], "inputs": c.get("inputs", {}), "detail": c.get("detail", "")}
            h = hashlib.sha1(json.dumps(body, sort_keys=True).encode()).hexdigest()[:10]
            path = os.path.join(out_dir, "%s-%s.json" % (sp["func"], h))
            json.dump(body, open(path, "w"), indent=1)
            rr = replay_file(path)
            replayed += 1
            if rr.get("failed"):
                failed_names = [n for n, _ in rr["failed"]]
                obname = c["name"] if c["name"] in failed_names else failed_names[0]
                k = match_known(known, prop, sp["func"], sp["cfg"], obname)
                if k is not None:
                    known_hits.setdefault(k["what"], path)
                else:
                    violations.append({"harness": tag, "obligation": obname, "replay": path,
                                       "detail": rr["failed"][:3], "sym_kind": c["kind"],
                                       "sym_detail": c.get("detail", "")})
            else:
                try:
                    os.remove(path)
                except OSError:
                    pass
                mismatches.append({"harness": tag, "obligation": c["name"], "kind": c["kind"],
                                   "detail": c.get("detail", ""), "replay_said": rr,
                                   "traceback": c.get("traceback", "")})

    grace = float(os.environ.get("SYMX_GRACE_S", "90" if a.tier == "quick" else "600"))
    todo = list(specs)
    for attempt in (1, 2):
        if not todo or cut_short:
            break
        ctx = mp.get_context("spawn")
        ex = cf.ProcessPoolExecutor(max_workers=max(1, min(a.jobs, len(todo))), mp_context=ctx)
        futs = {ex.submit(_worker, sp_): sp_ for sp_ in todo}
        pending = set(futs)
        finished = set()
        broken = False
        deadline = None
        while pending:
            done, pending = cf.wait(pending, timeout=5, return_when=cf.FIRST_COMPLETED)
            for f in done:
                try:
                    r = f.result()
                except cf.process.BrokenProcessPool:
                    broken = True
                    continue
                finished.add(f)
                if deadline is not None and time.time() > deadline:
                    # verdict already in hand and the grace period is over: results are no longer replayed
                    cut_short.append("%s%s" % (futs[f]["func"], json.dumps(futs[f]["cfg"], sort_keys=True)))
                    continue
                results.append(r)
                handle(r)
            if broken:
                # a worker process died (its watchdog ended a solver call that would not return): everything that
                # has no result yet is run again in a fresh pool, once
                break
            if violations and deadline is None:
                # a replayed, unlisted violation decides the run (exit 1): the remaining instances get a grace
                # period and are then stopped, so that a change which also makes the solver slow is reported in
                # bounded time.  (Never taken on a tree where the property holds.)
                deadline = time.time() + grace
            for v in violations:
                if v["replay"] not in announced and len(announced) < 4:
                    print("VIOLATION property=%s replay=%s" % (prop, v["replay"]), flush=True)
                    announced.add(v["replay"])
            if deadline is not None and time.time() > deadline and pending:
                for f in pending:
                    f.cancel()
                    cut_short.append("%s%s" % (futs[f]["func"], json.dumps(futs[f]["cfg"], sort_keys=True)))
                pending = set()
        todo = [sp_ for f, sp_ in futs.items() if f not in finished] if broken else []
        if broken or cut_short:
            procs = list(getattr(ex, "_processes", {}).values())
            ex.shutdown(wait=False, cancel_futures=True)
            for pr in procs:
                try:
                    pr.kill()
                except Exception:
                    pass
        else:
            ex.shutdown(wait=True)
    for sp_ in todo:
        inconclusive.append("engine error in %s%s: worker process died twice (not a verdict)" % (
            sp_["func"], json.dumps(sp_["cfg"], sort_keys=True)))
    for r in extra_results:
        handle(r)
    for t in cut_short[:20]:
        inconclusive.append("not finished (run stopped %ds after a confirmed violation): %s" % (grace, t))
    wall = time.time() - t0
    # ---- report
    for what, path in known_hits.items():
        print("KNOWN-FINDING: property=%s %s" % (prop, what))
    seen = set()
    for v in violations:
        key = (v["harness"], v["obligation"].split("[")[0])
        if key in seen:
            continue
        seen.add(key)
        if v["replay"] not in announced:
            print("VIOLATION property=%s replay=%s" % (prop, v["replay"]))
        print("  harness=%s obligation=%s detail=%s" % (v["harness"], v["obligation"], v["detail"]))
    for m in mismatches[:10]:
        print("ENCODING-MISMATCH property=%s harness=%s obligation=%s kind=%s detail=%s replay=%s" % (
            prop, m["harness"], m["obligation"], m["kind"], m["detail"], json.dumps(m["replay_said"])[:400]))
        if a.v and m.get("traceback"):
            print(m["traceback"])
    for m in inconclusive[:20]:
        print("INCONCLUSIVE property=%s %s" % (prop, m[:1500]))
    undec = len(inconclusive)
    if a.times:
        for h in sorted(per_harness, key=lambda h: -h["wall_s"])[:15]:
            print("TIME %6.1fs solver=%6.1fs paths=%5d obl=%6d %s %s" % (h["wall_s"], h["solver_s"], h["paths"],
                                                                      h["obligations"], h["harness"], json.dumps(h["cfg"])))
    print("%s tier=%s harness-instances=%d paths=%d obligations=%d discharged=%d undecided=%d "
          "violations=%d known=%d mismatches=%d queries=%d solver=%.1fs wall=%.1fs" % (
              prop, a.tier, len(results) + len(extra_results), tot["paths"], tot["obligations"],
              tot["discharged"], undec, len(violations), len(known_hits), len(mismatches),
              tot["queries"], tot["solver_s"], wall))
    if not a.no_evidence and not a.only:
        meta = getattr(hmod, "META", {})
        distinct = sum(1 for h in per_harness if h["obligations"] > 0)
        ev = {
            "property_id": prop, "tier": a.tier if a.tier in ("quick", "thorough") else "quick",
            "seed": seed, "level": "other", "wall_s": round(wall, 2), "violations": len(violations),
            "assumptions": meta.get("assumptions", []),
            "coverage": {
                "explanation": meta.get("explanation", "") + " Decided by symbolic execution of the real menpo "
                "functions on z3 terms (SYMX): each explored path ends in obligations; an obligation counts as "
                "discharged only when z3 answers unsat for its negation under the path condition.",
                "obligations": tot["obligations"], "discharged": tot["discharged"],
                "discharged_syntactically": tot["syntactic"], "undecided": undec,
                "paths": tot["paths"], "paths_reaching_obligations": tot["paths_with_obligations"],
                "infeasible_paths_pruned": tot["infeasible"],
                "evaluations": tot["paths"], "distinct_nontrivial": tot["paths_with_obligations"],
                "rule": "one evaluation = one feasible path (distinct decision prefix) of one harness instance; "
                        "non-trivial = the path reached at least one obligation under a satisfiable path condition",
                "harness_instances": len(per_harness), "harness_instances_with_obligations": distinct,
                "solver_queries": tot["queries"], "solver_time_s": round(tot["solver_s"], 2),
                "branch_decisions_by_model_shortcut": tot["shortcut"],
                "exhaustive": bool(exhaustive and not inconclusive),
                "bounds": meta.get("bounds", []), "stubs_and_models": meta.get("stubs", []),
                "not_covered": meta.get("not_covered", []),
                "functions_encoded": sorted(functions),
                "samples": samples or [{"note": "no solver-decided sample recorded"}],
                "per_harness": per_harness[:400],
                "known_findings_reported": sorted(known_hits),
                "checker_cmd": "./check %s --tier %s" % (prop, a.tier),
                "trusted_base": meta.get("trusted", []) + ["z3 %s" % _z3v(), "symx engine (/verif/symx)",
                                                            "numpy object-array semantics"],
                "rlimit_per_query": _rlimit(),
                "second_solver_cvc5": dict(xtot, note="thorough tier: up to 2 z3-unsat queries per harness instance re-decided by "
                                           "cvc5 (3 s each); unknown/timeouts are not verdicts, a cvc5 `sat` fails the run"),
            },
        }
        os.makedirs(os.path.join(HERE, "evidence"), exist_ok=True)
        json.dump(ev, open(os.path.join(HERE, "evidence", "%s.json" % prop), "w"), indent=1)
    if violations:
        return 1
    if mismatches:
        return 3
    if inconclusive:
        return 2
    return 0


def _z3v():
    import z3

    return z3.get_version_string()


def _rlimit():
    from symx import core

    return core.RLIMIT


if __name__ == "__main__":
    sys.exit(main())
