"""Sparse multivariate polynomials with exact rational coefficients.

Canonical form (dict monomial -> Fraction, zero coefficients dropped), so that
polynomial identities are recognised before any solver call and the terms handed
to z3 are expanded and order-normalised.  Variables are z3 real constants or
"atoms" (arbitrary z3 real-sorted terms: If, ToInt, uninterpreted applications)
registered by structural identity.
"""
import fractions

import z3

Fr = fractions.Fraction

_VARS = []  # vid -> z3 expr (real sort)
_BY_KEY = {}  # key -> vid


def reset_registry():
    del _VARS[:]
    _BY_KEY.clear()


def var_id(expr):
    """vid for a z3 real-sorted term (constant or atom)"""
    if z3.is_const(expr) and expr.decl().kind() == z3.Z3_OP_UNINTERPRETED:
        key = "c:" + expr.decl().name()
    else:
        key = "a:%d" % expr.get_id()
    v = _BY_KEY.get(key)
    if v is None:
        v = len(_VARS)
        _VARS.append(expr)  # keeps the AST alive, so get_id() stays unique
        _BY_KEY[key] = v
    return v


def _mono_mul(a, b):
    if not a:
        return b
    if not b:
        return a
    out = []
    i = j = 0
    la, lb = len(a), len(b)
    while i < la and j < lb:
        va, ea = a[i]
        vb, eb = b[j]
        if va == vb:
            out.append((va, ea + eb))
            i += 1
            j += 1
        elif va < vb:
            out.append(a[i])
            i += 1
        else:
            out.append(b[j])
            j += 1
    if i < la:
        out.extend(a[i:])
    if j < lb:
        out.extend(b[j:])
    return tuple(out)


class Poly:
    __slots__ = ("t", "_z3")

    def __init__(self, t=None):
        self.t = t if t is not None else {}
        self._z3 = None

    # ---- constructors
    @staticmethod
    def const(c):
        c = Fr(c)
        return Poly({(): c} if c else {})

    @staticmethod
    def var(expr):
        return Poly({((var_id(expr), 1),): Fr(1)})

    # ---- queries
    def is_zero(self):
        return not self.t

    def is_const(self):
        return not self.t or (len(self.t) == 1 and () in self.t)

    def const_value(self):
        return self.t.get((), Fr(0))

    def n_terms(self):
        return len(self.t)

    def __eq__(self, o):
        return isinstance(o, Poly) and self.t == o.t

    def __ne__(self, o):
        return not self.__eq__(o)

    __hash__ = None

    # ---- arithmetic
    def __add__(self, o):
        if not o.t:
            return self
        if not self.t:
            return o
        a, b = (self.t, o.t) if len(self.t) >= len(o.t) else (o.t, self.t)
        r = dict(a)
        for m, c in b.items():
            v = r.get(m)
            if v is None:
                r[m] = c
            else:
                v = v + c
                if v:
                    r[m] = v
                else:
                    del r[m]
        return Poly(r)

    def __neg__(self):
        return Poly({m: -c for m, c in self.t.items()})

    def __sub__(self, o):
        return self + (-o)

    def scale(self, c):
        c = Fr(c)
        if not c:
            return Poly()
        if c == 1:
            return self
        return Poly({m: v * c for m, v in self.t.items()})

    def __mul__(self, o):
        if not self.t or not o.t:
            return Poly()
        if len(o.t) == 1:
            (m2, c2), = o.t.items()
            if not m2:
                return self.scale(c2)
            return Poly({_mono_mul(m, m2): c * c2 for m, c in self.t.items()})
        if len(self.t) == 1:
            return o * self
        r = {}
        for m1, c1 in self.t.items():
            for m2, c2 in o.t.items():
                m = _mono_mul(m1, m2)
                v = r.get(m)
                if v is None:
                    r[m] = c1 * c2
                else:
                    v = v + c1 * c2
                    if v:
                        r[m] = v
                    else:
                        del r[m]
        return Poly(r)

    def degree(self):
        return max((sum(e for _, e in m) for m in self.t), default=0)

    # ---- to z3 (canonical order)
    def z3(self):
        if self._z3 is not None:
            return self._z3
        if not self.t:
            self._z3 = z3.RealVal(0)
            return self._z3
        terms = []
        for m in sorted(self.t):
            c = self.t[m]
            fs = []
            for v, e in m:
                x = _VARS[v]
                for _ in range(e):
                    fs.append(x)
            if not fs:
                terms.append(_rv(c))
                continue
            p = fs[0]
            for f in fs[1:]:
                p = p * f
            if c == 1:
                terms.append(p)
            elif c == -1:
                terms.append(-p)
            else:
                terms.append(_rv(c) * p)
        if len(terms) == 1:
            self._z3 = terms[0]
        else:
            self._z3 = z3.Sum(terms)
        return self._z3

    def __repr__(self):
        return "Poly(%s)" % self.z3()


def _rv(c):
    if c.denominator == 1:
        return z3.RealVal(c.numerator)
    return z3.RealVal("%d/%d" % (c.numerator, c.denominator))


ZERO = Poly()
ONE = Poly.const(1)


def selftest(n=200, seed=1):
    """differential test of the polynomial arithmetic against Fraction evaluation"""
    import random

    rnd = random.Random(seed)
    xs = [z3.Real("pt_x%d" % i) for i in range(4)]
    ids = [var_id(x) for x in xs]

    def rand_poly():
        p = Poly()
        for _ in range(rnd.randint(0, 4)):
            m = Poly.const(Fr(rnd.randint(-5, 5), rnd.randint(1, 4)))
            for _ in range(rnd.randint(0, 3)):
                m = m * Poly.var(rnd.choice(xs))
            p = p + m
        return p

    def ev(p, vals):
        s = Fr(0)
        for m, c in p.t.items():
            t = c
            for v, e in m:
                t *= vals[v] ** e
            s += t
        return s

    for _ in range(n):
        a, b, c = rand_poly(), rand_poly(), rand_poly()
        vals = {i: Fr(rnd.randint(-7, 7), rnd.randint(1, 5)) for i in ids}
        assert ev(a * b + c, vals) == ev(a, vals) * ev(b, vals) + ev(c, vals)
        assert ev(a - b, vals) == ev(a, vals) - ev(b, vals)
        assert ((a + b) * c - a * c - b * c).is_zero()
        assert (a * b - b * a).is_zero()
    return True
