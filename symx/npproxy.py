"""The `np` proxy installed as module-global `np` in menpo modules (symbolic
mode only).  Forwards to real NumPy when no argument is symbolic; otherwise
uses a small symbolic implementation, or lets NumPy run natively on object
arrays for functions known to be structure-only, or fails loudly.
"""
import fractions
import math

import numpy as _np
import z3

from . import core
from .core import Sym, SymB, has_sym, O, is_sym, Unsupported

# functions that work natively on object arrays holding Sym (pure data movement
# or +,-,* reductions) -- passed through untouched
NATIVE = {
    "dot", "matmul", "hstack", "vstack", "concatenate", "stack", "column_stack", "dstack",
    "sum", "mean", "einsum", "fill_diagonal", "reshape", "ravel", "transpose", "rollaxis",
    "moveaxis", "swapaxes", "tile", "repeat", "diag", "diagonal", "trace", "outer", "kron",
    "atleast_1d", "atleast_2d", "atleast_3d", "squeeze", "expand_dims", "broadcast_arrays",
    "broadcast_to", "newaxis", "ndindex", "take", "compress", "delete", "insert", "append",
    "roll", "flip", "fliplr", "flipud", "rot90", "split", "array_split", "hsplit", "vsplit",
    "where", "nonzero", "cumsum", "prod", "square", "negative", "add", "subtract", "multiply",
    "true_divide", "divide", "copy", "copyto", "tensordot", "inner", "meshgrid", "triu", "tril",
    "minimum", "maximum", "clip", "min", "max", "amin", "amax", "argmin", "argmax", "sort",
    "argsort", "less", "greater", "less_equal", "greater_equal", "equal", "not_equal",
    "require", "ascontiguousarray", "asfortranarray", "abs", "absolute", "ndim", "shape", "size",
    "may_share_memory", "shares_memory", "array_equal", "unique", "lexsort", "searchsorted",
    "logical_and", "logical_or", "logical_not", "logical_xor", "count_nonzero", "any", "ix_",
    "indices", "ptp", "nansum", "average", "cross", "vdot", "block", "put", "place", "choose",
    "diff", "ediff1d", "in1d", "isin", "bincount", "zeros_like", "ones_like", "empty_like",
    "full_like", "power", "float_power", "positive", "invert", "bitwise_and", "bitwise_or",
    "cumprod", "rollaxis", "result_type", "can_cast", "iterable", "isscalar", "triu_indices",
    "tril_indices", "diag_indices", "unravel_index", "ravel_multi_index", "mgrid", "ogrid",
    "r_", "c_", "s_", "index_exp", "apply_along_axis", "vectorize", "frompyfunc", "all",
}

_FLOAT_DTYPES = (None, float, _np.float64, _np.float32, "float", "float64", "float32", "d", "f", _np.double)


def _is_float_dtype(dt):
    """dtypes for which constructors hand out object arrays: unspecified or float64 (an explicitly narrower
    float dtype is a concrete request and is honoured)"""
    if dt is None:
        return True
    try:
        return _np.dtype(dt) == _np.float64
    except TypeError:
        return False


def _defloat(x):
    """object array without Sym -> float64 (for real LAPACK / ufuncs)"""
    if isinstance(x, _np.ndarray) and x.dtype == object:
        try:
            return x.astype(float)
        except (TypeError, ValueError):
            return x
    if isinstance(x, (list, tuple)):
        return type(x)(_defloat(v) for v in x)
    return x


def _was_object(args):
    for x in args:
        if isinstance(x, _np.ndarray) and x.dtype == object:
            return True
        if isinstance(x, (list, tuple)) and _was_object(x):
            return True
    return False


def _reobject(r):
    if isinstance(r, _np.ndarray) and _np.issubdtype(r.dtype, _np.floating):
        return r.astype(object)
    if isinstance(r, tuple):
        return tuple(_reobject(v) for v in r)
    return r


def elementwise(f):
    def g(a, *rest, **kw):
        if isinstance(a, _np.ndarray):
            out = _np.empty(a.shape, dtype=object)
            for i in _np.ndindex(*a.shape):
                out[i] = f(a[i], *rest, **kw)
            return out
        if isinstance(a, (list, tuple)):
            return g(O(a), *rest, **kw)
        return f(a, *rest, **kw)

    return g


# ---------------------------------------------------------------- angles
class Angle:
    """a symbolic angle known only through (cos, sin) on the unit circle"""

    def __init__(self, c, s, unit="rad", tag=None):
        self.c, self.s, self.unit, self.tag = c, s, unit, tag

    def __neg__(self):
        return Angle(self.c, -self.s, self.unit)

    def __mul__(self, o):
        if o == 1:
            return self
        if o == -1:
            return -self
        raise Unsupported("Angle * %r" % (o,))

    __rmul__ = __mul__

    def __truediv__(self, o):
        if o == 1:
            return self
        raise Unsupported("Angle / %r" % (o,))

    def __add__(self, o):
        if isinstance(o, Angle) and o.unit == self.unit:
            return Angle(self.c * o.c - self.s * o.s, self.s * o.c + self.c * o.s, self.unit)
        if core.is_conc_num(o) and o == 0:
            return self
        raise Unsupported("Angle + %r" % (o,))

    __radd__ = __add__

    def __sub__(self, o):
        return self + (-o)

    def __repr__(self):
        return "Angle(%s,%s,%s)" % (self.c, self.s, self.unit)


def new_angle(name, unit="rad"):
    """symbolic angle input: a point (c,s) with c^2+s^2=1 (all quadrants, any turn)"""
    from . import factory

    F = factory.CUR
    c = F.real(name + "_cos", -1, 1)
    s = F.real(name + "_sin", -1, 1)
    F.assume(SymB(core.eqz(c * c + s * s, 1)))
    return Angle(c, s, unit)


def _deg2rad(x):
    if isinstance(x, Angle):
        if x.unit != "deg":
            raise UnitError("deg2rad applied to an angle in %s" % x.unit)
        return Angle(x.c, x.s, "rad")
    if has_sym(x):
        return x * (math.pi / 180.0)
    return _np.deg2rad(_defloat(x))


def _rad2deg(x):
    if isinstance(x, Angle):
        if x.unit != "rad":
            raise UnitError("rad2deg applied to an angle in %s" % x.unit)
        return Angle(x.c, x.s, "deg")
    if has_sym(x):
        return x * (180.0 / math.pi)
    return _np.rad2deg(_defloat(x))


class UnitError(Exception):
    """a trigonometric function received an angle still in degrees (or v.v.)"""


def _cos(x):
    if isinstance(x, Angle):
        if x.unit != "rad":
            raise UnitError("cos of an angle in degrees")
        return x.c
    if has_sym(x):
        raise Unsupported("cos of a symbolic real (use an Angle)")
    return _np.cos(_defloat(x))


def _sin(x):
    if isinstance(x, Angle):
        if x.unit != "rad":
            raise UnitError("sin of an angle in degrees")
        return x.s
    if has_sym(x):
        raise Unsupported("sin of a symbolic real (use an Angle)")
    return _np.sin(_defloat(x))


def _tan(x):
    if isinstance(x, Angle):
        if x.unit != "rad":
            raise UnitError("tan of an angle in degrees")
        return x.s / x.c
    if has_sym(x):
        raise Unsupported("tan of a symbolic real")
    return _np.tan(_defloat(x))


def _arccos(x):
    if isinstance(x, _np.ndarray) and x.shape == ():
        x = x.item()
    if isinstance(x, Sym):
        # principal branch: angle in [0, pi], sin >= 0
        s = (1 - x * x)
        s = Sym.of(s).sqrt()
        return Angle(x, s, "rad")
    if has_sym(x):
        raise Unsupported("arccos of a symbolic array")
    return _np.arccos(_defloat(x))


# ---------------------------------------------------------------- linalg
def det(a):
    a = O(a)
    n = a.shape[0]
    if n == 0:
        return 1
    if n == 1:
        return a[0, 0]
    if n == 2:
        return a[0, 0] * a[1, 1] - a[0, 1] * a[1, 0]
    s = 0
    for j in range(n):
        if core.is_conc_num(a[0, j]) and a[0, j] == 0:
            continue
        minor = _np.delete(a[1:], j, 1)
        s = s + ((-1) ** j) * a[0, j] * det(minor)
    return s


def inv(a):
    a = O(a)
    n = a.shape[0]
    if a.ndim != 2 or a.shape[1] != n:
        raise _np.linalg.LinAlgError("Last 2 dimensions of the array must be square")
    if n > 5:
        raise Unsupported("symbolic inverse beyond 5x5")
    d = det(a)
    out = _np.empty((n, n), dtype=object)
    if n == 1:
        out[0, 0] = 1 / d
        return out
    for i in range(n):
        for j in range(n):
            minor = _np.delete(_np.delete(a, j, 0), i, 1)
            out[i, j] = ((-1) ** (i + j)) * det(minor) / d
    return out


class _Linalg:
    def __init__(self, proxy):
        self._p = proxy

    def __getattr__(self, k):
        real = getattr(_np.linalg, k)
        if not callable(real) or isinstance(real, type):
            return real

        def f(*a, **kw):
            if has_sym(*a):
                h = self._p.stubs.get("linalg." + k)
                if h is not None:
                    return h(*a, **kw)
                raise Unsupported("numpy.linalg.%s on symbolic input" % k)
            r = real(*[_defloat(x) for x in a], **kw)
            return _reobject(r) if _was_object(a) else r

        return f

    def det(self, a):
        if not has_sym(a):
            return _np.linalg.det(_defloat(a))
        return det(a)

    def inv(self, a):
        if not has_sym(a):
            r = _np.linalg.inv(_defloat(a))
            return _reobject(r) if _was_object((a,)) else r
        return inv(a)

    def solve(self, a, b):
        if not has_sym(a, b):
            r = _np.linalg.solve(_defloat(a), _defloat(b))
            return _reobject(r) if _was_object((a, b)) else r
        return _np.dot(inv(O(a)), O(b))

    def norm(self, a, ord=None, axis=None, **kw):
        if not has_sym(a):
            return _np.linalg.norm(_defloat(a), ord=ord, axis=axis, **kw)
        if ord not in (None, 2, "fro"):
            raise Unsupported("norm ord=%r" % (ord,))
        a = O(a)
        sq = a * a
        s = sq.sum(axis=axis)
        return _sqrt(s)


def _sqrt(a):
    if isinstance(a, Sym):
        return a.sqrt()
    if isinstance(a, _np.ndarray) and a.dtype == object:
        if a.shape == ():
            return _sqrt(a.item())
        if has_sym(a):
            return elementwise(lambda v: v.sqrt() if isinstance(v, Sym) else math.sqrt(v))(a)
        return _np.sqrt(a.astype(float)).astype(object)
    return _np.sqrt(a)


def _sign(x):
    def one(v):
        if isinstance(v, Sym):
            if v > 0:
                return 1.0
            if v < 0:
                return -1.0
            return 0.0
        return float(_np.sign(v))

    if isinstance(x, _np.ndarray):
        if x.dtype != object:
            return _np.sign(x)
        return elementwise(one)(x)
    return one(x)


def _floor(x):
    return elementwise(lambda v: v.__floor__() if isinstance(v, Sym) else math.floor(v))(x)


def _ceil(x):
    return elementwise(lambda v: v.__ceil__() if isinstance(v, Sym) else math.ceil(v))(x)


def _round(x, decimals=0, out=None):
    if decimals:
        raise Unsupported("round with decimals")
    return elementwise(lambda v: v.rint() if isinstance(v, Sym) else float(_np.rint(v)))(x)


def allclose_term(a, b, rtol=1e-5, atol=1e-8):
    a = O(a)
    b = O(b)
    a, b = _np.broadcast_arrays(a, b)
    terms = []
    for x, y in zip(a.ravel(), b.ravel()):
        if is_sym(x) or is_sym(y):
            lhs = abs(Sym.of(x) - y)
            rhs = Sym.of(abs(Sym.of(y)) * rtol + atol)
            d = Sym.of(lhs - rhs)
            terms.append(d.sign_term("le"))
        else:
            if not abs(x - y) <= atol + rtol * abs(y):
                return False
    if not terms:
        return True
    return SymB(z3.And(*terms))


def _isclose(a, b, rtol=1e-5, atol=1e-8, equal_nan=False):
    a = O(a)
    b = O(b)
    a, b = _np.broadcast_arrays(a, b)
    out = _np.empty(a.shape, dtype=bool)
    for i in _np.ndindex(*a.shape):
        out[i] = bool(allclose_term(a[i], b[i], rtol, atol))
    return out


def _cov(m, y=None, rowvar=True, bias=False, ddof=None, **kw):
    if y is not None or kw:
        raise Unsupported("cov with y/weights")
    X = O(m)
    if X.ndim == 1:
        X = X[None, :]
    if not rowvar and X.shape[0] != 1:
        X = X.T
    if ddof is None:
        ddof = 0 if bias else 1
    n = X.shape[1]
    avg = X.sum(axis=1) * fractions.Fraction(1, n)
    Xc = X - avg[:, None]
    fact = n - ddof
    c = Xc.dot(Xc.T) * fractions.Fraction(1, fact)
    return c.squeeze() if c.shape == (1, 1) else c


def _var(a, axis=None, ddof=0, **kw):
    a = O(a)
    n = a.size if axis is None else a.shape[axis]
    m = a.sum(axis=axis, keepdims=True) * fractions.Fraction(1, n)
    d = a - m
    return (d * d).sum(axis=axis) * fractions.Fraction(1, n - ddof)


def _std(a, axis=None, ddof=0, **kw):
    return _sqrt(_var(a, axis=axis, ddof=ddof))


def _mean(a, axis=None, **kw):
    a = O(a)
    n = a.size if axis is None else a.shape[axis]
    return a.sum(axis=axis, **{k: v for k, v in kw.items() if k == "keepdims"}) * fractions.Fraction(1, n)


class SymNP:
    """module-global `np` replacement"""

    def __init__(self):
        self.linalg = _Linalg(self)
        self.stubs = {}  # name -> callable, installed by harnesses (svd, eigh, log, ...)
        self.used = set()
        self.random = _Random(self)

    # ---- constructors: float arrays become object arrays so that symbols can be stored
    def _ctor(self, name, *a, **k):
        dt = k.get("dtype", None)
        if _is_float_dtype(dt):
            k.pop("dtype", None)
            return getattr(_np, name)(*a, **k).astype(object)
        return getattr(_np, name)(*a, **k)

    def eye(self, *a, **k):
        return self._ctor("eye", *a, **k)

    def identity(self, *a, **k):
        return self._ctor("identity", *a, **k)

    def zeros(self, *a, **k):
        if len(a) > 1 and not _is_float_dtype(a[1]):
            return _np.zeros(*a, **k)
        if len(a) > 1:
            a = a[:1] + a[2:]
        return self._ctor("zeros", *a, **k)

    def ones(self, *a, **k):
        if len(a) > 1 and not _is_float_dtype(a[1]):
            return _np.ones(*a, **k)
        if len(a) > 1:
            a = a[:1] + a[2:]
        return self._ctor("ones", *a, **k)

    def empty(self, *a, **k):
        if len(a) > 1 and not _is_float_dtype(a[1]):
            return _np.empty(*a, **k)
        if len(a) > 1:
            a = a[:1] + a[2:]
        k2 = dict(k)
        if _is_float_dtype(k2.get("dtype", None)):
            k2.pop("dtype", None)
            return _np.zeros(*a, **k2).astype(object)
        return _np.empty(*a, **k)

    def full(self, shape, fill_value, dtype=None, **k):
        if has_sym(fill_value) or _is_float_dtype(dtype) and not isinstance(fill_value, (bool, _np.bool_, int, _np.integer, str)):
            out = _np.empty(shape, dtype=object)
            out[...] = fill_value
            return out
        return _np.full(shape, fill_value, dtype=dtype, **k)

    def array(self, obj, *a, **k):
        if has_sym(obj):
            dt = k.pop("dtype", None)
            if a:
                dt, a = a[0], a[1:]
            if dt is not None and not _is_float_dtype(dt) and dt is not object:
                raise Unsupported("np.array(symbolic, dtype=%r)" % (dt,))
            k.pop("order", None)
            copy = k.pop("copy", True)
            if isinstance(obj, _np.ndarray) and obj.dtype == object:
                return obj.copy() if copy else obj
            return _np.array(obj, dtype=object)
        return _np.array(obj, *a, **k)

    def asarray(self, obj, *a, **k):
        if has_sym(obj):
            dt = k.pop("dtype", None)
            if a:
                dt = a[0]
            if dt is not None and not _is_float_dtype(dt) and dt is not object:
                raise Unsupported("np.asarray(symbolic, dtype=%r)" % (dt,))
            if isinstance(obj, _np.ndarray) and obj.dtype == object:
                return obj
            return _np.array(obj, dtype=object)
        return _np.asarray(obj, *a, **k)

    def asanyarray(self, obj, *a, **k):
        return self.asarray(obj, *a, **k)

    def float64(self, x=0.0):
        if is_sym(x):
            return x
        return _np.float64(x)

    # ---- symbolic implementations
    def sqrt(self, a):
        return _sqrt(a)

    def sign(self, x):
        return _sign(x)

    def floor(self, x):
        return _floor(x) if has_sym(x) else _np.floor(_defloat(x))

    def ceil(self, x):
        return _ceil(x) if has_sym(x) else _np.ceil(_defloat(x))

    def round(self, x, decimals=0, out=None):
        return _round(x, decimals) if has_sym(x) else _np.round(_defloat(x), decimals)

    around = round
    round_ = round

    def rint(self, x):
        return _round(x) if has_sym(x) else _np.rint(_defloat(x))

    def allclose(self, a, b, rtol=1e-5, atol=1e-8, equal_nan=False):
        if not has_sym(a, b):
            return _np.allclose(_defloat(a), _defloat(b), rtol=rtol, atol=atol)
        return bool(allclose_term(a, b, rtol, atol))

    def isclose(self, a, b, rtol=1e-5, atol=1e-8, equal_nan=False):
        if not has_sym(a, b):
            return _np.isclose(_defloat(a), _defloat(b), rtol=rtol, atol=atol)
        return _isclose(a, b, rtol, atol)

    def isnan(self, a):
        if isinstance(a, _np.ndarray) and a.dtype == object:
            out = _np.zeros(a.shape, dtype=bool)
            for i in _np.ndindex(*a.shape):
                v = a[i]
                out[i] = False if is_sym(v) else (isinstance(v, float) and v != v)
            return out
        if is_sym(a):
            return False
        return _np.isnan(a)

    def isfinite(self, a):
        if has_sym(a):
            return _np.ones(_np.shape(a), dtype=bool)
        return _np.isfinite(_defloat(a))

    def isinf(self, a):
        if has_sym(a):
            return _np.zeros(_np.shape(a), dtype=bool)
        return _np.isinf(_defloat(a))

    def nan_to_num(self, a, *args, **kw):
        if has_sym(a):
            return a
        return _np.nan_to_num(_defloat(a), *args, **kw)

    def cov(self, m, *a, **k):
        if not has_sym(m):
            r = _np.cov(_defloat(m), *a, **k)
            return _reobject(r) if _was_object((m,)) else r
        return _cov(m, *a, **k)

    def var(self, a, *args, **k):
        if not has_sym(a):
            return _np.var(_defloat(a), *args, **k)
        return _var(a, *args, **k)

    def std(self, a, *args, **k):
        if not has_sym(a):
            return _np.std(_defloat(a), *args, **k)
        return _std(a, *args, **k)

    def mean(self, a, *args, **k):
        if not has_sym(a):
            r = _np.mean(_defloat(a), *args, **k)
            return _reobject(r) if _was_object((a,)) else r
        if args:
            k["axis"] = args[0]
        return _mean(a, **k)

    def deg2rad(self, x):
        return _deg2rad(x)

    def rad2deg(self, x):
        return _rad2deg(x)

    radians = deg2rad
    degrees = rad2deg

    def cos(self, x):
        return _cos(x)

    def sin(self, x):
        return _sin(x)

    def tan(self, x):
        return _tan(x)

    def arccos(self, x):
        return _arccos(x)

    def arctan2(self, y, x):
        """direction of the vector (x, y) as an Angle: cos = x/r, sin = y/r"""
        if has_sym(y, x):
            if isinstance(y, _np.ndarray) and y.shape == ():
                y = y.item()
            if isinstance(x, _np.ndarray) and x.shape == ():
                x = x.item()
            r = Sym.of(Sym.of(x) * x + Sym.of(y) * y).sqrt()
            return Angle(Sym.of(x) / r, Sym.of(y) / r, "rad")
        return _np.arctan2(_defloat(y), _defloat(x))

    def cross(self, a, b, **k):
        if not has_sym(a, b):
            r = _np.cross(_defloat(a), _defloat(b), **k)
            return _reobject(r) if _was_object((a, b)) else r
        a = O(a)
        b = O(b)
        if a.shape[-1] == 3 and b.shape[-1] == 3 and not k:
            a, b = _np.broadcast_arrays(a, b)
            out = _np.empty(a.shape, dtype=object)
            out[..., 0] = a[..., 1] * b[..., 2] - a[..., 2] * b[..., 1]
            out[..., 1] = a[..., 2] * b[..., 0] - a[..., 0] * b[..., 2]
            out[..., 2] = a[..., 0] * b[..., 1] - a[..., 1] * b[..., 0]
            return out
        # defer to numpy's own checks/behaviour for other shapes
        return _np.cross(a, b, **k)

    def __getattr__(self, k):
        real = getattr(_np, k)
        if k in self.stubs:
            stub = self.stubs[k]

            def s(*a, **kw):
                if has_sym(*a) or getattr(stub, "always", False):
                    return stub(*a, **kw)
                r = real(*[_defloat(x) for x in a], **kw)
                return _reobject(r) if _was_object(a) else r

            return s
        if not callable(real) or isinstance(real, type):
            return real
        if k in NATIVE:
            return real

        def f(*a, **kw):
            if has_sym(*a) or has_sym(*kw.values()):
                raise Unsupported("numpy.%s on symbolic input has no model" % k)
            r = real(*[_defloat(x) for x in a], **kw)
            return _reobject(r) if _was_object(a) else r

        f.__name__ = k
        return f


class _Random:
    def __init__(self, p):
        self._p = p

    def __getattr__(self, k):
        h = self._p.stubs.get("random." + k)
        if h is not None:
            return h
        return getattr(_np.random, k)


NP = SymNP()
_PATCHED = []


def patch_menpo():
    """replace module-global `np` in every loaded menpo module"""
    import sys

    for name, m in list(sys.modules.items()):
        if m is None or not (name == "menpo" or name.startswith("menpo.")):
            continue
        if ".test" in name:
            continue
        if getattr(m, "np", None) is _np:
            m.np = NP
            _PATCHED.append(m)
    return len(_PATCHED)


def unpatch_menpo():
    for m in _PATCHED:
        m.np = _np
    del _PATCHED[:]
