"""SYMX core: symbolic scalars (fractions of z3 real polynomials), symbolic
booleans that fork paths, per-path context, solver access.

Nothing here knows about menpo.  Real menpo code runs on numpy object arrays
whose elements are `Sym`; comparisons yield `SymB`, whose `__bool__` consults
the decision prefix of the current path (replay-based DFS, see driver.py).
"""
import fractions
import math
import time

import numpy as _np
import z3


# --------------------------------------------------------------------------
# exceptions (BaseException so that menpo's `except Exception` cannot eat them)
class PathAbort(BaseException):
    """the current path cannot be continued (bound hit); not a verdict"""


class Infeasible(BaseException):
    """the decision prefix being replayed is infeasible"""


class Unsupported(BaseException):
    """a numpy/scipy operation without a symbolic model was reached"""


class ReplayPrecondition(Exception):
    """concrete replay: a harness assumption does not hold for the model"""


# --------------------------------------------------------------------------
STATS = {"queries": 0, "solver_s": 0.0, "unknown": 0, "shortcut": 0}
RLIMIT = 5_000_000  # z3 resource units per query (deterministic budget; ~40 s of nlsat)
TIMEOUT_MS = 120_000  # wall-clock safety net only
TRACE = bool(__import__("os").environ.get("SYMX_TRACE"))


def check(fs, rlimit=None, timeout=None):
    """fresh solver per query: lets z3 pick nlsat for QF_NRA"""
    s = z3.Solver()
    s.set("rlimit", int(rlimit or RLIMIT))
    s.set("timeout", int(timeout or TIMEOUT_MS))
    for f in fs:
        s.add(f)
    t = time.time()
    r = s.check()
    STATS["queries"] += 1
    STATS["solver_s"] += time.time() - t
    r = str(r)
    if r == "unknown":
        STATS["unknown"] += 1
    if TRACE and time.time() - t > 1.0:
        import sys

        rc = [v for k, v in s.statistics() if k == "rlimit count"]
        sys.stderr.write("SYMX slow query %.1fs -> %s (rlimit used %s, reason %s) last=%s\n" % (
            time.time() - t, r, rc, s.reason_unknown() if r == "unknown" else "", str(fs[-1])[:160].replace("\n", " ")))
    return r, s


class Ctx:
    def __init__(self, prefix=(), done=(), check_last=False):
        self.prefix = list(prefix)
        self.done = list(done)  # done[i]: the alternative of decision i needs no exploration
        self.check_last = check_last  # last prefix entry is a flipped, unchecked branch
        self.pos = 0
        self.pc = []  # branch decisions
        self.assume = []  # harness assumptions (input boxes, preconditions)
        self.defined = []  # engine side conditions (den != 0, sqrt defs, stub contracts)
        self.fresh = 0
        self.sqrts = []
        self.inputs = {}  # name -> (kind, z3 var)
        self.model = None  # last model known to satisfy assume+defined+pc
        self.model_len = (0, 0, 0)
        self.notes = []
        self.memo = {}

    def all(self):
        return self.assume + self.defined + self.pc

    def fresh_real(self, tag):
        self.fresh += 1
        return z3.Real("%s!%d" % (tag, self.fresh))

    def fresh_bool(self, tag):
        self.fresh += 1
        return z3.Bool("%s!%d" % (tag, self.fresh))

    # concolic shortcut: is the cached model still a model of everything?
    def _model_ok(self):
        m = self.model
        if m is None:
            return False
        a, d, p = self.model_len
        try:
            for lst, k in ((self.assume, a), (self.defined, d), (self.pc, p)):
                for f in lst[k:]:
                    if not z3.is_true(m.eval(f, model_completion=True)):
                        self.model = None
                        return False
        except z3.Z3Exception:
            self.model = None
            return False
        self.model_len = (len(self.assume), len(self.defined), len(self.pc))
        return True

    def set_model(self, m):
        self.model = m
        self.model_len = (len(self.assume), len(self.defined), len(self.pc))


CTX = None


def ctx():
    return CTX


def set_ctx(c):
    global CTX
    CTX = c


# --------------------------------------------------------------------------
def _frac_val(fr):
    if fr.denominator == 1:
        return z3.RealVal(fr.numerator)
    return z3.RealVal(str(fr))


def lift0(x):
    """concrete python/numpy number -> exact z3 rational"""
    if isinstance(x, (bool, _np.bool_)):
        return z3.RealVal(int(x))
    if isinstance(x, (int, _np.integer)):
        return z3.RealVal(int(x))
    if isinstance(x, (float, _np.floating)):
        xf = float(x)
        if xf != xf or xf in (math.inf, -math.inf):
            raise Unsupported("non-finite concrete value %r mixed with symbols" % xf)
        return _frac_val(fractions.Fraction(xf))
    if isinstance(x, fractions.Fraction):
        return _frac_val(x)
    raise TypeError(type(x))


def is_conc_num(x):
    return isinstance(x, (bool, int, float, _np.number, _np.bool_, fractions.Fraction))


def is_sym(x):
    return isinstance(x, (Sym, SymB))


class SymB:
    """symbolic boolean; bool() forks"""

    __slots__ = ("t",)

    def __init__(self, t):
        self.t = t

    def __bool__(self):
        c = CTX
        t = z3.simplify(self.t)
        if z3.is_true(t):
            return True
        if z3.is_false(t):
            return False
        if c.pos < len(c.prefix):
            d = c.prefix[c.pos]
            if c.pos == len(c.prefix) - 1 and c.check_last:
                # the flipped branch of a backtrack: must be feasible
                r, s = check(c.all() + [t if d else z3.Not(t)])
                if r == "unsat":
                    raise Infeasible()
                if r == "unknown":
                    c.notes.append("feasibility of flipped branch unknown")
                    raise PathAbort("feasibility unknown")
                c.pc.append(t if d else z3.Not(t))
                c.set_model(s.model())
                c.pos += 1
                return d
        else:
            d = None
            if c._model_ok():
                try:
                    v = c.model.eval(t, model_completion=True)
                    if z3.is_true(v):
                        d = True
                    elif z3.is_false(v):
                        d = False
                except z3.Z3Exception:
                    d = None
                if d is not None:
                    STATS["shortcut"] += 1
            if d is None:
                r, s = check(c.all() + [t])
                if r == "sat":
                    d = True
                    c.pc.append(t)
                    c.set_model(s.model())
                    c.prefix.append(d)
                    c.done.append(False)
                    c.pos += 1
                    return d
                r2, s2 = check(c.all() + [z3.Not(t)])
                if r2 == "sat":
                    d = False
                    c.pc.append(z3.Not(t))
                    c.set_model(s2.model())
                    c.prefix.append(d)
                    # alternative proved infeasible -> nothing to explore there
                    c.done.append(r == "unsat")
                    if r != "unsat":
                        c.notes.append("branch alternative undecided (unknown)")
                    c.pos += 1
                    return d
                if r == "unsat" and r2 == "unsat":
                    raise Infeasible()
                c.notes.append("branch feasibility unknown")
                raise PathAbort("branch feasibility unknown")
            c.prefix.append(d)
            c.done.append(False)
        c.pos += 1
        c.pc.append(t if d else z3.Not(t))
        return d

    @staticmethod
    def _o(o):
        if isinstance(o, SymB):
            return o.t
        return z3.BoolVal(bool(o))

    def __and__(self, o):
        return SymB(z3.And(self.t, self._o(o)))

    __rand__ = __and__

    def __or__(self, o):
        return SymB(z3.Or(self.t, self._o(o)))

    __ror__ = __or__

    def __invert__(self):
        return SymB(z3.Not(self.t))

    def __repr__(self):
        return "SymB(%s)" % self.t


def bterm(x):
    """SymB | bool -> z3 Bool"""
    if isinstance(x, SymB):
        return x.t
    if isinstance(x, z3.BoolRef):
        return x
    return z3.BoolVal(bool(x))


ONE = z3.RealVal(1)
ZERO = z3.RealVal(0)


def _czero(o):
    return is_conc_num(o) and o == 0


def _cone(o):
    return is_conc_num(o) and o == 1


class Sym:
    """n/d with n, d z3 real terms (d None == 1)."""

    __slots__ = ("n", "d")

    def __init__(self, n, d=None):
        self.n = n
        self.d = d

    @property
    def t(self):
        return self.n if self.d is None else self.n / self.d

    @staticmethod
    def of(o):
        if isinstance(o, Sym):
            return o
        if isinstance(o, _np.ndarray) and o.shape == ():
            return Sym.of(o.item())
        return Sym(lift0(o))

    def _nd(self, o):
        o = Sym.of(o)
        return self.n, self.d, o.n, o.d

    def __add__(self, o):
        if _czero(o):
            return self
        try:
            a, b, c, d = self._nd(o)
        except TypeError:
            return NotImplemented
        if b is None and d is None:
            return Sym(a + c)
        if b is None:
            return Sym(a * d + c, d)
        if d is None:
            return Sym(a + c * b, b)
        if b.eq(d):
            return Sym(a + c, b)
        return Sym(a * d + c * b, b * d)

    __radd__ = __add__

    def __neg__(self):
        return Sym(-self.n, self.d)

    def __pos__(self):
        return self

    def __sub__(self, o):
        if _czero(o):
            return self
        try:
            return self + (-Sym.of(o))
        except TypeError:
            return NotImplemented

    def __rsub__(self, o):
        try:
            return Sym.of(o) + (-self)
        except TypeError:
            return NotImplemented

    def __mul__(self, o):
        if is_conc_num(o):
            if o == 0:
                return 0
            if o == 1:
                return self
        try:
            a, b, c, d = self._nd(o)
        except TypeError:
            return NotImplemented
        n = a * c
        if b is None and d is None:
            return Sym(n)
        if b is None:
            return Sym(n, d)
        if d is None:
            return Sym(n, b)
        return Sym(n, b * d)

    __rmul__ = __mul__

    def inv(self):
        CTX.defined.append(self.n != 0)
        if self.d is None:
            return Sym(ONE, self.n)
        return Sym(self.d, self.n)

    def __truediv__(self, o):
        if is_conc_num(o):
            if o == 0:
                raise ZeroDivisionError("symbolic / concrete zero")
            return self * (fractions.Fraction(1) / _to_fraction(o))
        try:
            return self * Sym.of(o).inv()
        except TypeError:
            return NotImplemented

    def __rtruediv__(self, o):
        if _czero(o):
            CTX.defined.append(self.n != 0)
            return 0
        try:
            return Sym.of(o) * self.inv()
        except TypeError:
            return NotImplemented

    def __pow__(self, o):
        if isinstance(o, (float, _np.floating)) and float(o).is_integer():
            o = int(o)
        if isinstance(o, (int, _np.integer)) and o >= 0:
            r = 1
            for _ in range(int(o)):
                r = self * r
            return r
        if isinstance(o, (int, _np.integer)):
            return (self ** (-o)).inv()
        if o == 0.5:
            return self.sqrt()
        if o == -0.5:
            return self.sqrt().inv()
        raise Unsupported("Sym ** %r" % (o,))

    def sgn_expr(self):
        """z3 real with the sign of self (zero iff self zero)"""
        return self.n if self.d is None else self.n * self.d

    def __abs__(self):
        n = z3.If(self.n >= 0, self.n, -self.n)
        d = None if self.d is None else z3.If(self.d >= 0, self.d, -self.d)
        return Sym(n, d)

    def _cmp(self, o, f):
        try:
            x = self - o
        except TypeError:
            return NotImplemented
        if x is NotImplemented:
            return NotImplemented
        return SymB(f(x.sgn_expr(), 0))

    def __lt__(self, o):
        return self._cmp(o, lambda a, b: a < b)

    def __le__(self, o):
        return self._cmp(o, lambda a, b: a <= b)

    def __gt__(self, o):
        return self._cmp(o, lambda a, b: a > b)

    def __ge__(self, o):
        return self._cmp(o, lambda a, b: a >= b)

    def __eq__(self, o):
        if o is None or isinstance(o, str):
            return False
        try:
            x = self - o
        except TypeError:
            return False
        if x is NotImplemented:
            return False
        return SymB(x.n == 0)

    def __ne__(self, o):
        if o is None or isinstance(o, str):
            return True
        try:
            x = self - o
        except TypeError:
            return True
        if x is NotImplemented:
            return True
        return SymB(x.n != 0)

    __hash__ = None

    def __bool__(self):
        return bool(self != 0)

    def conjugate(self):
        return self

    @property
    def real(self):
        return self

    @property
    def imag(self):
        return 0

    def sqrt(self):
        c = CTX
        for (arg, r) in c.sqrts:
            dlt = self - arg
            if isinstance(dlt, Sym):
                res, _ = check(c.all() + [dlt.n != 0], rlimit=RLIMIT // 8)
                if res == "unsat":
                    return r
        rv = c.fresh_real("sqrt")
        c.defined.append(rv >= 0)
        c.defined.append((rv * rv == self.n) if self.d is None else (rv * rv * self.d == self.n))
        c.defined.append(self.sgn_expr() >= 0)
        out = Sym(rv)
        c.sqrts.append((self, out))
        return out

    def __floor__(self):
        return Sym(z3.ToReal(z3.ToInt(self.t)))

    def __ceil__(self):
        return Sym(-z3.ToReal(z3.ToInt(-self.t)))

    def rint(self):
        f = z3.ToInt(self.t)
        fr = self.t - z3.ToReal(f)
        half = z3.RealVal("1/2")
        r = z3.If(fr < half, f, z3.If(fr > half, f + 1, z3.If(f % 2 == 0, f, f + 1)))
        return Sym(z3.ToReal(r))

    def __round__(self, nd=None):
        if nd:
            raise Unsupported("round with digits")
        return self.rint()

    def __int__(self):
        return concretize_int(self, trunc=True)

    def __index__(self):
        return concretize_int(self, trunc=False)

    def __float__(self):
        raise Unsupported("float() of a symbolic value (concretisation)")

    def __repr__(self):
        return "Sym(%s)" % z3.simplify(self.t)


def _to_fraction(o):
    if isinstance(o, fractions.Fraction):
        return o
    if isinstance(o, (bool, _np.bool_, int, _np.integer)):
        return fractions.Fraction(int(o))
    return fractions.Fraction(float(o))


INT_LO, INT_HI = -64, 64


def concretize_int(sym, trunc=False, lo=None, hi=None):
    """fork over the feasible integer values of an integer-valued term"""
    t = z3.simplify(sym.t if isinstance(sym, Sym) else sym)
    if z3.is_rational_value(t):
        fr = fractions.Fraction(t.numerator_as_long(), t.denominator_as_long())
        return int(fr) if trunc else int(math.floor(fr))
    if trunc:
        # C-style truncation towards zero
        fl = z3.ToInt(t)
        ti = z3.If(z3.Or(t >= 0, z3.ToReal(fl) == t), fl, fl + 1)
    else:
        ti = z3.ToInt(t)
    lo = INT_LO if lo is None else lo
    hi = INT_HI if hi is None else hi
    c = CTX
    # ask the model first to avoid a linear scan
    if c._model_ok():
        try:
            v = c.model.eval(ti, model_completion=True).as_long()
            if lo <= v <= hi and bool(SymB(ti == v)):
                return v
        except (z3.Z3Exception, AttributeError):
            pass
    for v in range(lo, hi + 1):
        if bool(SymB(ti == v)):
            return v
    raise PathAbort("integer concretisation out of [%d,%d]" % (lo, hi))


def eqz(a, b=0):
    """z3 formula  a == b  for Sym/concrete operands"""
    x = Sym.of(a) - b
    if not isinstance(x, Sym):
        x = Sym.of(x)
    return x.n == 0


def lift(x):
    if isinstance(x, Sym):
        return x.t
    if isinstance(x, _np.ndarray) and x.shape == ():
        return lift(x.item())
    return lift0(x)


def has_sym(*xs):
    for x in xs:
        if is_sym(x):
            return True
        if isinstance(x, _np.ndarray):
            if x.dtype == object:
                for v in x.flat:
                    if is_sym(v):
                        return True
        elif isinstance(x, (list, tuple)):
            if has_sym(*x):
                return True
    return False


def O(a):
    """as object array"""
    if isinstance(a, _np.ndarray) and a.dtype == object:
        return a
    if isinstance(a, (list, tuple)):
        # np.asarray on nested lists holding Sym works (Sym is not a sequence)
        return _np.array(a, dtype=object)
    return _np.asarray(a, dtype=object)


def symarr(name, shape, lo=None, hi=None):
    from . import factory  # noqa

    return factory.CUR.reals(name, shape, lo, hi)


def model_value(m, var):
    """z3 model value -> python (Fraction, bool, int); algebraic -> Fraction approx"""
    v = m.eval(var, model_completion=True)
    if z3.is_true(v):
        return True
    if z3.is_false(v):
        return False
    if z3.is_int_value(v):
        return v.as_long()
    if z3.is_rational_value(v):
        return fractions.Fraction(v.numerator_as_long(), v.denominator_as_long())
    if z3.is_algebraic_value(v):
        a = v.approx(30)
        return fractions.Fraction(a.numerator_as_long(), a.denominator_as_long())
    raise ValueError("cannot read model value %r" % v)
