"""SYMX core: symbolic scalars (fractions of z3 real polynomials), symbolic
booleans that fork paths, per-path context, solver access.

Nothing here knows about menpo.  Real menpo code runs on numpy object arrays
whose elements are `Sym`; comparisons yield `SymB`, whose `__bool__` consults
the decision prefix of the current path (replay-based DFS, see driver.py).
"""
import fractions
import math
import time

import numpy as _np
import z3


# --------------------------------------------------------------------------
# exceptions (BaseException so that menpo's `except Exception` cannot eat them)
class PathAbort(BaseException):
    """the current path cannot be continued (bound hit); not a verdict"""


class Infeasible(BaseException):
    """the decision prefix being replayed is infeasible"""


class Unsupported(BaseException):
    """a numpy/scipy operation without a symbolic model was reached"""


class ReplayPrecondition(Exception):
    """concrete replay: a harness assumption does not hold for the model"""


# --------------------------------------------------------------------------
STATS = {"queries": 0, "solver_s": 0.0, "unknown": 0, "shortcut": 0}
RLIMIT = 5_000_000  # z3 resource units per query (deterministic budget; ~40 s of nlsat)
TIMEOUT_MS = 120_000  # wall-clock safety net only
TRACE = bool(__import__("os").environ.get("SYMX_TRACE"))


WATCHDOG = False  # set in worker processes: a solver call that overstays its own limits by 90 s ends the process
_QUERY = [0.0, 0.0]  # (start of the running solver call or 0, its wall-clock allowance)
_DOG = []


def _arm_watchdog(t, allowance):
    _QUERY[1] = allowance
    _QUERY[0] = t
    if not _DOG:
        import os
        import threading

        def watch():
            while True:
                time.sleep(5)
                t0 = _QUERY[0]
                if t0 and time.time() - t0 > _QUERY[1] + 90:
                    os._exit(77)

        th = threading.Thread(target=watch, daemon=True)
        th.start()
        _DOG.append(th)


def check(fs, rlimit=None, timeout=None):
    """fresh solver per query: lets z3 pick nlsat for QF_NRA"""
    s = z3.Solver()
    s.set("rlimit", int(rlimit or RLIMIT))
    s.set("timeout", int(timeout or TIMEOUT_MS))
    for f in fs:
        s.add(f)
    t = time.time()
    if WATCHDOG:
        _arm_watchdog(t, int(timeout or TIMEOUT_MS) / 1000.0)
    try:
        r = s.check()
    finally:
        _QUERY[0] = 0.0
    STATS["queries"] += 1
    STATS["solver_s"] += time.time() - t
    r = str(r)
    if r == "unknown":
        STATS["unknown"] += 1
    if TRACE and time.time() - t > 1.0:
        import sys

        rc = [v for k, v in s.statistics() if k == "rlimit count"]
        sys.stderr.write("SYMX slow query %.1fs -> %s (rlimit used %s, reason %s) last=%s\n" % (
            time.time() - t, r, rc, s.reason_unknown() if r == "unknown" else "", str(fs[-1])[:160].replace("\n", " ")))
    return r, s


def _seed_value(name, attempt, lo, hi):
    """deterministic pseudo-random dyadic rational in [lo, hi]"""
    import zlib

    h = zlib.crc32(("%s#%d" % (name, attempt)).encode())
    lo = -8 if lo is None else lo
    hi = 8 if hi is None else hi
    k = h % 257
    return fractions.Fraction(lo) + (fractions.Fraction(hi) - fractions.Fraction(lo)) * fractions.Fraction(k, 256)


def seeded_check(c, fs, attempts=3):
    """satisfiability with a concolic head start: first try to extend a few concrete input assignments to
    a model (cheap: everything becomes univariate); fall back to the full query.  Returns (result, solver)."""
    if c is not None and SEEDING and len(c.inputs) > 0:
        for k in range(attempts):
            eqs = []
            for name, (kind, var) in c.inputs.items():
                if kind == "real":
                    lo, hi = c.boxes.get(name, (None, None))
                    v = _seed_value(name, k + c.seed_shift, lo, hi)
                    eqs.append(var == z3.RealVal(str(v)))
            if not eqs:
                break
            r, s = check(fs + eqs, rlimit=max(RLIMIT // 50, 100_000), timeout=5000)
            if r == "sat":
                STATS["seeded"] = STATS.get("seeded", 0) + 1
                return r, s
    return check(fs)


SEEDING = True


def generic_model(c, fs, prefer=None):
    """a model of fs whose input values are as GENERIC as the constraints allow (for the replay of a path that died):
    every real input is pinned to a pseudo-random dyadic value if that keeps fs satisfiable, otherwise it is at least
    asked not to be an integer.  Special values (0, integers) hide defects such as a lossy integer buffer."""
    r, s = seeded_check(c, fs, attempts=2)
    if r != "sat" or c is None:
        return r, s
    reals = [(name, var) for name, (kind, var) in c.inputs.items() if kind == "real"]
    if len(reals) > 40:
        return r, s
    m = s.model()
    generic = prefer is None
    for name, var in reals:
        try:
            v = m.eval(var, model_completion=True)
            if z3.is_rational_value(v) and v.denominator_as_long() == 1:
                generic = False
                break
        except z3.Z3Exception:
            pass
    if generic:
        return r, s
    extra = []
    small = dict(rlimit=max(RLIMIT // 50, 100_000), timeout=3000)
    for name, var in reals:
        lo, hi = c.boxes.get(name, (None, None))
        pinned = False
        for k in (0, 1):
            cand = var == z3.RealVal(str(_seed_value(name, k + c.seed_shift, lo, hi)))
            if check(fs + extra + [cand], **small)[0] == "sat":
                extra.append(cand)
                pinned = True
                break
        if not pinned and prefer == "neg":
            # second replay model of a dying path: inputs that cannot take a generic value are asked to be negative
            # (constrained inputs such as a point of the unit circle otherwise come back from one half only)
            cand = var < 0
            if check(fs + extra + [cand], **small)[0] == "sat":
                extra.append(cand)
        if not pinned:
            cand = z3.ToReal(z3.ToInt(var)) != var
            if check(fs + extra + [cand], **small)[0] == "sat":
                extra.append(cand)
    r2, s2 = check(fs + extra)
    return (r2, s2) if r2 == "sat" else (r, s)


class Ctx:
    def __init__(self, prefix=(), done=(), check_last=False):
        self.prefix = list(prefix)
        self.done = list(done)  # done[i]: the alternative of decision i needs no exploration
        self.check_last = check_last  # last prefix entry is a flipped, unchecked branch
        self.pos = 0
        self.pc = []  # branch decisions
        self.assume = []  # harness assumptions (input boxes, preconditions)
        self.defined = []  # engine side conditions (den != 0, sqrt defs, stub contracts)
        self.fresh = 0
        self.sqrts = []
        self.inputs = {}  # name -> (kind, z3 var)
        self.model = None  # last model known to satisfy assume+defined+pc
        self.model_len = (0, 0, 0)
        self.notes = []
        self.memo = {}
        self.boxes = {}
        self.seed_shift = 0

    def all(self):
        return self.assume + self.defined + self.pc

    def fresh_real(self, tag):
        self.fresh += 1
        return z3.Real("%s!%d" % (tag, self.fresh))

    def fresh_free_real(self, tag, lo=-4, hi=4):
        """engine-fresh real that is unconstrained apart from its box: registered like an input so that the
        concolic seeding can pick a value for it (replay ignores it)"""
        self.fresh += 1
        name = "%s!%d" % (tag, self.fresh)
        v = z3.Real(name)
        self.inputs[name] = ("real", v)
        self.boxes[name] = (lo, hi)
        if lo is not None:
            self.defined.append(v >= lo)
        if hi is not None:
            self.defined.append(v <= hi)
        return v

    def fresh_bool(self, tag):
        self.fresh += 1
        return z3.Bool("%s!%d" % (tag, self.fresh))

    # concolic shortcut: is the cached model still a model of everything?
    def _model_ok(self):
        m = self.model
        if m is None:
            return False
        a, d, p = self.model_len
        try:
            for lst, k in ((self.assume, a), (self.defined, d), (self.pc, p)):
                for f in lst[k:]:
                    if not z3.is_true(m.eval(f, model_completion=True)):
                        self.model = None
                        return False
        except z3.Z3Exception:
            self.model = None
            return False
        self.model_len = (len(self.assume), len(self.defined), len(self.pc))
        return True

    def set_model(self, m):
        self.model = m
        self.model_len = (len(self.assume), len(self.defined), len(self.pc))


CTX = None


def ctx():
    return CTX


def set_ctx(c):
    global CTX
    CTX = c


# --------------------------------------------------------------------------
from .poly import Poly, Fr  # noqa: E402
from . import poly as _poly  # noqa: E402


def lift0(x):
    """concrete python/numpy number -> exact Fraction"""
    if isinstance(x, (bool, _np.bool_)):
        return Fr(int(x))
    if isinstance(x, (int, _np.integer)):
        return Fr(int(x))
    if isinstance(x, (float, _np.floating)):
        xf = float(x)
        if xf != xf or xf in (math.inf, -math.inf):
            raise Unsupported("non-finite concrete value %r mixed with symbols" % xf)
        return Fr(xf)
    if isinstance(x, fractions.Fraction):
        return x
    raise TypeError(type(x))


def is_conc_num(x):
    if isinstance(x, SymFloat):
        return False
    return isinstance(x, (bool, int, float, _np.number, _np.bool_, fractions.Fraction))


class SymFloat(float):
    """a Python float subclass that carries a symbolic value: it passes `isinstance(x, float)` tests in the code
    under analysis while every comparison and arithmetic operation is delegated to the symbol"""

    def __new__(cls, sym):
        o = float.__new__(cls, 0.5)
        o.sym = sym
        return o

    def __lt__(self, o):
        return self.sym < o

    def __le__(self, o):
        return self.sym <= o

    def __gt__(self, o):
        return self.sym > o

    def __ge__(self, o):
        return self.sym >= o

    def __eq__(self, o):
        return self.sym == o

    def __ne__(self, o):
        return self.sym != o

    __hash__ = None

    def __add__(self, o):
        return self.sym + o

    __radd__ = __add__

    def __sub__(self, o):
        return self.sym - o

    def __rsub__(self, o):
        return o - self.sym

    def __mul__(self, o):
        return self.sym * o

    __rmul__ = __mul__

    def __truediv__(self, o):
        return self.sym / o

    def __rtruediv__(self, o):
        return o / self.sym

    def __neg__(self):
        return -self.sym

    def __format__(self, spec):
        return "<symbolic float>"

    def __repr__(self):
        return "<symbolic float>"


def is_sym(x):
    return isinstance(x, (Sym, SymB))


class SymB:
    """symbolic boolean; bool() forks"""

    __slots__ = ("t",)

    def __init__(self, t):
        self.t = t

    def __bool__(self):
        c = CTX
        t = self.t
        if z3.is_true(t):
            return True
        if z3.is_false(t):
            return False
        t = z3.simplify(t)
        if z3.is_true(t):
            return True
        if z3.is_false(t):
            return False
        if c.pos < len(c.prefix):
            d = c.prefix[c.pos]
            if c.pos == len(c.prefix) - 1 and c.check_last:
                # the flipped branch of a backtrack: must be feasible
                r, s = seeded_check(c, c.all() + [t if d else z3.Not(t)])
                if r == "unsat":
                    raise Infeasible()
                if r == "unknown":
                    c.notes.append("feasibility of flipped branch unknown")
                    raise PathAbort("feasibility unknown")
                c.pc.append(t if d else z3.Not(t))
                c.set_model(s.model())
                c.pos += 1
                return d
        else:
            d = None
            if c._model_ok():
                try:
                    v = c.model.eval(t, model_completion=True)
                    if z3.is_true(v):
                        d = True
                    elif z3.is_false(v):
                        d = False
                except z3.Z3Exception:
                    d = None
                if d is not None:
                    STATS["shortcut"] += 1
                    # decide the alternative now (one query) instead of re-executing the whole path later
                    alt = z3.Not(t) if d else t
                    ra, _sa = seeded_check(c, c.all() + [alt], attempts=1)
                    c.prefix.append(d)
                    c.done.append(ra == "unsat")
                    if ra == "unknown":
                        c.notes.append("branch alternative undecided (unknown)")
                    c.pos += 1
                    c.pc.append(t if d else z3.Not(t))
                    return d
            if d is None:
                r, s = seeded_check(c, c.all() + [t])
                if r == "sat":
                    d = True
                    c.pc.append(t)
                    c.set_model(s.model())
                    c.prefix.append(d)
                    c.done.append(False)
                    c.pos += 1
                    return d
                r2, s2 = seeded_check(c, c.all() + [z3.Not(t)])
                if r2 == "sat":
                    d = False
                    c.pc.append(z3.Not(t))
                    c.set_model(s2.model())
                    c.prefix.append(d)
                    # alternative proved infeasible -> nothing to explore there
                    c.done.append(r == "unsat")
                    if r != "unsat":
                        c.notes.append("branch alternative undecided (unknown)")
                    c.pos += 1
                    return d
                if r == "unsat" and r2 == "unsat":
                    raise Infeasible()
                c.notes.append("branch feasibility unknown")
                raise PathAbort("branch feasibility unknown")
            c.prefix.append(d)
            c.done.append(False)
        c.pos += 1
        c.pc.append(t if d else z3.Not(t))
        return d

    @staticmethod
    def _o(o):
        if isinstance(o, SymB):
            return o.t
        return z3.BoolVal(bool(o))

    def __and__(self, o):
        return SymB(z3.And(self.t, self._o(o)))

    __rand__ = __and__

    def __or__(self, o):
        return SymB(z3.Or(self.t, self._o(o)))

    __ror__ = __or__

    def __invert__(self):
        return SymB(z3.Not(self.t))

    # booleans used as numbers (np.sum over comparisons, counting): concretise by fork
    def __int__(self):
        return int(bool(self))

    __index__ = __int__

    def __add__(self, o):
        return int(bool(self)) + (int(bool(o)) if isinstance(o, SymB) else o)

    __radd__ = __add__

    def __repr__(self):
        return "SymB(%s)" % self.t


def bterm(x):
    """SymB | bool -> z3 Bool"""
    if isinstance(x, SymB):
        return x.t
    if isinstance(x, z3.BoolRef):
        return x
    return z3.BoolVal(bool(x))


def _czero(o):
    return is_conc_num(o) and o == 0


P0 = Poly()
P1 = Poly.const(1)


class Sym:
    """n/d with n, d canonical polynomials (d None == 1)."""

    __slots__ = ("n", "d")

    def __init__(self, n, d=None):
        if d is not None:
            if n.is_zero():
                d = None
            elif d.is_const():
                c = d.const_value()
                if c == 0:
                    raise ZeroDivisionError("symbolic value with zero denominator")
                n = n.scale(1 / c)
                d = None
        self.n = n
        self.d = d

    @staticmethod
    def var(z3expr):
        return Sym(Poly.var(z3expr))

    @property
    def t(self):
        return self.n.z3() if self.d is None else self.n.z3() / self.d.z3()

    def is_const(self):
        return self.d is None and self.n.is_const()

    def const_value(self):
        return self.n.const_value()

    @staticmethod
    def of(o):
        if isinstance(o, Sym):
            return o
        if isinstance(o, SymFloat):
            return o.sym
        if isinstance(o, _np.ndarray) and o.shape == ():
            return Sym.of(o.item())
        return Sym(Poly.const(lift0(o)))

    def __add__(self, o):
        if _czero(o):
            return self
        try:
            o = Sym.of(o)
        except TypeError:
            return NotImplemented
        a, b, c, d = self.n, self.d, o.n, o.d
        if b is None and d is None:
            return Sym(a + c)
        if b is None:
            return Sym(a * d + c, d)
        if d is None:
            return Sym(a + c * b, b)
        if b == d:
            return Sym(a + c, b)
        return Sym(a * d + c * b, b * d)

    __radd__ = __add__

    def __neg__(self):
        return Sym(-self.n, self.d)

    def __pos__(self):
        return self

    def __sub__(self, o):
        if _czero(o):
            return self
        try:
            return self + (-Sym.of(o))
        except TypeError:
            return NotImplemented

    def __rsub__(self, o):
        try:
            return Sym.of(o) + (-self)
        except TypeError:
            return NotImplemented

    def __mul__(self, o):
        if is_conc_num(o):
            if o == 0:
                return 0
            if o == 1:
                return self
            return Sym(self.n.scale(lift0(o)), self.d)
        try:
            o = Sym.of(o)
        except TypeError:
            return NotImplemented
        a, b, c, d = self.n, self.d, o.n, o.d
        # cheap cancellations keep denominators small
        if b is not None and b == c:
            return Sym(a, d)
        if d is not None and d == a:
            return Sym(c, b)
        n = a * c
        if b is None and d is None:
            return Sym(n)
        if b is None:
            return Sym(n, d)
        if d is None:
            return Sym(n, b)
        return Sym(n, b * d)

    __rmul__ = __mul__

    def inv(self):
        if self.n.is_const():
            c = self.n.const_value()
            if c == 0:
                raise ZeroDivisionError("division by a symbolic expression that is identically zero")
            if self.d is None:
                return Sym(Poly.const(1 / c))
            return Sym(self.d.scale(1 / c))
        CTX.defined.append(self.n.z3() != 0)
        if self.d is None:
            return Sym(P1, self.n)
        return Sym(self.d, self.n)

    def __truediv__(self, o):
        if is_conc_num(o):
            if o == 0:
                raise ZeroDivisionError("symbolic / concrete zero")
            return Sym(self.n.scale(1 / lift0(o)), self.d)
        try:
            return self * Sym.of(o).inv()
        except TypeError:
            return NotImplemented

    def __rtruediv__(self, o):
        if _czero(o):
            if not self.n.is_const():
                CTX.defined.append(self.n.z3() != 0)
            return 0
        try:
            return Sym.of(o) * self.inv()
        except TypeError:
            return NotImplemented

    def __pow__(self, o):
        if isinstance(o, (float, _np.floating)) and float(o).is_integer():
            o = int(o)
        if isinstance(o, (int, _np.integer)) and o >= 0:
            r = 1
            for _ in range(int(o)):
                r = self * r
            return r
        if isinstance(o, (int, _np.integer)):
            return (self ** (-o)).inv()
        if o == 0.5:
            return self.sqrt()
        if o == -0.5:
            return self.sqrt().inv()
        raise Unsupported("Sym ** %r" % (o,))

    # ---- sign predicates: python bool when decidable, else z3 Bool
    def _sign(self, rel):
        n, d = self.n, self.d
        if d is None:
            if n.is_const():
                c = n.const_value()
                return {"gt": c > 0, "ge": c >= 0, "lt": c < 0, "le": c <= 0, "eq": c == 0, "ne": c != 0}[rel]
            z = n.z3()
            return {"gt": z > 0, "ge": z >= 0, "lt": z < 0, "le": z <= 0, "eq": z == 0, "ne": z != 0}[rel]
        zn, zd = n.z3(), d.z3()
        if rel == "eq":
            return zn == 0
        if rel == "ne":
            return zn != 0
        pos = z3.Or(z3.And(zn > 0, zd > 0), z3.And(zn < 0, zd < 0))
        neg = z3.Or(z3.And(zn > 0, zd < 0), z3.And(zn < 0, zd > 0))
        if rel == "gt":
            return pos
        if rel == "lt":
            return neg
        if rel == "ge":
            return z3.Or(zn == 0, pos)
        return z3.Or(zn == 0, neg)

    def sign_term(self, rel):
        r = self._sign(rel)
        return z3.BoolVal(r) if isinstance(r, bool) else r

    def __abs__(self):
        return Sym(_abs_poly(self.n), None if self.d is None else _abs_poly(self.d))

    def _cmp(self, o, rel):
        try:
            x = self - o
        except TypeError:
            return NotImplemented
        if x is NotImplemented:
            return NotImplemented
        if not isinstance(x, Sym):
            x = Sym.of(x)
        r = x._sign(rel)
        if isinstance(r, bool):
            return r
        return SymB(r)

    def __lt__(self, o):
        return self._cmp(o, "lt")

    def __le__(self, o):
        return self._cmp(o, "le")

    def __gt__(self, o):
        return self._cmp(o, "gt")

    def __ge__(self, o):
        return self._cmp(o, "ge")

    def __eq__(self, o):
        if o is None or isinstance(o, str):
            return False
        r = self._cmp(o, "eq")
        return False if r is NotImplemented else r

    def __ne__(self, o):
        if o is None or isinstance(o, str):
            return True
        r = self._cmp(o, "ne")
        return True if r is NotImplemented else r

    __hash__ = None

    def __bool__(self):
        return bool(self != 0)

    def conjugate(self):
        return self

    @property
    def real(self):
        return self

    @property
    def imag(self):
        return 0

    def sqrt(self):
        c = CTX
        if self.is_const():
            v = self.const_value()
            if v < 0:
                raise ValueError("sqrt of a negative constant")
            rn, rd = math.isqrt(v.numerator), math.isqrt(v.denominator)
            if rn * rn == v.numerator and rd * rd == v.denominator:
                return Sym(Poly.const(Fr(rn, rd)))
        for (arg, r) in c.sqrts:
            dlt = self - arg
            if not isinstance(dlt, Sym):
                dlt = Sym.of(dlt)
            if dlt.n.is_zero():
                return r
            if dlt.n.is_const():
                continue
            # cheap refutation: if the current model already separates the two arguments they are not
            # provably equal, no query needed
            if c._model_ok():
                try:
                    mv = c.model.eval(dlt.n.z3() != 0, model_completion=True)
                    if z3.is_true(mv):
                        continue
                except z3.Z3Exception:
                    pass
            res, _ = check(c.all() + [dlt.n.z3() != 0], rlimit=RLIMIT // 8)
            if res == "unsat":
                return r
        rv = c.fresh_real("sqrt")
        out = Sym.var(rv)
        c.defined.append(rv >= 0)
        if self.d is None:
            c.defined.append(rv * rv == self.n.z3())
        else:
            c.defined.append(rv * rv * self.d.z3() == self.n.z3())
        c.defined.append(self.sign_term("ge"))
        c.sqrts.append((self, out))
        return out

    def __floor__(self):
        if self.is_const():
            return Sym(Poly.const(math.floor(self.const_value())))
        return Sym.var(z3.ToReal(z3.ToInt(self.t)))

    def __ceil__(self):
        if self.is_const():
            return Sym(Poly.const(math.ceil(self.const_value())))
        return -Sym.var(z3.ToReal(z3.ToInt(-self.t)))

    def rint(self):
        if self.is_const():
            return Sym(Poly.const(round(self.const_value())))
        f = z3.ToInt(self.t)
        fr = self.t - z3.ToReal(f)
        half = z3.RealVal("1/2")
        r = z3.If(fr < half, f, z3.If(fr > half, f + 1, z3.If(f % 2 == 0, f, f + 1)))
        return Sym.var(z3.ToReal(r))

    def __round__(self, nd=None):
        if nd:
            raise Unsupported("round with digits")
        return self.rint()

    def __int__(self):
        return concretize_int(self, trunc=True)

    def __index__(self):
        return concretize_int(self, trunc=False)

    def __float__(self):
        if self.is_const():
            return float(self.const_value())
        raise Unsupported("float() of a symbolic value (concretisation)")

    def __repr__(self):
        return "Sym(%s)" % z3.simplify(self.t)


def _abs_poly(p):
    if p.is_const():
        return Poly.const(abs(p.const_value()))
    z = p.z3()
    return Poly.var(z3.If(z >= 0, z, -z))


def _to_fraction(o):
    if isinstance(o, fractions.Fraction):
        return o
    if isinstance(o, (bool, _np.bool_, int, _np.integer)):
        return fractions.Fraction(int(o))
    return fractions.Fraction(float(o))


def reduce_sqrts(x):
    """rewrite r^(2j+i) -> radicand^j * r^i (i in {0,1}) for every square-root variable r of the current path whose
    radicand is a polynomial: an exact simplification (r*r == radicand is one of the path's side conditions) that
    turns identities modulo those equations into syntactic ones.  Accepts a Sym, a number or an array."""
    if isinstance(x, _np.ndarray):
        out = _np.empty(x.shape, dtype=object)
        for i in _np.ndindex(*x.shape):
            out[i] = reduce_sqrts(x[i])
        return out
    if not isinstance(x, Sym) or CTX is None:
        return x
    table = {}
    for (arg, r) in CTX.sqrts:
        if arg.d is None and len(r.n.t) == 1:
            (mono, cf), = r.n.t.items()
            if cf == 1 and len(mono) == 1 and mono[0][1] == 1:
                table[mono[0][0]] = arg.n

    def red(p):
        if not table or not any(v in table and e >= 2 for m in p.t for (v, e) in m):
            return p
        acc = Poly()
        for m, cf in p.t.items():
            term = Poly({tuple((v, e) for (v, e) in m if not (v in table and e >= 2)): cf})
            for (v, e) in m:
                if v in table and e >= 2:
                    for _ in range(e // 2):
                        term = term * table[v]
                    if e % 2:
                        term = term * Poly({((v, 1),): Fr(1)})
            acc = acc + term
        return red(acc)

    return Sym(red(x.n), None if x.d is None else red(x.d))


INT_LO, INT_HI = -64, 64
TRUNC_BUDGET = 2
CHOICE_CACHE = {}  # (kind, decision prefix) -> value picked there; reset per harness instance


def concretize_int(sym, trunc=False, lo=None, hi=None):
    """fork over the feasible integer values of an integer-valued term"""
    if isinstance(sym, Sym) and sym.is_const():
        fr = sym.const_value()
        return int(fr) if trunc else int(math.floor(fr))
    if trunc and isinstance(sym, Sym) and CTX is not None and not _integer_valued(sym):
        # truncating a genuinely real-valued symbol (a symbolic value pushed through an integer buffer or
        # `int()`) forks over every feasible integer; none of the code paths the properties cover does this on
        # symbolic data.  The first TRUNC_BUDGET such events of a path are explored faithfully (C truncation
        # towards zero, values enumerated through solver models); after that the path is stopped and the
        # concrete replay decides what it means (a whole array pushed through an integer buffer would otherwise
        # multiply the paths without bound)
        CTX.trunc_events = getattr(CTX, "trunc_events", 0) + 1
        if CTX.trunc_events > TRUNC_BUDGET:
            raise Unsupported("truncation of a real-valued symbol to an integer")
    t = z3.simplify(sym.t if isinstance(sym, Sym) else sym)
    if z3.is_rational_value(t):
        fr = fractions.Fraction(t.numerator_as_long(), t.denominator_as_long())
        return int(fr) if trunc else int(math.floor(fr))
    if trunc:
        # C-style truncation towards zero
        fl = z3.ToInt(t)
        ti = z3.If(z3.Or(t >= 0, z3.ToReal(fl) == t), fl, fl + 1)
    else:
        ti = z3.ToInt(t)
    lo = INT_LO if lo is None else lo
    hi = INT_HI if hi is None else hi
    c = CTX
    if isinstance(sym, Sym):
        r = resolve(sym)
        if not isinstance(r, Sym):
            return int(r) if trunc else int(math.floor(r))
    # enumerate the feasible integer values through solver models (not by scanning the range): pick a value v
    # that some model of the path gives, fork on `ti == v`; on the False branch ask for another one.  The value
    # picked at a given point of a given decision prefix is cached so that re-executions take the same decisions.
    for _ in range(hi - lo + 2):
        key = ("int", tuple(c.prefix[: c.pos]))
        v = CHOICE_CACHE.get(key)
        if v is None:
            if c._model_ok():
                mv = _model_int(c.model, ti, t, trunc)
                if mv is not None and lo <= mv <= hi:
                    v = mv
            if v is None:
                r, s_ = seeded_check(c, c.all() + [ti >= lo, ti <= hi])
                if r == "unsat":
                    raise Infeasible() if c.pos < len(c.prefix) else PathAbort(
                        "integer concretisation out of [%d,%d]" % (lo, hi))
                if r != "sat":
                    c.notes.append("integer concretisation undecided")
                    raise PathAbort("integer concretisation undecided")
                c.set_model(s_.model())
                v = _model_int(s_.model(), ti, t, trunc)
                if v is None or not (lo <= v <= hi):
                    # the model value cannot be read (algebraic numbers inside ToInt): scan the range instead
                    v = "scan"
            CHOICE_CACHE[key] = v
        if v == "scan":
            for w in range(lo, hi + 1):
                if bool(SymB(ti == w)):
                    _learn(sym, w)
                    return w
            raise PathAbort("integer concretisation out of [%d,%d]" % (lo, hi))
        if bool(SymB(ti == v)):
            _learn(sym, v)
            return v
    raise PathAbort("integer concretisation out of [%d,%d]" % (lo, hi))


def _model_int(m, ti, t, trunc):
    """integer value of the term under a model; algebraic model values are approximated"""
    try:
        return m.eval(ti, model_completion=True).as_long()
    except (z3.Z3Exception, AttributeError):
        pass
    try:
        fr = model_value(m, t)
        if isinstance(fr, fractions.Fraction):
            return int(fr) if trunc else int(math.floor(fr))
        if isinstance(fr, int):
            return fr
    except Exception:
        return None
    return None


def _integer_valued(x):
    """syntactic test: integer coefficients over atoms that are ToReal(Int) terms"""
    if x.d is not None:
        return False
    for m, cf in x.n.t.items():
        if cf.denominator != 1:
            return False
        for vid, _e in m:
            e = _poly._VARS[vid]
            if not (z3.is_app(e) and e.decl().kind() == z3.Z3_OP_TO_REAL):
                return False
    return True


def _single_atom(x):
    """x == c0 + c1*atom (one variable, degree one, no denominator) -> (vid, c0, c1) else None"""
    if not isinstance(x, Sym) or x.d is not None:
        return None
    vid, c0, c1 = None, Fr(0), None
    for m, cf in x.n.t.items():
        if not m:
            c0 = cf
        elif len(m) == 1 and m[0][1] == 1 and vid in (None, m[0][0]):
            vid, c1 = m[0][0], cf
        else:
            return None
    return (vid, c0, c1) if vid is not None else None


def _learn(sym, v):
    """after the path has pinned the integer part of `sym` to v: if sym is an affine image of one atom and is
    provably equal to v on this path, remember the atom's value (later terms over it become constants)"""
    sa = _single_atom(sym)
    if sa is None:
        return
    vid, c0, c1 = sa
    c = CTX
    known = c.memo.setdefault("known_atoms", {})
    if vid in known:
        return
    r, _ = check(c.all() + [sym.n.z3() != v], rlimit=RLIMIT // 8)
    if r == "unsat":
        known[vid] = (Fr(v) - c0) / c1


def resolve(x):
    """substitute atoms whose value the current path has pinned; returns a Fraction when nothing symbolic is left"""
    if not isinstance(x, Sym):
        return x
    c = CTX
    known = c.memo.get("known_atoms") if c is not None else None
    if x.is_const():
        return x.const_value()
    if not known or x.d is not None:
        return x
    tot = Fr(0)
    for m, cf in x.n.t.items():
        t = cf
        for vid, e in m:
            if vid not in known:
                return x
            t = t * known[vid] ** e
        tot += t
    return tot


def eqz(a, b=0):
    """z3 formula  a == b  for Sym/concrete operands"""
    x = Sym.of(a) - b
    if not isinstance(x, Sym):
        x = Sym.of(x)
    return x.sign_term("eq")


def lift(x):
    """Sym | concrete number -> z3 real term"""
    if isinstance(x, Sym):
        return x.t
    if isinstance(x, _np.ndarray) and x.shape == ():
        return lift(x.item())
    return _poly._rv(lift0(x))


def _symbolic(v):
    # Sym constants count as symbolic on purpose: they carry exact rationals, and handing them to real
    # LAPACK/ufuncs would silently replace exact arithmetic by rounded float arithmetic
    return isinstance(v, (Sym, SymB))


def has_sym(*xs):
    """does any argument hold a Sym/SymB?"""
    for x in xs:
        if _symbolic(x):
            return True
        if isinstance(x, _np.ndarray):
            if x.dtype == object:
                for v in x.flat:
                    if _symbolic(v):
                        return True
        elif isinstance(x, (list, tuple)):
            if has_sym(*x):
                return True
    return False


def O(a):
    """as object array"""
    if isinstance(a, _np.ndarray) and a.dtype == object:
        return a
    if isinstance(a, (list, tuple)):
        # np.asarray on nested lists holding Sym works (Sym is not a sequence)
        return _np.array(a, dtype=object)
    return _np.asarray(a, dtype=object)


def symarr(name, shape, lo=None, hi=None):
    from . import factory  # noqa

    return factory.CUR.reals(name, shape, lo, hi)


def model_value(m, var):
    """z3 model value -> python (Fraction, bool, int); algebraic -> Fraction approx"""
    v = m.eval(var, model_completion=True)
    if z3.is_true(v):
        return True
    if z3.is_false(v):
        return False
    if z3.is_int_value(v):
        return v.as_long()
    if z3.is_rational_value(v):
        return fractions.Fraction(v.numerator_as_long(), v.denominator_as_long())
    if z3.is_algebraic_value(v):
        a = v.approx(30)
        return fractions.Fraction(a.numerator_as_long(), a.denominator_as_long())
    raise ValueError("cannot read model value %r" % v)
