"""Value factories and obligation collectors.

A harness is `def h(F, ob, cfg)`.  It builds inputs through F, calls real menpo
code, and states obligations through ob.  Two instantiations:

  SymF/SymOb  -- inputs are Sym over z3 variables; obligations become z3 goals
  ConcF/ConcOb -- inputs are floats read from a counterexample model; menpo is
                 unpatched; obligations are evaluated numerically (replay)
"""
import fractions
import math

import numpy as np
import z3

from . import core
from .core import Sym, SymB, bterm

CUR = None  # current factory (either mode)


class SymF:
    sym = True

    def __init__(self, cfg=None):
        self.cfg = cfg or {}

    # ---- inputs
    def real(self, name, lo=-8, hi=8):
        c = core.ctx()
        v = z3.Real(name)
        if name not in c.inputs:
            c.inputs[name] = ("real", v)
            c.boxes[name] = (lo, hi)
            if lo is not None:
                c.assume.append(v >= lo)
            if hi is not None:
                c.assume.append(v <= hi)
        return Sym.var(v)

    def reals(self, name, shape, lo=-8, hi=8):
        if isinstance(shape, int):
            shape = (shape,)
        a = np.empty(shape, dtype=object)
        for idx in np.ndindex(*shape):
            a[idx] = self.real(name + "_" + "_".join(map(str, idx)), lo, hi)
        return a

    def bool(self, name):
        """symbolic boolean input, concretised by fork"""
        c = core.ctx()
        v = z3.Bool(name)
        c.inputs.setdefault(name, ("bool", v))
        return bool(SymB(v))

    def symbool(self, name):
        """symbolic boolean input left symbolic (SymB)"""
        c = core.ctx()
        v = z3.Bool(name)
        c.inputs.setdefault(name, ("bool", v))
        return SymB(v)

    def choice(self, name, options):
        """one of `options` (python values), chosen by fork"""
        options = list(options)
        c = core.ctx()
        v = z3.Int(name)
        if name not in c.inputs:
            c.inputs[name] = ("int", v)
            c.assume.append(v >= 0)
            c.assume.append(v < len(options))
        for i in range(len(options)):
            if bool(SymB(v == i)):
                return options[i]
        raise core.Infeasible()

    def int(self, name, lo, hi):
        """integer input in [lo, hi], concretised by fork"""
        return self.choice(name, list(range(lo, hi + 1)))

    def symint(self, name, lo, hi):
        """integer-valued symbolic real (stays symbolic)"""
        c = core.ctx()
        v = z3.Int(name)
        if name not in c.inputs:
            c.inputs[name] = ("int", v)
            c.assume.append(v >= lo)
            c.assume.append(v <= hi)
        return Sym.var(z3.ToReal(v))

    def assume(self, cond):
        core.ctx().assume.append(bterm(cond))

    # ---- oracle helpers usable in both modes
    def floor(self, x):
        return x.__floor__() if isinstance(x, Sym) else math.floor(x)

    def ceil(self, x):
        return x.__ceil__() if isinstance(x, Sym) else math.ceil(x)

    def rint(self, x):
        return x.rint() if isinstance(x, Sym) else float(np.rint(x))

    def ite(self, c, a, b):
        if isinstance(c, SymB):
            return Sym.var(z3.If(c.t, core.lift(a), core.lift(b)))
        return a if c else b

    def and_(self, *cs):
        if any(isinstance(c, SymB) for c in cs):
            return SymB(z3.And(*[bterm(c) for c in cs]))
        return all(bool(c) for c in cs)

    def or_(self, *cs):
        if any(isinstance(c, SymB) for c in cs):
            return SymB(z3.Or(*[bterm(c) for c in cs]))
        return any(bool(c) for c in cs)

    def not_(self, c):
        if isinstance(c, SymB):
            return SymB(z3.Not(c.t))
        return not c

    def implies(self, a, b):
        return self.or_(self.not_(a), b)

    def eq(self, a, b):
        """non-forking equality -> SymB|bool"""
        if isinstance(a, Sym) or isinstance(b, Sym):
            r = Sym.of(a) == b
            return r
        return a == b

    def sqrt(self, x):
        return x.sqrt() if isinstance(x, Sym) else math.sqrt(x)

    def abs(self, x):
        return abs(x)

    def min(self, a, b):
        return self.ite(a <= b, a, b) if (isinstance(a, Sym) or isinstance(b, Sym)) else min(a, b)

    def max(self, a, b):
        return self.ite(a >= b, a, b) if (isinstance(a, Sym) or isinstance(b, Sym)) else max(a, b)

    def fresh(self, tag, lo=None, hi=None):
        """engine-level fresh real (not a replayable input)"""
        v = core.ctx().fresh_real(tag)
        if lo is not None:
            core.ctx().defined.append(v >= lo)
        if hi is not None:
            core.ctx().defined.append(v <= hi)
        return Sym.var(v)


class ConcF(SymF):
    sym = False

    def __init__(self, inputs, cfg=None):
        self.inputs = inputs
        self.cfg = cfg or {}
        self.used = {}

    def _get(self, name, default):
        v = self.inputs.get(name, default)
        self.used[name] = v
        return v

    def real(self, name, lo=-8, hi=8):
        v = self._get(name, None)
        if v is None:
            v = 0.0 if (lo is None or lo <= 0) and (hi is None or hi >= 0) else (lo if lo is not None else hi)
        if isinstance(v, str):
            v = fractions.Fraction(v)
        return float(v)

    def reals(self, name, shape, lo=-8, hi=8):
        if isinstance(shape, int):
            shape = (shape,)
        a = np.empty(shape, dtype=float)
        for idx in np.ndindex(*shape):
            a[idx] = self.real(name + "_" + "_".join(map(str, idx)), lo, hi)
        return a

    def bool(self, name):
        return bool(self._get(name, False))

    symbool = bool

    def choice(self, name, options):
        options = list(options)
        return options[int(self._get(name, 0))]

    def symint(self, name, lo, hi):
        return int(self._get(name, lo))

    def assume(self, cond):
        if not bool(cond):
            raise core.ReplayPrecondition("assumption false under the model")

    def fresh(self, tag, lo=None, hi=None):
        raise core.ReplayPrecondition("engine-fresh value %s has no concrete counterpart" % tag)


# ---------------------------------------------------------------------------
class SymOb:
    """collects (name, z3 goal, kind, extra) obligations"""

    def __init__(self):
        self.items = []

    def _add(self, name, goal, kind="true", extra=None):
        self.items.append((name, goal, kind, extra))

    def true(self, name, cond):
        if isinstance(cond, np.ndarray):
            for idx in np.ndindex(*cond.shape):
                self._add("%s%s" % (name, list(idx)), bterm(cond[idx]))
            return
        self._add(name, bterm(cond))

    def fail(self, name, why=""):
        self._add(name, z3.BoolVal(False), "fail", why)

    def eq(self, name, a, b, tol=None, atol=None):
        """a == b (exact in real arithmetic; `tol` gives |a-b| <= tol*(1+|b|); `atol` gives -atol <= a-b <= atol,
        which needs no absolute-value terms and is much cheaper for the solver)"""
        a = np.asarray(a, dtype=object) if not isinstance(a, np.ndarray) else a
        b = np.asarray(b, dtype=object) if not isinstance(b, np.ndarray) else b
        if a.shape != b.shape:
            try:
                a, b = np.broadcast_arrays(a, b)
            except ValueError:
                self._add(name + ".shape", z3.BoolVal(False), "fail", "shape %s vs %s" % (a.shape, b.shape))
                return
        for idx in np.ndindex(*a.shape):
            x, y = a[idx], b[idx]
            nm = name if a.shape == () else "%s%s" % (name, list(idx))
            if isinstance(x, SymB) or isinstance(y, SymB):
                self._add(nm, bterm(x) == bterm(y))
                continue
            if not isinstance(x, Sym) and not isinstance(y, Sym):
                if isinstance(x, (bool, np.bool_)) and isinstance(y, (bool, np.bool_)):
                    self._add(nm, z3.BoolVal(bool(x) == bool(y)))
                    continue
                if atol is not None:
                    ok = abs(float(x) - float(y)) <= atol
                elif tol is None:
                    ok = _close(x, y, 1e-9)
                else:
                    ok = _close(x, y, tol)
                self._add(nm, z3.BoolVal(bool(ok)), "eqc", (repr(x), repr(y)))
                continue
            d = Sym.of(x) - y
            if not isinstance(d, Sym):
                d = Sym.of(d)
            if atol is not None:
                up = Sym.of(d - atol)
                dn = Sym.of(d + atol)
                self._add(nm, z3.And(up.sign_term("le"), dn.sign_term("ge")), "eqtol", d)
            elif tol is None:
                self._add(nm, d.sign_term("eq"), "eq", d)
            else:
                bound = Sym.of(abs(Sym.of(y)) + 1) * tol
                dd = abs(d) - bound
                dd = Sym.of(dd)
                self._add(nm, dd.sign_term("le"), "eqtol", d)

    def same(self, name, a, b):
        """values that must be identical (replay compares floats bit for bit)"""
        self.eq(name, a, b)

    def le(self, name, a, b):
        self.true(name, _le(a, b))

    def lt(self, name, a, b):
        self.true(name, _lt(a, b))


def _le(a, b):
    if isinstance(a, Sym) or isinstance(b, Sym):
        d = Sym.of(a) - b
        d = Sym.of(d)
        return SymB(d.sign_term("le"))
    return a <= b


def _lt(a, b):
    if isinstance(a, Sym) or isinstance(b, Sym):
        d = Sym.of(a) - b
        d = Sym.of(d)
        return SymB(d.sign_term("lt"))
    return a < b


def _close(x, y, tol):
    try:
        xf, yf = float(x), float(y)
    except (TypeError, ValueError):
        return x == y
    if math.isnan(xf) and math.isnan(yf):
        return True
    if math.isinf(xf) or math.isinf(yf):
        return xf == yf
    return abs(xf - yf) <= tol * (1 + abs(yf))


class ConcOb:
    """evaluates obligations numerically; TOL is the replay margin"""

    TOL = 1e-6

    def __init__(self):
        self.items = []  # (name, ok, detail)

    def true(self, name, cond):
        if isinstance(cond, np.ndarray):
            for idx in np.ndindex(*cond.shape):
                self.items.append(("%s%s" % (name, list(idx)), bool(cond[idx]), ""))
            return
        self.items.append((name, bool(cond), ""))

    def fail(self, name, why=""):
        self.items.append((name, False, why))

    def eq(self, name, a, b, tol=None, atol=None):
        a = np.asarray(a)
        b = np.asarray(b)
        if a.shape != b.shape:
            try:
                a, b = np.broadcast_arrays(a, b)
            except ValueError:
                self.items.append((name + ".shape", False, "shape %s vs %s" % (a.shape, b.shape)))
                return
        t = max(self.TOL, 10 * tol if tol else 0, 10 * atol if atol else 0)
        for idx in np.ndindex(*a.shape):
            x, y = a[idx], b[idx]
            nm = name if a.shape == () else "%s%s" % (name, list(idx))
            ok = _close(x, y, t)
            self.items.append((nm, bool(ok), "" if ok else "%r != %r" % (x, y)))

    def same(self, name, a, b):
        a = np.asarray(a)
        b = np.asarray(b)
        if a.shape != b.shape:
            self.items.append((name + ".shape", False, "shape %s vs %s" % (a.shape, b.shape)))
            return
        for idx in np.ndindex(*a.shape):
            nm = name if a.shape == () else "%s%s" % (name, list(idx))
            ok = bool(a[idx] == b[idx]) or (a[idx] != a[idx] and b[idx] != b[idx])
            self.items.append((nm, ok, "" if ok else "%r != %r (exact)" % (a[idx], b[idx])))

    def le(self, name, a, b):
        self.items.append((name, bool(a <= b + self.TOL), "%r <= %r" % (a, b)))

    def lt(self, name, a, b):
        self.items.append((name, bool(a < b + self.TOL), "%r < %r" % (a, b)))
