"""Path exploration, obligation discharge, process pool, replay, evidence."""
import fractions
import importlib
import json
import os
import sys
import time
import traceback

import z3

from . import core, factory, npproxy

REPO = os.environ.get("SYMX_REPO", "/repo")
DEFAULT_RLIMIT = core.RLIMIT
MARGIN = fractions.Fraction(1, 1000)


def _ensure_repo():
    if REPO not in sys.path:
        sys.path.insert(0, REPO)


# ---------------------------------------------------------------- patches
class Patcher:
    def __init__(self):
        self.saved = []

    def set(self, obj, attr, value):
        self.saved.append((obj, attr, getattr(obj, attr, _MISSING)))
        setattr(obj, attr, value)

    def restore(self):
        for obj, attr, old in reversed(self.saved):
            if old is _MISSING:
                try:
                    delattr(obj, attr)
                except AttributeError:
                    pass
            else:
                setattr(obj, attr, old)
        self.saved = []


_MISSING = object()


# ---------------------------------------------------------------- tracing
class FuncTrace:
    def __init__(self):
        self.names = set()

    def __enter__(self):
        root = os.path.join(REPO, "menpo")

        def prof(frame, event, arg):
            if event == "call":
                co = frame.f_code
                fn = co.co_filename
                if fn.startswith(root):
                    self.names.add("%s:%s" % (fn[len(REPO) + 1:], getattr(co, "co_qualname", co.co_name)))

        sys.setprofile(prof)
        return self

    def __exit__(self, *a):
        sys.setprofile(None)


# ---------------------------------------------------------------- model -> inputs
def model_inputs(ctx, m):
    out = {}
    for name, (kind, var) in ctx.inputs.items():
        try:
            v = core.model_value(m, var)
        except Exception:
            continue
        if isinstance(v, fractions.Fraction):
            out[name] = str(v)
        else:
            out[name] = v
    return out


MARGINS = [fractions.Fraction(1, 1000), fractions.Fraction(1, 10 ** 6), fractions.Fraction(1, 10 ** 9)]


def _margin_goals(kind, extra):
    """strengthened negations for eq goals: |lhs-rhs| > m, largest margin first (so that the
    counterexample survives the float replay)"""
    if kind in ("eq", "eqtol") and isinstance(extra, core.Sym):
        return [core.Sym.of(abs(extra) - m).sign_term("gt") for m in MARGINS]
    return []


# ---------------------------------------------------------------- one instance
def run_instance(spec):
    """explore all paths of one harness instance; returns a JSON-able dict"""
    _ensure_repo()
    t0 = time.time()
    limits = spec.get("limits", {})
    max_paths = limits.get("max_paths", 4000)
    max_s = limits.get("max_s", 900)
    cex_stop_s = limits.get("cex_stop_s", 120)
    core.RLIMIT = limits.get("rlimit", DEFAULT_RLIMIT)  # per instance; never inherited from the previous one
    for k in core.STATS:
        core.STATS[k] = 0
    core.CHOICE_CACHE.clear()
    mod = importlib.import_module(spec["module"])
    fn = getattr(mod, spec["func"])
    cfg = spec.get("cfg", {})
    import menpo  # noqa: F401  (whole package, so that every module gets the proxy)

    for extra in getattr(mod, "PATCH_MODULES", []):
        importlib.import_module(extra)
    npproxy.patch_menpo()

    res = {
        "spec": {k: spec[k] for k in ("prop", "module", "func", "cfg")},
        "paths": 0, "paths_with_obligations": 0, "infeasible": 0, "aborted": [],
        "obligations": 0, "discharged": 0, "syntactic": 0, "undecided": [], "cex": [],
        "unsupported": [], "functions": [], "samples": [], "exhaustive": True,
        "reach": 0, "notes": [], "distinct_prefixes": 0, "assumption_count": 0,
        "xcheck": {"budget": int(limits.get("xcheck", 0)), "tried": 0, "agree": 0, "unknown": 0, "disagree": []},
    }
    prefix, done, check_last = [], [], False
    funcs = set()
    first = True
    seen_cex = set()
    while True:
        ctx = core.Ctx(prefix, done, check_last)
        core.set_ctx(ctx)
        F = factory.SymF(cfg)
        F.patcher = Patcher()
        F.patch = F.patcher.set
        factory.CUR = F
        ob = factory.SymOb()
        npproxy.NP.stubs.clear()
        status, err = "ok", None
        try:
            if first:
                with FuncTrace() as ft:
                    fn(F, ob, cfg)
                funcs |= ft.names
            else:
                fn(F, ob, cfg)
        except core.Infeasible:
            status = "infeasible"
        except core.PathAbort as e:
            status, err = "abort", str(e)
        except core.Unsupported as e:
            status, err = "unsupported", str(e)
        except RecursionError as e:
            status, err = "abort", "recursion"
        except Exception as e:  # unexpected exception out of menpo/harness
            status = "exception"
            err = "%s: %s" % (type(e).__name__, e)
            tb = traceback.format_exc(limit=-6)
        finally:
            sys.setprofile(None)
            F.patcher.restore()
        if first and status != "ok":
            funcs |= ft.names
        first = False
        res["paths"] += 1
        if core.TRACE and res["paths"] % 100 == 0:
            sys.stderr.write("SYMX %s: %d paths, %d obligations, %.0fs, q=%d\n" % (spec["func"], res["paths"], res["obligations"], time.time() - t0, core.STATS["queries"]))
        if status == "infeasible":
            res["infeasible"] += 1
        elif status == "abort":
            res["aborted"].append({"prefix": _pfx(ctx), "why": err})
            res["exhaustive"] = False
        elif status in ("unsupported", "exception"):
            # a path that dies: candidate violation, decided by concrete replay
            # generic (pseudo-random dyadic) input values are tried first: a dying path is judged by the
            # concrete replay, and special values (0, integers) hide defects such as a lossy integer buffer
            r, s = core.generic_model(ctx, ctx.all())
            entry = {"name": "no_exception", "prefix": _pfx(ctx), "kind": status, "detail": err}
            if status == "exception":
                entry["traceback"] = tb
            if r == "sat":
                entry["inputs"] = model_inputs(ctx, s.model())
                res["cex"].append(entry)
                if sum(1 for c_ in res["cex"] if c_["name"] == "no_exception") < 4:
                    # a second, differently biased model of the same path for the replay
                    rb, sb = core.generic_model(ctx, ctx.all(), prefer="neg")
                    if rb == "sat":
                        alt = dict(entry, inputs=model_inputs(ctx, sb.model()))
                        if alt["inputs"] != entry["inputs"]:
                            res["cex"].append(alt)
            elif r == "unsat":
                # dies only under contradictory side conditions: try without engine side conditions
                r2, s2 = core.check(ctx.assume + ctx.pc)
                if r2 == "sat":
                    entry["inputs"] = model_inputs(ctx, s2.model())
                    res["cex"].append(entry)
                else:
                    res["infeasible"] += 1
            else:
                res["undecided"].append(entry)
            if status == "unsupported":
                res["unsupported"].append(err)
        else:
            _decide_path(ctx, ob, res, seen_cex)
        for n in ctx.notes:
            if n not in res["notes"]:
                res["notes"].append(n)
            res["exhaustive"] = False
        res["assumption_count"] = max(res["assumption_count"], len(ctx.assume))
        # ---- backtrack
        p, d = list(ctx.prefix), list(ctx.done)
        # a path that ended before consuming its whole prefix cannot happen (prefix is replayed);
        while p and d[-1]:
            p.pop()
            d.pop()
        if not p:
            break
        p[-1] = not p[-1]
        d[-1] = True
        prefix, done, check_last = p, d, True
        if res["cex"] and time.time() - t0 > cex_stop_s and _unlisted_cex(spec, res["cex"]):
            # counterexamples that no recorded finding explains are in hand and the instance is slow (typical
            # of a change that also makes the solver's life hard): hand them to the replay now
            res["exhaustive"] = False
            res["notes"].append("stopped after %d paths: counterexamples found and %ds used" % (res["paths"], cex_stop_s))
            break
        if res["paths"] >= max_paths or time.time() - t0 > max_s:
            res["exhaustive"] = False
            res["notes"].append("path/time limit hit after %d paths" % res["paths"])
            break
    res["functions"] = sorted(funcs)
    res["stats"] = dict(core.STATS)
    res["wall_s"] = round(time.time() - t0, 3)
    return res


_CVC5_SCRIPT = r"""
import sys, cvc5
txt = open(sys.argv[1]).read()
slv = cvc5.Solver()
slv.setOption("tlimit-per", sys.argv[2])
try:
    slv.setOption("nl-cov", "true")
except Exception:
    pass
slv.setLogic("ALL")
p = cvc5.InputParser(slv)
p.setStringInput(cvc5.InputLanguage.SMT_LIB_2_6, txt, "symx")
sm = p.getSymbolManager()
res = "unknown"
while True:
    cmd = p.nextCommand()
    if cmd.isNull():
        break
    out = cmd.invoke(slv, sm).strip()
    if out in ("sat", "unsat"):
        res = out
print("CVC5-VERDICT", res)
"""


def cvc5_verdict(smt2_text, ms=3000):
    """second opinion on one query by cvc5 (Python wheel) in a sub-process with a hard timeout:
    'sat' / 'unsat' / 'unknown' (timeouts and parse problems are not verdicts)"""
    import subprocess
    import tempfile

    try:
        with tempfile.NamedTemporaryFile("w", suffix=".smt2", delete=False) as f:
            f.write(smt2_text)
            path = f.name
        try:
            p = subprocess.run([sys.executable, "-c", _CVC5_SCRIPT, path, str(ms)], capture_output=True, text=True,
                               timeout=ms / 1000.0 + 6)
        finally:
            os.remove(path)
        for line in p.stdout.splitlines():
            if line.startswith("CVC5-VERDICT "):
                return line.split()[1]
        return "error"
    except subprocess.TimeoutExpired:
        return "unknown"
    except Exception as e:
        return "error: %s" % (str(e)[:80],)


def _unlisted_cex(spec, cexs):
    from symx import main as _m

    known = _m.load_known()
    return any(_m.match_known(known, spec["prop"], spec["func"], spec["cfg"], c["name"]) is None for c in cexs)


def _pfx(ctx):
    return "".join("T" if b else "F" for b in ctx.prefix)


def _decide_path(ctx, ob, res, seen_cex):
    base = ctx.all()
    if not ob.items:
        return
    # non-vacuity of the path (the reachability twin)
    if not ctx._model_ok():
        r, s = core.seeded_check(ctx, base)
        if r == "unsat":
            r2, s2 = core.check(ctx.assume + ctx.pc)
            if r2 == "sat":
                # operation undefined (division by zero, sqrt of negative) for every input of this path
                res["cex"].append({"name": "well_defined", "prefix": _pfx(ctx), "kind": "undefined",
                                   "inputs": model_inputs(ctx, s2.model()),
                                   "detail": "engine side conditions unsatisfiable on this path"})
            else:
                res["infeasible"] += 1
            return
        if r == "unknown":
            res["undecided"].append({"name": "path_feasible", "prefix": _pfx(ctx)})
            return
        ctx.set_model(s.model())
    res["reach"] += 1
    res["paths_with_obligations"] += 1
    for (name, goal, kind, extra) in ob.items:
        res["obligations"] += 1
        g = z3.simplify(goal)
        if z3.is_true(g):
            res["discharged"] += 1
            res["syntactic"] += 1
            continue
        neg = z3.Not(goal)
        if z3.is_false(g):
            r, s = "sat", None
            m = ctx.model
        else:
            # concrete head start first: a genuine defect usually fails at a generic point
            r, s = core.seeded_check(ctx, base + [neg], attempts=2)
            m = s.model() if r == "sat" else None
        if r == "unsat":
            res["discharged"] += 1
            xc = res.setdefault("xcheck", {"budget": 0, "tried": 0, "agree": 0, "unknown": 0, "disagree": []})
            if xc["budget"] > xc["tried"] and s is not None:
                # second solver on the very same query (thorough tier): a `sat` from cvc5 is a disagreement
                xc["tried"] += 1
                v = cvc5_verdict(s.to_smt2())
                if v == "unsat":
                    xc["agree"] += 1
                elif v == "sat":
                    xc["disagree"].append({"name": name, "prefix": _pfx(ctx)})
                else:
                    xc["unknown"] += 1
            if len(res["samples"]) < 3 and kind in ("eq", "true", "eqtol"):
                txt = str(g)
                res["samples"].append({"obligation": name, "path": _pfx(ctx), "verdict": "unsat",
                                       "negated_goal_smt": txt[:600]})
            continue
        if r == "unknown":
            # cheap witness search: does the path model already violate the goal?
            w = None
            try:
                if ctx.model is not None and z3.is_false(ctx.model.eval(goal, model_completion=True)):
                    w = ctx.model
            except z3.Z3Exception:
                w = None
            if w is None:
                res["undecided"].append({"name": name, "prefix": _pfx(ctx)})
                continue
            m = w
        key = (name.split("[")[0], kind)
        cnt = sum(1 for k in seen_cex if k[:2] == key)
        for mg in (_margin_goals(kind, extra) if cnt < 4 else []):
            r2, s2 = core.check(base + [mg], rlimit=max(core.RLIMIT // 20, 200_000), timeout=3000)
            if r2 == "sat":
                m = s2.model()
                break
        entry = {"name": name, "prefix": _pfx(ctx), "kind": kind, "inputs": model_inputs(ctx, m),
                 "detail": (str(extra)[:300] if extra is not None and kind in ("fail", "eqc") else "")}
        # keep at most 4 counterexamples per obligation family
        if cnt < 4:
            seen_cex.add(key + (cnt,))
            res["cex"].append(entry)
        else:
            res.setdefault("cex_suppressed", 0)
            res["cex_suppressed"] += 1


# ---------------------------------------------------------------- concrete replay
def run_concrete(spec, inputs):
    """run the harness on floats against the unpatched real code"""
    _ensure_repo()
    mod = importlib.import_module(spec["module"])
    fn = getattr(mod, spec["func"])
    cfg = spec.get("cfg", {})
    F = factory.ConcF(inputs, cfg)
    F.patcher = Patcher()
    F.patch = F.patcher.set
    factory.CUR = F
    core.set_ctx(None)
    ob = factory.ConcOb()
    out = {"failed": [], "n": 0, "error": None, "precondition": None}
    try:
        import warnings

        with warnings.catch_warnings():
            warnings.simplefilter("ignore")
            fn(F, ob, cfg)
    except core.ReplayPrecondition as e:
        out["precondition"] = str(e)
    except Exception as e:
        out["error"] = "%s: %s" % (type(e).__name__, e)
        out["traceback"] = traceback.format_exc(limit=-5)
        ob.items.append(("no_exception", False, out["error"]))
    finally:
        F.patcher.restore()
    out["n"] = len(ob.items)
    out["failed"] = [(n, d) for (n, ok, d) in ob.items if not ok]
    return out
