"""C19 -- CrossHair conditions over the real menpo.base.LazyList.

Every reachable LazyList is a list of opaque thunks (each operation only calls or re-wraps the stored
callables), so the state of a condition is a base list of n <= 4 *logging* thunks: thunk i appends i to a
shared log and returns the symbolic integer v_i.  A condition applies ONE operation with symbolic arguments
(or, for the compose* conditions, a program of two / three operations drawn from a menu) both to the real
LazyList and to a plain-list reference model whose elements are pairs

        (value expression, tuple of log entries that reading the element must produce, in order)

and then states, as a list of facts,
  * the result is a LazyList of exactly the model's length and the log is still empty (nothing evaluated);
  * for EVERY position k (positive and negative index) the value read equals the model value and the log
    holds exactly the entries the element depends on, once each, in evaluation order; out-of-range reads raise
    IndexError and evaluate nothing; iteration yields the same values and evaluates each element once;
  * the receiver (and any other LazyList operand) still has the same _callables list object holding the
    identical thunks, and reads exactly as before (every element again, by positive index).

The raising / raising_index_error conditions put an element whose evaluation raises into the list: the error must
belong to that element alone (operations stay lazy, reading it raises exactly that error, iteration yields what comes
before and then surfaces the same error -- never a silently shorter list).

Conventions that the driver (harness/c19.py) relies on:
  * every public condition NAME has a builder _NAME(...) returning a _Facts object, a twin NAME__reach with
    the same preconditions and "post: not __return__" that returns whether the interesting branch
    (non-empty result read back / expected error seen) was reached: CrossHair must REFUTE the twin;
  * all parameters are ints; a line "pre: lo <= x <= hi" bounds an enumerated operation argument x; those
    arguments are turned into ordinary Python ints by bisection (_conc) so that the C implementation of list
    indexing sees concrete indices -- the decision tree stays balanced; parameters without a bound
    (v*, c*, u*, p*) are the symbolic element values / map constants and are never branched on by menpo;
  * "pre: _shard(x)" lets the driver split one condition over several processes: with the environment
    variable C19_SHARD="i/k" only x % k == i is analysed; the condition counts as confirmed when every
    shard is confirmed.  Without the variable the precondition is True.
  * environment variable C19_MUTANT=<name> installs a seeded bug into LazyList (developer self test).
"""
import atexit
import json
import os
import sys
from functools import partial

REPO = os.environ.get("SYMX_REPO", "/repo")
if REPO not in sys.path:
    sys.path.insert(0, REPO)

import numpy as np  # noqa: E402
from menpo.base import LazyList  # noqa: E402

# --------------------------------------------------------------------------- bookkeeping
_COUNT = {}


def _tick(name):
    _COUNT[name] = _COUNT.get(name, 0) + 1


def _report_counts():
    if os.environ.get("C19_COUNTS"):
        sys.stderr.write("C19-COUNTS " + json.dumps(_COUNT) + "\n")


atexit.register(_report_counts)

_SHARD = os.environ.get("C19_SHARD", "")


def _shard(x):
    if not _SHARD:
        return True
    i, k = _SHARD.split("/")
    return x % int(k) == int(i)


def _conc(x, lo, hi):
    """ordinary Python int equal to x, given lo <= x <= hi (bisection; identity on ordinary ints)"""
    while lo < hi:
        mid = (lo + hi) // 2
        if x <= mid:
            hi = mid
        else:
            lo = mid + 1
    return lo


# --------------------------------------------------------------------------- world, model, facts
class _W(object):
    """the log and everything that writes to it"""

    def __init__(self):
        self.log = []

    def thunk(self, ident, value):
        self.log.append(ident)
        return value

    def lazy(self, vals, first_id=0):
        """LazyList of logging thunks + its model"""
        cs = [partial(self.thunk, first_id + i, v) for i, v in enumerate(vals)]
        return LazyList(cs), [(v, (first_id + i,)) for i, v in enumerate(vals)]

    def fn(self, tag, c):
        """logging map function x -> 2x + c (affine with a symbolic constant: composition order matters)"""

        def f(x):
            self.log.append(tag)
            return 2 * x + c

        return f


def _mapped(model, tags, cs):
    return [(2 * v + cs[i], deps + (tags[i],)) for i, (v, deps) in enumerate(model)]


class _Facts(object):
    def __init__(self):
        self.items = []  # (name, got, want)
        self.deep = False

    def true(self, name, cond):
        self.items.append((name, True if cond else False, True))

    def eq(self, name, got, want):
        self.items.append((name, got, want))


def _holds(fx):
    for _name, got, want in fx.items:
        if got is want:
            continue
        if not (got == want):
            return False
    return True


def failing(fx):
    """names of the facts that do not hold (plain Python values only)"""
    return [str(name) for name, got, want in fx.items if not (got is want or got == want)]


def _snap(ll):
    return (ll, ll._callables, list(ll._callables))


def _unchanged(w, fx, name, snap, model):
    """receiver: same list object, identical thunks, same behaviour"""
    ll, lst, elems = snap
    cur = ll._callables
    fx.true((name, "same_list"), cur is lst)
    fx.true((name, "same_len"), len(cur) == len(elems))
    same = len(cur) == len(elems)
    if same:
        for a, b in zip(cur, elems):
            same = same and a is b
    fx.true((name, "same_thunks"), same)
    _check(w, fx, name, ll, model, light=True)


def _check(w, fx, name, ll, model, light=False):
    """ll is a LazyList that reads exactly like the plain list `model`; empties the log"""
    fx.true((name, "is_lazylist"), isinstance(ll, LazyList))
    if not isinstance(ll, LazyList):
        return
    n = len(model)
    fx.true((name, "len"), len(ll) == n)
    fx.true((name, "nothing_evaluated"), w.log == [])
    del w.log[:]
    if len(ll) != n:
        return
    for k in range(n):
        val, deps = model[k]
        got = ll[k]
        fx.eq((name, k, "value"), got, val)
        fx.true((name, k, "evaluated"), w.log == list(deps))
        del w.log[:]
        if light:
            continue
        got = ll[k - n]
        fx.eq((name, k - n, "value"), got, val)
        fx.true((name, k - n, "evaluated"), w.log == list(deps))
        del w.log[:]
    if light:
        return
    for bad in (n, -n - 1):
        try:
            ll[bad]
            fx.true((name, bad, "IndexError"), False)
        except IndexError:
            fx.true((name, bad, "IndexError"), w.log == [])
        del w.log[:]
    # iteration: same values, every element evaluated once, in order
    seen = []
    for x in ll:
        seen.append(x)
    fx.true((name, "iter_len"), len(seen) == n)
    want_log = []
    for k in range(min(n, len(seen))):
        fx.eq((name, k, "iter_value"), seen[k], model[k][0])
        want_log.extend(model[k][1])
    fx.true((name, "iter_evaluated"), w.log == want_log)
    del w.log[:]


def _vals(n, *vs):
    return list(vs[:n])


# =========================================================================== len / iteration / constructors
def _base(v0, v1, v2, v3, n, kind):
    n = _conc(n, 0, 4)
    kind = _conc(kind, 0, 2)
    fx = _Facts()
    w = _W()
    vals = _vals(n, v0, v1, v2, v3)
    if kind == 0:
        ll, model = w.lazy(vals)
    elif kind == 1:  # the constructor used by the video importer
        ll = LazyList.init_from_index_callable(lambda i: w.thunk(i, vals[i]), n)
        model = [(v, (i,)) for i, v in enumerate(vals)]
    else:  # the list wrapper (also used by + for plain lists)
        ll = LazyList.init_from_iterable(range(n), f=lambda i: w.thunk(i, vals[i]))
        model = [(v, (i,)) for i, v in enumerate(vals)]
    snap = _snap(ll)
    _check(w, fx, "base", ll, model)
    _unchanged(w, fx, "again", snap, model)
    _check(w, fx, "base_again", ll, model)
    fx.deep = n > 0
    return fx


def base(v0: int, v1: int, v2: int, v3: int, n: int, kind: int) -> bool:
    """
    pre: 0 <= n <= 4
    pre: 0 <= kind <= 2
    post: __return__
    """
    _tick("base")
    return _holds(_base(v0, v1, v2, v3, n, kind))


def base__reach(v0: int, v1: int, v2: int, v3: int, n: int, kind: int) -> bool:
    """
    pre: 0 <= n <= 4
    pre: 0 <= kind <= 2
    post: not __return__
    """
    _tick("base__reach")
    return _base(v0, v1, v2, v3, n, kind).deep


# =========================================================================== integer index
class _Idx(object):
    """an object that is an index only through __index__ (PEP 357)"""

    def __init__(self, k):
        self.k = k

    def __index__(self):
        return self.k


def _index_int(v0, v1, v2, v3, n, k, kind):
    n = _conc(n, 0, 4)
    k = _conc(k, -6, 6)
    kind = _conc(kind, 0, 2)
    fx = _Facts()
    w = _W()
    ll, model = w.lazy(_vals(n, v0, v1, v2, v3))
    snap = _snap(ll)
    key = k if kind == 0 else (np.int64(k) if kind == 1 else _Idx(k))
    if -n <= k < n:
        got = ll[key]
        fx.eq("value", got, model[k][0])
        fx.true("evaluated", w.log == list(model[k][1]))
        fx.deep = True
    else:
        try:
            ll[key]
            fx.true("IndexError", False)
        except IndexError:
            fx.true("IndexError", w.log == [])
    del w.log[:]
    _unchanged(w, fx, "receiver", snap, model)
    return fx


def index_int(v0: int, v1: int, v2: int, v3: int, n: int, k: int, kind: int) -> bool:
    """
    pre: 0 <= n <= 4
    pre: -6 <= k <= 6
    pre: 0 <= kind <= 2
    post: __return__
    """
    _tick("index_int")
    return _holds(_index_int(v0, v1, v2, v3, n, k, kind))


def index_int__reach(v0: int, v1: int, v2: int, v3: int, n: int, k: int, kind: int) -> bool:
    """
    pre: 0 <= n <= 4
    pre: -6 <= k <= 6
    pre: 0 <= kind <= 2
    post: not __return__
    """
    _tick("index_int__reach")
    return _index_int(v0, v1, v2, v3, n, k, kind).deep


# =========================================================================== slices
def _slice_case(name, vals, start, stop, step):
    fx = _Facts()
    w = _W()
    ll, model = w.lazy(vals)
    snap = _snap(ll)
    s = slice(start, stop, step)
    try:
        want = model[s]
    except ValueError:  # step == 0, as for a list
        want = None
    try:
        out = ll[s]
    except ValueError:
        out = None
    if want is None:
        fx.true("ValueError_like_list", out is None)
        fx.true("nothing_evaluated", w.log == [])
    else:
        fx.true("no_error", out is not None)
        if out is not None:
            _check(w, fx, "result", out, want)
            fx.deep = len(want) > 0
    del w.log[:]
    _unchanged(w, fx, "receiver", snap, model)
    return fx


def _near(n, x):
    """x ranges over one step beyond what a list of length n distinguishes: [-n-1, n+1]"""
    return -n - 1 <= x <= n + 1


def _slice_sss(v0, v1, v2, v3, n, start, stop, step):
    n = _conc(n, 0, 3)
    return _slice_case("slice_sss", _vals(n, v0, v1, v2, v3), _conc(start, -5, 5), _conc(stop, -5, 5),
                       _conc(step, -4, 4))


def slice_sss(v0: int, v1: int, v2: int, v3: int, n: int, start: int, stop: int, step: int) -> bool:
    """
    pre: 0 <= n <= 3
    pre: -5 <= start <= 5
    pre: -5 <= stop <= 5
    pre: -4 <= step <= 4
    pre: _near(n, start)
    pre: _near(n, stop)
    pre: _near(n, step)
    pre: _shard(start)
    post: __return__
    """
    _tick("slice_sss")
    return _holds(_slice_sss(v0, v1, v2, v3, n, start, stop, step))


def slice_sss__reach(v0: int, v1: int, v2: int, v3: int, n: int, start: int, stop: int, step: int) -> bool:
    """
    pre: 0 <= n <= 3
    pre: -5 <= start <= 5
    pre: -5 <= stop <= 5
    pre: -4 <= step <= 4
    pre: _near(n, start)
    pre: _near(n, stop)
    pre: _near(n, step)
    post: not __return__
    """
    _tick("slice_sss__reach")
    return _slice_sss(v0, v1, v2, v3, n, start, stop, step).deep


def slice_sss_wide(v0: int, v1: int, v2: int, v3: int, n: int, start: int, stop: int, step: int) -> bool:
    """
    pre: 0 <= n <= 3
    pre: -5 <= start <= 5
    pre: -5 <= stop <= 5
    pre: -4 <= step <= 4
    pre: _shard(start)
    post: __return__
    """
    _tick("slice_sss_wide")
    return _holds(_slice_sss(v0, v1, v2, v3, n, start, stop, step))


def slice_sss_wide__reach(v0: int, v1: int, v2: int, v3: int, n: int, start: int, stop: int, step: int) -> bool:
    """
    pre: 0 <= n <= 3
    pre: -5 <= start <= 5
    pre: -5 <= stop <= 5
    pre: -4 <= step <= 4
    post: not __return__
    """
    _tick("slice_sss_wide__reach")
    return _slice_sss(v0, v1, v2, v3, n, start, stop, step).deep


def _slice_sss4(v0, v1, v2, v3, start, stop, step):
    return _slice_case("slice_sss4", [v0, v1, v2, v3], _conc(start, -6, 6), _conc(stop, -6, 6),
                       _conc(step, -5, 5))


def slice_sss4(v0: int, v1: int, v2: int, v3: int, start: int, stop: int, step: int) -> bool:
    """
    pre: -6 <= start <= 6
    pre: -6 <= stop <= 6
    pre: -5 <= step <= 5
    pre: _shard(start)
    post: __return__
    """
    _tick("slice_sss4")
    return _holds(_slice_sss4(v0, v1, v2, v3, start, stop, step))


def slice_sss4__reach(v0: int, v1: int, v2: int, v3: int, start: int, stop: int, step: int) -> bool:
    """
    pre: -6 <= start <= 6
    pre: -6 <= stop <= 6
    pre: -5 <= step <= 5
    post: not __return__
    """
    _tick("slice_sss4__reach")
    return _slice_sss4(v0, v1, v2, v3, start, stop, step).deep


_PATTERNS = {  # which of (start, stop, step) are None
    1: (True, True, True), 2: (False, True, True), 3: (True, False, True),
    4: (True, True, False), 5: (False, False, True), 6: (False, True, False), 7: (True, False, False),
}


def _slice_none(v0, v1, v2, v3, n, pat, a, b):
    """the seven slice shapes with at least one None: a is the first given field, b the second"""
    n = _conc(n, 0, 4)
    pat = _conc(pat, 1, 7)
    given = [_conc(a, -6, 6), _conc(b, -6, 6)]
    fields = []
    for is_none in _PATTERNS[pat]:
        fields.append(None if is_none else given.pop(0))
    return _slice_case("slice_none", _vals(n, v0, v1, v2, v3), fields[0], fields[1], fields[2])


def _given(pat):
    """number of integer fields of slice pattern pat"""
    return 3 - sum(_PATTERNS[pat]) if 1 <= pat <= 7 else 0


def _used(pat, which, x):
    """canonical form: a field that the pattern does not use is 0"""
    return _given(pat) >= which or x == 0


def _used_near(n, pat, which, x):
    return _near(n, x) if _given(pat) >= which else x == 0


def slice_none(v0: int, v1: int, v2: int, v3: int, n: int, pat: int, a: int, b: int) -> bool:
    """
    pre: 0 <= n <= 4
    pre: 1 <= pat <= 7
    pre: -6 <= a <= 6
    pre: -6 <= b <= 6
    pre: _used_near(n, pat, 1, a)
    pre: _used_near(n, pat, 2, b)
    pre: _shard(a)
    post: __return__
    """
    _tick("slice_none")
    return _holds(_slice_none(v0, v1, v2, v3, n, pat, a, b))


def slice_none__reach(v0: int, v1: int, v2: int, v3: int, n: int, pat: int, a: int, b: int) -> bool:
    """
    pre: 0 <= n <= 4
    pre: 1 <= pat <= 7
    pre: -6 <= a <= 6
    pre: -6 <= b <= 6
    pre: _used_near(n, pat, 1, a)
    pre: _used_near(n, pat, 2, b)
    post: not __return__
    """
    _tick("slice_none__reach")
    return _slice_none(v0, v1, v2, v3, n, pat, a, b).deep


def slice_none_wide(v0: int, v1: int, v2: int, v3: int, n: int, pat: int, a: int, b: int) -> bool:
    """
    pre: 0 <= n <= 4
    pre: 1 <= pat <= 7
    pre: -6 <= a <= 6
    pre: -6 <= b <= 6
    pre: _used(pat, 1, a)
    pre: _used(pat, 2, b)
    pre: _shard(a)
    post: __return__
    """
    _tick("slice_none_wide")
    return _holds(_slice_none(v0, v1, v2, v3, n, pat, a, b))


def slice_none_wide__reach(v0: int, v1: int, v2: int, v3: int, n: int, pat: int, a: int, b: int) -> bool:
    """
    pre: 0 <= n <= 4
    pre: 1 <= pat <= 7
    pre: -6 <= a <= 6
    pre: -6 <= b <= 6
    pre: _used(pat, 1, a)
    pre: _used(pat, 2, b)
    post: not __return__
    """
    _tick("slice_none_wide__reach")
    return _slice_none(v0, v1, v2, v3, n, pat, a, b).deep


# =========================================================================== index lists / arrays / iterables
def _container(kind, idx):
    if kind == 0:
        return list(idx)
    if kind == 1:
        return tuple(idx)
    if kind == 2:
        return np.array(idx, dtype=np.int64)
    if kind == 3:
        return (i for i in idx)
    if kind == 4:
        return iter(list(idx))
    return LazyList.init_from_iterable(list(idx))  # an index list that is itself lazy


def _fancy_case(name, vals, idx, kind):
    fx = _Facts()
    w = _W()
    n = len(vals)
    ll, model = w.lazy(vals)
    snap = _snap(ll)
    ok = True
    for i in idx:
        ok = ok and -n <= i < n
    key = _container(kind, idx)
    if ok:
        out = ll[key]
        _check(w, fx, "result", out, [model[i] for i in idx])
        fx.deep = len(idx) > 0
    else:
        try:
            ll[key]
            fx.true("IndexError_like_list", False)
        except IndexError:
            fx.true("IndexError_like_list", w.log == [])
    del w.log[:]
    if kind in (0, 1, 2):
        fx.true("index_container_unchanged", len(key) == len(idx) and all(int(a) == b for a, b in zip(key, idx)))
    _unchanged(w, fx, "receiver", snap, model)
    return fx


def _fancy(v0, v1, v2, v3, n, m, i0, i1, kind):
    n = _conc(n, 0, 4)
    m = _conc(m, 0, 2)
    idx = [_conc(i0, -5, 4), _conc(i1, -5, 4)][:m]
    return _fancy_case("fancy", _vals(n, v0, v1, v2, v3), idx, _conc(kind, 0, 5))


def _entry(n, m, which, i):
    """index entries range over [-n-1, n] (one step outside the valid range on each side); unused ones are 0"""
    return -n - 1 <= i <= n if m >= which else i == 0


def fancy(v0: int, v1: int, v2: int, v3: int, n: int, m: int, i0: int, i1: int, kind: int) -> bool:
    """
    pre: 0 <= n <= 3
    pre: 0 <= m <= 2
    pre: -5 <= i0 <= 4
    pre: -5 <= i1 <= 4
    pre: 0 <= kind <= 5
    pre: _entry(n, m, 1, i0)
    pre: _entry(n, m, 2, i1)
    pre: _shard(kind)
    post: __return__
    """
    _tick("fancy")
    return _holds(_fancy(v0, v1, v2, v3, n, m, i0, i1, kind))


def fancy__reach(v0: int, v1: int, v2: int, v3: int, n: int, m: int, i0: int, i1: int, kind: int) -> bool:
    """
    pre: 0 <= n <= 3
    pre: 0 <= m <= 2
    pre: -5 <= i0 <= 4
    pre: -5 <= i1 <= 4
    pre: 0 <= kind <= 5
    pre: _entry(n, m, 1, i0)
    pre: _entry(n, m, 2, i1)
    post: not __return__
    """
    _tick("fancy__reach")
    return _fancy(v0, v1, v2, v3, n, m, i0, i1, kind).deep


def fancy_wide(v0: int, v1: int, v2: int, v3: int, n: int, m: int, i0: int, i1: int, kind: int) -> bool:
    """
    pre: 0 <= n <= 4
    pre: 0 <= m <= 2
    pre: -5 <= i0 <= 4
    pre: -5 <= i1 <= 4
    pre: 0 <= kind <= 5
    pre: _entry(n, m, 1, i0)
    pre: _entry(n, m, 2, i1)
    pre: _shard(kind + 6 * i0)
    post: __return__
    """
    _tick("fancy_wide")
    return _holds(_fancy(v0, v1, v2, v3, n, m, i0, i1, kind))


def fancy_wide__reach(v0: int, v1: int, v2: int, v3: int, n: int, m: int, i0: int, i1: int, kind: int) -> bool:
    """
    pre: 0 <= n <= 4
    pre: 0 <= m <= 2
    pre: -5 <= i0 <= 4
    pre: -5 <= i1 <= 4
    pre: 0 <= kind <= 5
    pre: _entry(n, m, 1, i0)
    pre: _entry(n, m, 2, i1)
    post: not __return__
    """
    _tick("fancy_wide__reach")
    return _fancy(v0, v1, v2, v3, n, m, i0, i1, kind).deep


def _fancy3(v0, v1, v2, n, i0, i1, i2, kind):
    n = _conc(n, 1, 3)
    idx = [_conc(i0, -4, 3), _conc(i1, -4, 3), _conc(i2, -4, 3)]
    return _fancy_case("fancy3", _vals(n, v0, v1, v2), idx, _conc(kind, 0, 2) * 2)  # list, ndarray, iterator


def fancy3(v0: int, v1: int, v2: int, n: int, i0: int, i1: int, i2: int, kind: int) -> bool:
    """
    pre: 1 <= n <= 3
    pre: -4 <= i0 <= 3
    pre: -4 <= i1 <= 3
    pre: -4 <= i2 <= 3
    pre: 0 <= kind <= 2
    pre: _entry(n, 3, 1, i0)
    pre: _entry(n, 3, 2, i1)
    pre: _entry(n, 3, 3, i2)
    pre: _shard(i0)
    post: __return__
    """
    _tick("fancy3")
    return _holds(_fancy3(v0, v1, v2, n, i0, i1, i2, kind))


def fancy3__reach(v0: int, v1: int, v2: int, n: int, i0: int, i1: int, i2: int, kind: int) -> bool:
    """
    pre: 1 <= n <= 3
    pre: -4 <= i0 <= 3
    pre: -4 <= i1 <= 3
    pre: -4 <= i2 <= 3
    pre: 0 <= kind <= 2
    pre: _entry(n, 3, 1, i0)
    pre: _entry(n, 3, 2, i1)
    pre: _entry(n, 3, 3, i2)
    post: not __return__
    """
    _tick("fancy3__reach")
    return _fancy3(v0, v1, v2, n, i0, i1, i2, kind).deep


# =========================================================================== repeat
def _repeat(v0, v1, v2, v3, n, r, kind):
    n = _conc(n, 0, 4)
    r = _conc(r, -2, 5)
    kind = _conc(kind, 0, 1)
    fx = _Facts()
    w = _W()
    ll, model = w.lazy(_vals(n, v0, v1, v2, v3))
    snap = _snap(ll)
    out = ll.repeat(r if kind == 0 else np.int64(r))
    want = [e for e in model for _ in range(r)]
    _check(w, fx, "result", out, want)
    fx.true("new_object", out is not ll and out._callables is not ll._callables)
    fx.deep = len(want) > n
    _unchanged(w, fx, "receiver", snap, model)
    return fx


def repeat(v0: int, v1: int, v2: int, v3: int, n: int, r: int, kind: int) -> bool:
    """
    pre: 0 <= n <= 4
    pre: -2 <= r <= 5
    pre: 0 <= kind <= 1
    post: __return__
    """
    _tick("repeat")
    return _holds(_repeat(v0, v1, v2, v3, n, r, kind))


def repeat__reach(v0: int, v1: int, v2: int, v3: int, n: int, r: int, kind: int) -> bool:
    """
    pre: 0 <= n <= 4
    pre: -2 <= r <= 5
    pre: 0 <= kind <= 1
    post: not __return__
    """
    _tick("repeat__reach")
    return _repeat(v0, v1, v2, v3, n, r, kind).deep


# =========================================================================== +
def _add_lazy(v0, v1, v2, v3, u0, u1, u2, n, m, kind):
    """ll + other LazyList (kind 0), ll + ll (1), other + ll (2)"""
    n = _conc(n, 0, 4)
    m = _conc(m, 0, 3)
    kind = _conc(kind, 0, 2)
    fx = _Facts()
    w = _W()
    ll, model = w.lazy(_vals(n, v0, v1, v2, v3))
    other, omodel = w.lazy(_vals(m, u0, u1, u2), first_id=10)
    snap, osnap = _snap(ll), _snap(other)
    if kind == 0:
        out, want = ll + other, model + omodel
    elif kind == 1:
        out, want = ll + ll, model + model
    else:
        out, want = other + ll, omodel + model
    _check(w, fx, "result", out, want)
    fx.true("new_list", isinstance(out, LazyList) and out._callables is not ll._callables
            and out._callables is not other._callables)
    fx.deep = n > 0 and (m > 0 or kind == 1)
    _unchanged(w, fx, "receiver", snap, model)
    _unchanged(w, fx, "other", osnap, omodel)
    return fx


def add_lazy(v0: int, v1: int, v2: int, v3: int, u0: int, u1: int, u2: int, n: int, m: int, kind: int) -> bool:
    """
    pre: 0 <= n <= 4
    pre: 0 <= m <= 3
    pre: 0 <= kind <= 2
    post: __return__
    """
    _tick("add_lazy")
    return _holds(_add_lazy(v0, v1, v2, v3, u0, u1, u2, n, m, kind))


def add_lazy__reach(v0: int, v1: int, v2: int, v3: int, u0: int, u1: int, u2: int, n: int, m: int,
                    kind: int) -> bool:
    """
    pre: 0 <= n <= 4
    pre: 0 <= m <= 3
    pre: 0 <= kind <= 2
    post: not __return__
    """
    _tick("add_lazy__reach")
    return _add_lazy(v0, v1, v2, v3, u0, u1, u2, n, m, kind).deep


def _add_plain(v0, v1, v2, v3, p0, p1, p2, n, m, kind):
    """ll + list (0) / tuple (1) / generator (2) / iterator (3) of plain values"""
    n = _conc(n, 0, 4)
    m = _conc(m, 0, 3)
    kind = _conc(kind, 0, 3)
    fx = _Facts()
    w = _W()
    ll, model = w.lazy(_vals(n, v0, v1, v2, v3))
    snap = _snap(ll)
    ps = _vals(m, p0, p1, p2)
    plain = list(ps)
    other = plain if kind == 0 else (tuple(ps) if kind == 1 else ((x for x in ps) if kind == 2 else iter(ps)))
    out = ll + other
    _check(w, fx, "result", out, model + [(p, ()) for p in ps])
    if kind == 0:
        same = len(plain) == len(ps)
        for a, b in zip(plain, ps):
            same = same and a is b
        fx.true("plain_list_unchanged", same)
    fx.deep = m > 0
    _unchanged(w, fx, "receiver", snap, model)
    return fx


def add_plain(v0: int, v1: int, v2: int, v3: int, p0: int, p1: int, p2: int, n: int, m: int, kind: int) -> bool:
    """
    pre: 0 <= n <= 4
    pre: 0 <= m <= 3
    pre: 0 <= kind <= 3
    post: __return__
    """
    _tick("add_plain")
    return _holds(_add_plain(v0, v1, v2, v3, p0, p1, p2, n, m, kind))


def add_plain__reach(v0: int, v1: int, v2: int, v3: int, p0: int, p1: int, p2: int, n: int, m: int,
                     kind: int) -> bool:
    """
    pre: 0 <= n <= 4
    pre: 0 <= m <= 3
    pre: 0 <= kind <= 3
    post: not __return__
    """
    _tick("add_plain__reach")
    return _add_plain(v0, v1, v2, v3, p0, p1, p2, n, m, kind).deep


def _add_bad(v0, v1, v2, v3, n, kind):
    """+ with something that is neither a LazyList nor iterable: ValueError, nothing evaluated or changed"""
    n = _conc(n, 0, 4)
    kind = _conc(kind, 0, 3)
    fx = _Facts()
    w = _W()
    ll, model = w.lazy(_vals(n, v0, v1, v2, v3))
    snap = _snap(ll)
    other = [None, 3, 2.5, object()][kind]
    try:
        ll + other
        fx.true("ValueError", False)
    except ValueError:
        fx.true("ValueError", w.log == [])
        fx.deep = True
    del w.log[:]
    _unchanged(w, fx, "receiver", snap, model)
    return fx


def add_bad(v0: int, v1: int, v2: int, v3: int, n: int, kind: int) -> bool:
    """
    pre: 0 <= n <= 4
    pre: 0 <= kind <= 3
    post: __return__
    """
    _tick("add_bad")
    return _holds(_add_bad(v0, v1, v2, v3, n, kind))


def add_bad__reach(v0: int, v1: int, v2: int, v3: int, n: int, kind: int) -> bool:
    """
    pre: 0 <= n <= 4
    pre: 0 <= kind <= 3
    post: not __return__
    """
    _tick("add_bad__reach")
    return _add_bad(v0, v1, v2, v3, n, kind).deep


# =========================================================================== copy
def _copy(v0, v1, v2, v3, n):
    n = _conc(n, 0, 4)
    fx = _Facts()
    w = _W()
    ll, model = w.lazy(_vals(n, v0, v1, v2, v3))
    snap = _snap(ll)
    cp = ll.copy()
    _check(w, fx, "copy", cp, model)
    fx.true("new_object", cp is not ll and cp._callables is not ll._callables)
    same = len(cp._callables) == n
    for a, b in zip(cp._callables, snap[2]):
        same = same and a is b
    fx.true("thunks_shared_not_copied", same)
    # the copy's own list may change without the original noticing
    cp._callables.append(partial(w.thunk, 99, 0))
    if n > 0:
        del cp._callables[0]
        fx.deep = True
    _unchanged(w, fx, "receiver", snap, model)
    return fx


def copy(v0: int, v1: int, v2: int, v3: int, n: int) -> bool:
    """
    pre: 0 <= n <= 4
    post: __return__
    """
    _tick("copy")
    return _holds(_copy(v0, v1, v2, v3, n))


def copy__reach(v0: int, v1: int, v2: int, v3: int, n: int) -> bool:
    """
    pre: 0 <= n <= 4
    post: not __return__
    """
    _tick("copy__reach")
    return _copy(v0, v1, v2, v3, n).deep


# =========================================================================== map
class _CallableIterable(object):
    def __call__(self, x):
        return x

    def __iter__(self):
        return iter(())


def _mapping(v0, v1, v2, v3, c0, c1, c2, c3, n, m, kind):
    """kind 0: one callable; 1: list of m callables; 2: tuple of m callables; 3: callable iterable (ambiguous)"""
    n = _conc(n, 0, 4)
    m = _conc(m, 0, 5)
    kind = _conc(kind, 0, 3)
    fx = _Facts()
    w = _W()
    ll, model = w.lazy(_vals(n, v0, v1, v2, v3))
    snap = _snap(ll)
    cs = [c0, c1, c2, c3, c0]
    if kind == 0:
        out = ll.map(w.fn("f", c0))
        _check(w, fx, "result", out, _mapped(model, ["f"] * n, [c0] * n))
        fx.true("new_object", out is not ll and out._callables is not ll._callables)
        fx.deep = n > 0
    elif kind == 3:
        try:
            ll.map(_CallableIterable())
            fx.true("ValueError_ambiguous", False)
        except ValueError:
            fx.true("ValueError_ambiguous", w.log == [])
            fx.deep = True
    else:
        tags = ["f%d" % i for i in range(m)]
        fs = [w.fn(tags[i], cs[i]) for i in range(m)]
        arg = fs if kind == 1 else tuple(fs)
        if m == n:
            out = ll.map(arg)
            _check(w, fx, "result", out, _mapped(model, tags, cs))
            fx.true("new_object", out is not ll and out._callables is not ll._callables)
            fx.true("functions_unchanged", len(arg) == m and all(a is b for a, b in zip(arg, fs)))
            fx.deep = n > 1
        else:
            try:
                ll.map(arg)
                fx.true("ValueError_wrong_length", False)
            except ValueError:
                fx.true("ValueError_wrong_length", w.log == [])
                fx.deep = True
    del w.log[:]
    _unchanged(w, fx, "receiver", snap, model)
    return fx


def _map_pre(m, kind):
    return kind in (1, 2) or m == 0


def mapping(v0: int, v1: int, v2: int, v3: int, c0: int, c1: int, c2: int, c3: int, n: int, m: int,
            kind: int) -> bool:
    """
    pre: 0 <= n <= 4
    pre: 0 <= m <= 5
    pre: 0 <= kind <= 3
    pre: _map_pre(m, kind)
    post: __return__
    """
    _tick("mapping")
    return _holds(_mapping(v0, v1, v2, v3, c0, c1, c2, c3, n, m, kind))


def mapping__reach(v0: int, v1: int, v2: int, v3: int, c0: int, c1: int, c2: int, c3: int, n: int, m: int,
                   kind: int) -> bool:
    """
    pre: 0 <= n <= 4
    pre: 0 <= m <= 5
    pre: 0 <= kind <= 3
    pre: _map_pre(m, kind)
    post: not __return__
    """
    _tick("mapping__reach")
    return _mapping(v0, v1, v2, v3, c0, c1, c2, c3, n, m, kind).deep


# =========================================================================== elements whose evaluation raises
_EXC = [IndexError, ValueError, KeyError]


def _raising(v0, v1, v2, v3, n, j, exc, op):
    """thunk j raises: the error belongs to that element alone -- operations stay lazy, reading element j (and
    iterating up to it) raises exactly that error like the plain list of evaluated thunks would, nothing is
    silently dropped.  op 0: the base list, 1: mapped, 2: repeat(2), 3: ll + ll"""
    n = _conc(n, 1, 4)
    j = _conc(j, 0, 3)
    E = _EXC[_conc(exc, 0, 2)]
    op = _conc(op, 0, 3)
    fx = _Facts()
    w = _W()
    vals = _vals(n, v0, v1, v2, v3)

    def bad():
        w.log.append(j)
        raise E("element %d cannot be evaluated" % j)

    ll, model = w.lazy(vals)
    ll._callables[j] = bad
    if op == 1:
        out, want = ll.map(w.fn("f", 1)), _mapped(model, ["f"] * n, [1] * n)
        pos = [j]
    elif op == 2:
        out, want = ll.repeat(2), [e for e in model for _ in range(2)]
        pos = [2 * j, 2 * j + 1]
    elif op == 3:
        out, want = ll + ll, model + model
        pos = [j, n + j]
    else:
        out, want = ll, model
        pos = [j]
    fx.true("is_lazylist", isinstance(out, LazyList))
    fx.true("len", len(out) == len(want))
    fx.true("nothing_evaluated", w.log == [])
    del w.log[:]
    for k in range(len(want)):
        if k in pos:
            try:
                out[k]
                fx.true((k, "raises"), False)
            except E:
                fx.true((k, "raises"), w.log == [j])
        else:
            fx.eq((k, "value"), out[k], want[k][0])
            fx.true((k, "evaluated"), w.log == list(want[k][1]))
        del w.log[:]
    # iteration: everything before the failing element is produced, then the element's own error surfaces
    seen, raised = [], None
    try:
        for x in out:
            seen.append(x)
    except E:
        raised = E
    fx.true("iteration_yields_the_elements_before", len(seen) == pos[0])
    for k in range(min(len(seen), pos[0])):
        fx.eq(("iter_value", k), seen[k], want[k][0])
    fx.true("iteration_propagates_the_error", raised is E)
    fx.deep = True
    return fx


def raising(v0: int, v1: int, v2: int, v3: int, n: int, j: int, exc: int, op: int) -> bool:
    """
    pre: 1 <= n <= 4
    pre: 0 <= j <= 3
    pre: 1 <= exc <= 2
    pre: 0 <= op <= 3
    pre: j < n
    post: __return__
    """
    _tick("raising")
    return _holds(_raising(v0, v1, v2, v3, n, j, exc, op))


def raising__reach(v0: int, v1: int, v2: int, v3: int, n: int, j: int, exc: int, op: int) -> bool:
    """
    pre: 1 <= n <= 4
    pre: 0 <= j <= 3
    pre: 1 <= exc <= 2
    pre: 0 <= op <= 3
    pre: j < n
    post: not __return__
    """
    _tick("raising__reach")
    return _raising(v0, v1, v2, v3, n, j, exc, op).deep


def raising_index_error(v0: int, v1: int, v2: int, v3: int, n: int, j: int, exc: int, op: int) -> bool:
    """
    pre: 1 <= n <= 4
    pre: 0 <= j <= 3
    pre: 0 <= exc <= 0
    pre: 0 <= op <= 3
    pre: j < n
    post: __return__
    """
    _tick("raising_index_error")
    return _holds(_raising(v0, v1, v2, v3, n, j, exc, op))


def raising_index_error__reach(v0: int, v1: int, v2: int, v3: int, n: int, j: int, exc: int, op: int) -> bool:
    """
    pre: 1 <= n <= 4
    pre: 0 <= j <= 3
    pre: 0 <= exc <= 0
    pre: 0 <= op <= 3
    pre: j < n
    post: not __return__
    """
    _tick("raising_index_error__reach")
    return _raising(v0, v1, v2, v3, n, j, exc, op).deep


# =========================================================================== programs of several operations
N_OPS = 14


def _apply(w, depth, code, ll, model, c, p):
    """operation `code` of the menu on the pair (real lazy list, model); returns the new pair"""
    n = len(model)
    tag = "g%d" % depth
    if code == 0:
        return ll.map(w.fn(tag, c)), _mapped(model, [tag] * n, [c] * n)
    if code == 1:
        tags = ["%s_%d" % (tag, i) for i in range(n)]
        cs = [c + i for i in range(n)]
        return ll.map([w.fn(tags[i], cs[i]) for i in range(n)]), _mapped(model, tags, cs)
    if code == 2:
        return ll[1:], model[1:]
    if code == 3:
        return ll[::-1], model[::-1]
    if code == 4:
        return ll[::2], model[::2]
    if code == 5:
        return ll[-2:], model[-2:]
    if code == 6:
        return ll[-1:0:-2], model[-1:0:-2]
    if code == 7:
        idx = [n - 1, 0, 0] if n > 0 else []
        return ll[idx], [model[i] for i in idx]
    if code == 8:
        idx = np.arange(n - 1, -1, -1)
        return ll[idx], [model[i] for i in idx]
    if code == 9:
        return ll.repeat(2), [e for e in model for _ in range(2)]
    if code == 10:
        other, omodel = w.lazy([p, p + 1], first_id=10 * (depth + 1))
        return ll + other, model + omodel
    if code == 11:
        return ll + [p, c], model + [(p, ()), (c, ())]
    if code == 12:
        return ll.copy(), list(model)
    return ll + ll, model + model


def _program(name, vals, codes, c, p):
    fx = _Facts()
    w = _W()
    ll, model = w.lazy(vals)
    stages = [(_snap(ll), model)]
    for depth, code in enumerate(codes):
        ll, model = _apply(w, depth, code, ll, model, c + depth, p + depth)
        fx.true(("stage", depth, "nothing_evaluated"), w.log == [])
        if not isinstance(ll, LazyList):
            fx.true(("stage", depth, "is_lazylist"), False)
            return fx
        stages.append((_snap(ll), model))
    _check(w, fx, "result", ll, model)
    fx.deep = len(model) > 0
    # every list an operation was applied to still behaves as before (the result included)
    for i, (snap, mdl) in enumerate(stages):
        _unchanged(w, fx, ("stage", i), snap, mdl)
    return fx


def _compose2(v0, v1, v2, c, p, n, op1, op2):
    n = _conc(n, 0, 3)
    return _program("compose2", _vals(n, v0, v1, v2), [_conc(op1, 0, N_OPS - 1), _conc(op2, 0, N_OPS - 1)], c, p)


def compose2(v0: int, v1: int, v2: int, c: int, p: int, n: int, op1: int, op2: int) -> bool:
    """
    pre: 0 <= n <= 3
    pre: 0 <= op1 <= 13
    pre: 0 <= op2 <= 13
    pre: _shard(op1)
    post: __return__
    """
    _tick("compose2")
    return _holds(_compose2(v0, v1, v2, c, p, n, op1, op2))


def compose2__reach(v0: int, v1: int, v2: int, c: int, p: int, n: int, op1: int, op2: int) -> bool:
    """
    pre: 0 <= n <= 3
    pre: 0 <= op1 <= 13
    pre: 0 <= op2 <= 13
    post: not __return__
    """
    _tick("compose2__reach")
    return _compose2(v0, v1, v2, c, p, n, op1, op2).deep


def _compose3(v0, v1, v2, c, p, n, op1, op2, op3):
    n = _conc(n, 2, 3)
    return _program("compose3", _vals(n, v0, v1, v2),
                    [_conc(op1, 0, N_OPS - 1), _conc(op2, 0, N_OPS - 1), _conc(op3, 0, N_OPS - 1)], c, p)


def compose3(v0: int, v1: int, v2: int, c: int, p: int, n: int, op1: int, op2: int, op3: int) -> bool:
    """
    pre: 2 <= n <= 3
    pre: 0 <= op1 <= 13
    pre: 0 <= op2 <= 13
    pre: 0 <= op3 <= 13
    pre: _shard(op1 * 14 + op2)
    post: __return__
    """
    _tick("compose3")
    return _holds(_compose3(v0, v1, v2, c, p, n, op1, op2, op3))


def compose3__reach(v0: int, v1: int, v2: int, c: int, p: int, n: int, op1: int, op2: int, op3: int) -> bool:
    """
    pre: 2 <= n <= 3
    pre: 0 <= op1 <= 13
    pre: 0 <= op2 <= 13
    pre: 0 <= op3 <= 13
    post: not __return__
    """
    _tick("compose3__reach")
    return _compose3(v0, v1, v2, c, p, n, op1, op2, op3).deep


# =========================================================================== registry / seeded bugs
BUILDERS = {
    "base": _base, "index_int": _index_int, "slice_sss": _slice_sss, "slice_sss_wide": _slice_sss,
    "slice_sss4": _slice_sss4, "slice_none": _slice_none, "slice_none_wide": _slice_none, "fancy": _fancy,
    "fancy_wide": _fancy, "fancy3": _fancy3, "repeat": _repeat, "add_lazy": _add_lazy,
    "add_plain": _add_plain, "add_bad": _add_bad, "copy": _copy, "mapping": _mapping, "raising": _raising, "raising_index_error": _raising, "compose2": _compose2,
    "compose3": _compose3,
}


def mutants():
    """plausible bugs: name -> (attribute of LazyList, replacement)"""
    def repeat_tiles(self, n):  # [a, b, a, b] instead of [a, a, b, b]
        new = self.copy()
        new._callables = new._callables * n
        return new

    def getitem_eager_slice(self, slice_):  # slicing evaluates the selected elements
        if isinstance(slice_, slice):
            vals = [c() for c in self._callables[slice_]]
            return LazyList([partial(lambda v: v, v) for v in vals])
        return _ORIG["__getitem__"](self, slice_)

    def map_shares_last(self, f):  # late binding: every element gets the last function of the list
        if isinstance(f, (list, tuple)) and len(f) == len(self) and len(f) > 0:
            return _ORIG["map"](self, [f[-1]] * len(f))
        return _ORIG["map"](self, f)

    def add_in_place(self, other):  # extends the receiver
        if isinstance(other, LazyList):
            self._callables += other._callables
            return LazyList(self._callables)
        return _ORIG["__add__"](self, other)

    def copy_alias(self):  # the "copy" shares the list of callables
        new = LazyList(self._callables)
        return new

    def repeat_drops_one(self, n):  # repeat(2) of a 2-element list loses its last entry
        new = _ORIG["repeat"](self, n)
        if n == 2 and len(self) == 2:
            new._callables = new._callables[:-1]
        return new

    def repeat_forgets_map(self, n):  # repeat unwraps mapped elements (visible only after map)
        new = _ORIG["repeat"](self, n)
        new._callables = [c.args[1] if isinstance(c, partial) and getattr(c.func, "__name__", "") == "delayed" else c
                          for c in new._callables]
        return new

    def getitem_reverse_twice(self, slice_):  # negative step with explicit negative start mishandled
        if isinstance(slice_, slice) and slice_.step is not None and slice_.step < -1 \
                and slice_.start is not None and slice_.start < 0:
            return LazyList(self._callables[slice(slice_.start + 1, slice_.stop, slice_.step)])
        return _ORIG["__getitem__"](self, slice_)

    def iter_fixed(self):  # NOT a bug: the suggested repair for the IndexError finding (used to validate it)
        for c in self._callables:
            yield c()

    return {
        "fix_iter": ("__iter__", iter_fixed),
        "repeat_tiles": ("repeat", repeat_tiles),
        "slice_eager": ("__getitem__", getitem_eager_slice),
        "map_shares_last": ("map", map_shares_last),
        "add_in_place": ("__add__", add_in_place),
        "copy_alias": ("copy", copy_alias),
        "repeat_drops_one": ("repeat", repeat_drops_one),
        "repeat_forgets_map": ("repeat", repeat_forgets_map),
        "slice_neg_start": ("__getitem__", getitem_reverse_twice),
    }


_ORIG = {k: LazyList.__dict__[k] for k in ("__getitem__", "map", "repeat", "copy", "__add__")}

if os.environ.get("C19_MUTANT"):
    _attr, _fn = mutants()[os.environ["C19_MUTANT"]]
    setattr(LazyList, _attr, _fn)
