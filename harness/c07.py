"""C07 -- alignments recover exact maps, fit optimally where promised, and interpolate."""
import numpy as np

from harness import common as K
from harness import lapack

META = {
    "explanation": "C07: alignment constructors run for real on fully symbolic source/target coordinates. "
    "Translation/affine: stationarity of the least-squares objective (normal equations) and exact recovery of a "
    "symbolic family member; rotation (2-D): the real optimal_rotation_matrix over the complete 2x2 SVD "
    "parametrisation gives an orthogonal matrix, det +1 unless mirroring is allowed, satisfying the closed-form "
    "optimality conditions; uniform scale: aligned size equals target size; similarity: compositional -- centroid and "
    "size reproduced for an ARBITRARY orthogonal rotation factor, and the factor is the result of "
    "optimal_rotation_matrix called with the centred, rescaled source, the centred target and the caller's "
    "allow_mirror (argument terms compared at an interception wrapper), rotation=False composes none; "
    "TPS: concrete sources, symbolic targets, every source landmark is sent to its target within 1e-7 relative; "
    "PWA: vertices exact, affine inside triangles, edge points interpolate the edge's end points (continuity). "
    "aligned_source()=apply(source) and alignment_error() = |target - aligned| for every class.",
    "bounds": ["3-4 points (affine 3-D: 5)", "n_dims 2 (3 for translation/affine/uniform scale)",
               "TPS: 3 concrete source sets of 4-5 points, both kernels", "PWA: 2 triangles, one symbolic vertex at a time",
               "coordinates boxed to [-8,8]"],
    "stubs": ["numpy.linalg.svd (2x2) -> complete O(2) parametrisation contract", "numpy.linalg.solve/inv -> cofactors",
              "sqrt -> fresh variable r>=0, r^2=x with solver-decided congruence",
              "optimal_rotation_matrix (similarity harness only) -> arbitrary orthogonal matrix, function of its arguments"],
    "assumptions": ["floats are exact reals", "non-degenerate sources (normal matrix invertible, non-zero norms)",
                    "trusted lemma: a stationary point of a convex quadratic is its global minimum",
                    "trusted lemma (2-D): R(c,s) maximises tr(R^T C) iff c*B - s*A = 0 and c*A + s*B >= 0 with A=C00+C11, B=C10-C01"],
    "not_covered": ["3-D rotation/similarity optimality (3x3 SVD)", "GPA (see C08)", "noise-level statements beyond optimality"],
    "trusted": ["oracles in harness/c07.py"],
}

TPS_SETS = [
    [[0, 0], [1, 0.1], [0.2, 1], [1.3, 1.2]],
    [[0, 0], [1, 0.1], [0.2, 1], [1.3, 1.2], [0.5, 0.4]],
    [[-1, -1], [2, -0.5], [0.3, 1.7], [2.2, 2.1], [0.9, 0.2]],
]


def instances(tier):
    out = []
    for n in (2, 3):
        out.append(("translation", {"n": n, "pts": 3}))
        out.append(("uniform_scale", {"n": n, "pts": 3}))
    out.append(("affine", {"n": 2, "pts": 4}))
    out.append(("affine_recover", {"n": 2, "pts": 3}))
    if tier != "quick":
        out.append(("affine", {"n": 3, "pts": 5}))
        out.append(("affine_recover", {"n": 3, "pts": 4}))
    for mirror in (False, True):
        out.append(("rotation2d", {"mirror": mirror, "pts": 3}))
        out.append(("rotation2d", {"mirror": mirror, "pts": 2, "reduced": True}))
        for rotation in (True, False):
            out.append(("similarity", {"mirror": mirror, "rotation": rotation, "pts": 3}))
    out.append(("rotation2d_recover", {"pts": 3}))
    for cls, n in (("AlignmentTranslation", 2), ("AlignmentTranslation", 3), ("AlignmentUniformScale", 2),
                   ("AlignmentUniformScale", 3), ("AlignmentAffine", 2), ("AlignmentRotation", 2),
                   ("AlignmentSimilarity", 2)):
        out.append(("recover_persists", {"cls": cls, "n": n}))
    sets = [1] if tier == "quick" else [0, 1, 2]
    for s in sets:
        for kern in ("R2LogR2RBF", "R2LogRRBF"):
            out.append(("tps", {"set": s, "kernel": kern}))
    for v in range(4):
        out.append(("pwa_edge", {"symv": v}))
    out.append(("pwa_inside", {"symv": None}))
    for v in ((3,) if tier == "quick" else range(4)):
        out.append(("pwa_inside", {"symv": v}))
    return out


def _common(F, ob, al, pts):
    """clauses shared by all alignment classes"""
    asrc = al.aligned_source().points
    ob.eq("aligned_source=apply(source)", asrc, al.apply(al.source.points))
    err = al.alignment_error()
    d = al.target.points - asrc
    ob.eq("alignment_error^2", err * err, (d * d).sum())
    ob.true("alignment_error>=0", err >= 0)


def translation(F, ob, cfg):
    from menpo.shape import PointCloud
    from menpo.transform import AlignmentTranslation

    n, pts = cfg["n"], cfg["pts"]
    s = F.reals("s", (pts, n))
    t = F.reals("t", (pts, n))
    al = AlignmentTranslation(PointCloud(s, copy=False), PointCloud(t, copy=False))
    tau = al.h_matrix[:n, n]
    ob.eq("stationary", (s + tau - t).sum(axis=0), np.zeros(n))
    K.honest(F, ob, "honest", al)
    _common(F, ob, al, pts)
    # exact recovery of a symbolic translation
    tau0 = F.reals("tau0", (n,))
    al2 = AlignmentTranslation(PointCloud(s, copy=False), PointCloud(s + tau0, copy=False))
    ob.eq("recover", al2.h_matrix[:n, n], tau0)
    ob.eq("recover.apply", al2.apply(s), s + tau0)


def affine(F, ob, cfg):
    from menpo.shape import PointCloud
    from menpo.transform import AlignmentAffine

    n, pts = cfg["n"], cfg["pts"]
    s = F.reals("s", (pts, n), -4, 4)
    t = F.reals("t", (pts, n), -4, 4)
    S = PointCloud(s, copy=False)
    T = PointCloud(t, copy=False)
    a = S.h_points()
    nd = K.det(a.dot(a.T))
    F.assume(F.or_(nd >= 0.05, nd <= -0.05))
    H = AlignmentAffine._build_alignment_h_matrix(S, T)
    # normal equations: (H a - b) a^T = 0
    b = T.h_points()
    r = H.dot(a) - b
    ob.eq("normal_equations", r.dot(a.T), np.zeros((n + 1, n + 1)))
    ob.eq("bottom_row", H[n, :], np.array([0.0] * n + [1.0]))
    al = AlignmentAffine(S, T)
    ob.eq("ctor.h=fit", al.h_matrix, H)
    ob.eq("aligned_source=apply(source)", al.aligned_source().points, al.apply(s))


def affine_recover(F, ob, cfg):
    from menpo.shape import PointCloud
    from menpo.transform import AlignmentAffine

    n, pts = cfg["n"], cfg["pts"]
    s = F.reals("s", (pts, n), -4, 4)
    A, tr = K.linear_of(F, "Affine", "m", n)
    S = PointCloud(s, copy=False)
    a = S.h_points()
    nd = K.det(a.dot(a.T))
    F.assume(F.or_(nd >= 0.05, nd <= -0.05))
    tgt = s.dot(A.T) + tr
    al = AlignmentAffine(S, PointCloud(tgt, copy=False))
    ob.eq("recover", al.h_matrix, K.h_of(F, A, tr))
    _common(F, ob, al, pts)
    ob.eq("exact.error=0", al.alignment_error(), 0)


def uniform_scale(F, ob, cfg):
    from menpo.shape import PointCloud
    from menpo.transform import AlignmentUniformScale

    n, pts = cfg["n"], cfg["pts"]
    s = F.reals("s", (pts, n), -4, 4)
    t = F.reals("t", (pts, n), -4, 4)
    S, T = PointCloud(s, copy=False), PointCloud(t, copy=False)
    sc = s - s.sum(axis=0) * (1.0 / pts) if not F.sym else s - S.centre()
    F.assume((sc * sc).sum() >= 0.05)
    al = AlignmentUniformScale(S, T)
    K.honest(F, ob, "honest", al)
    k = al.h_matrix[0, 0]
    # overall size reproduced: |k (s - c_s)| = |t - c_t|
    tc = t - T.centre()
    ob.eq("size^2", k * k * (sc * sc).sum(), (tc * tc).sum())
    ob.true("scale>=0", k >= 0)
    asrc = al.aligned_source()
    ob.eq("norm(aligned)=norm(target)", asrc.norm() * asrc.norm(), T.norm() * T.norm())
    _common(F, ob, al, pts)
    # exact recovery of a positive scale
    k0 = F.real("k0", 0.05, 4)
    al2 = AlignmentUniformScale(S, PointCloud(s * k0, copy=False))
    ob.eq("recover", al2.h_matrix[0, 0], k0)
    # the same clauses for the alignment handed out by pseudoinverse() once it has been given a target of its own
    F.assume((tc * tc).sum() >= 0.05)
    inv = al.pseudoinverse()
    u = F.reals("u", (pts, n), -4, 4)
    U = PointCloud(u, copy=False)
    inv.set_target(U)
    ki = inv.h_matrix[0, 0]
    uc = u - U.centre()
    ob.eq("pinv.retargeted.size^2", ki * ki * (tc * tc).sum(), (uc * uc).sum())
    ob.true("pinv.retargeted.scale>=0", ki >= 0)
    K.honest(F, ob, "pinv.retargeted.honest", inv)
    _common(F, ob, inv, pts)


def rotation2d(F, ob, cfg):
    """the real optimal_rotation_matrix / AlignmentRotation over the parametrised 2x2 SVD contract.
    reduced=True: source = an arbitrary 2x2 matrix C (as two points), target = the two unit points, so that the
    correlation handed to the SVD is C itself -- every correlation matrix is reached with 4 variables;
    reduced=False: general symbolic point sets; here the SVD argument is checked to be target^T source."""
    from menpo.shape import PointCloud
    from menpo.transform import AlignmentRotation

    pts, mirror = cfg["pts"], cfg["mirror"]
    if cfg.get("reduced"):
        s = F.reals("s", (2, 2), -4, 4)
        t = K.const(F, [[1.0, 0.0], [0.0, 1.0]])
    else:
        s = F.reals("s", (pts, 2), -4, 4)
        t = F.reals("t", (pts, 2), -4, 4)
    svd_args = []
    if F.sym:
        lapack.install_svd2_memo(F)
        from symx import npproxy

        inner = npproxy.NP.stubs["linalg.svd"]

        def logging_svd(a, **k):
            svd_args.append(np.array(a, dtype=object))
            return inner(a, **k)

        npproxy.NP.stubs["linalg.svd"] = logging_svd
    al = AlignmentRotation(PointCloud(s, copy=False), PointCloud(t, copy=False), allow_mirror=mirror)
    R = al.h_matrix[:2, :2]
    ob.eq("orthogonal", R.T.dot(R), np.eye(2))
    ob.eq("no_translation", al.h_matrix[:2, 2], np.zeros(2))
    C = t.T.dot(s)  # correlation: maximise tr(R^T C)
    if F.sym:
        ob.true("svd.called_once", len(svd_args) == 1)
        if svd_args:
            ob.eq("svd.argument=correlation", svd_args[0], C)
    if not mirror:
        ob.eq("det=+1", K.det(R), 1)
    else:
        d = K.det(R)
        ob.true("det=+-1", F.or_(F.eq(d, 1), F.eq(d, -1)))
    if cfg.get("reduced") or not F.sym:
        A = C[0, 0] + C[1, 1]
        B = C[1, 0] - C[0, 1]
        if not mirror:
            c_, s_ = R[0, 0], R[1, 0]
            ob.eq("optimal.stationary", c_ * B - s_ * A, 0)
            ob.true("optimal.maximum", c_ * A + s_ * B >= 0)
        else:
            # optimal over O(2): at least as good as the best proper rotation and the best reflection
            tr_ = (R.T.dot(C))[0, 0] + (R.T.dot(C))[1, 1]
            A2 = C[0, 0] - C[1, 1]
            B2 = C[1, 0] + C[0, 1]
            ob.true("optimal.O2.nonneg", tr_ >= 0)
            ob.true("optimal.O2.rot", tr_ * tr_ >= A * A + B * B)
            ob.true("optimal.O2.refl", tr_ * tr_ >= A2 * A2 + B2 * B2)
    ob.eq("aligned_source=apply(source)", al.aligned_source().points, al.apply(s))


def rotation2d_recover(F, ob, cfg):
    """target = R0 source (R0 an arbitrary rotation): the alignment recovers R0.  Compositional: the rotation
    factor is any rotation meeting the optimality conditions that harness rotation2d(reduced) proves of the real
    optimal_rotation_matrix for every correlation matrix."""
    from menpo.shape import PointCloud
    from menpo.transform import AlignmentRotation

    pts = cfg["pts"]
    s = F.reals("s", (pts, 2), -4, 4)
    F.assume((s * s).sum() >= 0.05)
    R0 = K.rot2(F, "r0")
    log = []
    lapack.install_rotation_oracle(F, log, optimal=True)
    al = AlignmentRotation(PointCloud(s, copy=False), PointCloud(s.dot(R0.T), copy=False))
    ob.eq("recover", al.h_matrix[:2, :2], R0)
    ob.true("rotation.called_once", len(log) == 1)


def recover_persists(F, ob, cfg):
    """the alignment that recovered a family member keeps doing so while objects DERIVED from it (a copy that is
    retargeted, from_vector's result, a retargeted pseudoinverse) go their own way: the clauses of the property
    are about the alignment object the caller holds, not about the moment after construction"""
    import menpo.transform as mt
    from menpo.shape import PointCloud

    cls, n = cfg["cls"], cfg["n"]
    pts = n + 1 if cls != "AlignmentAffine" else n + 2
    s = F.reals("s", (pts, n), -4, 4)
    S = PointCloud(s, copy=False)
    sc = s - S.centre()
    F.assume((sc * sc).sum() >= 0.05)
    fam = cls.replace("Alignment", "")
    if cls == "AlignmentAffine":
        a = S.h_points()
        nd = K.det(a.dot(a.T))
        F.assume(F.or_(nd >= 0.05, nd <= -0.05))
    if cls in ("AlignmentRotation", "AlignmentSimilarity"):
        lapack.install_rotation_oracle(F, [], optimal=True)
    if cls == "AlignmentUniformScale":
        k0 = F.real("k0", 0.05, 4)
        A, tr = K.eye(F, n) * k0, np.zeros(n)
        # menpo's scale alignment is about the origin: the recovered member is the pure scaling
    elif cls == "AlignmentSimilarity":
        A, tr = K.linear_of(F, "Similarity", "m", n)
    else:
        A, tr = K.linear_of(F, fam, "m", n)
    tgt = s.dot(A.T) + tr
    al = getattr(mt, cls)(S, PointCloud(tgt, copy=False))
    before = K.snapshot(al.h_matrix)
    # derived objects
    t2 = F.reals("t2", (pts, n), -4, 4)
    if cls in ("AlignmentUniformScale", "AlignmentSimilarity"):
        T2 = PointCloud(t2, copy=False)
        tc = t2 - T2.centre()
        F.assume((tc * tc).sum() >= 0.05)
    c = al.copy()
    c.set_target(PointCloud(t2, copy=False))
    if cls in ("AlignmentTranslation", "AlignmentUniformScale", "AlignmentAffine"):
        p = F.reals("p", (al.n_parameters,), 0.25, 2)
        v = al.from_vector(p)
        ob.true("from_vector.is_new_object", v is not al)
        u = al.copy()
        u.from_vector_inplace(p * 0.5 + 1)
    # the original still recovers the member and reports consistently
    K.same_terms(F, ob, "h_matrix.kept", before, al.h_matrix)
    if cls in ("AlignmentTranslation", "AlignmentUniformScale", "AlignmentAffine"):
        ob.eq("recover", al.h_matrix, K.h_of(F, A, tr))
    ob.eq("target.kept", al.target.points, tgt)
    _common(F, ob, al, pts)
    if cls in ("AlignmentTranslation", "AlignmentAffine") or (cls == "AlignmentUniformScale" and n == 2):
        # (for the other classes recovery at construction is the subject of uniform_scale / rotation2d_recover /
        # similarity; the termwise unchanged matrix carries it over, re-deriving it here is beyond the solver)
        ob.eq("aligned_source=target", al.aligned_source().points, tgt)
        ob.eq("exact.error=0", al.alignment_error(), 0)


def similarity(F, ob, cfg):
    from menpo.shape import PointCloud
    from menpo.transform import AlignmentSimilarity

    pts, mirror, rotation = cfg["pts"], cfg["mirror"], cfg["rotation"]
    s = F.reals("s", (pts, 2), -4, 4)
    t = F.reals("t", (pts, 2), -4, 4)
    S, T = PointCloud(s, copy=False), PointCloud(t, copy=False)
    cs, ct = s.sum(axis=0) * (1.0 / pts), t.sum(axis=0) * (1.0 / pts)
    if F.sym:
        cs, ct = S.centre(), T.centre()
    sc, tc = s - cs, t - ct
    F.assume((sc * sc).sum() >= 0.05)
    F.assume((tc * tc).sum() >= 0.05)
    log = []
    lapack.install_rotation_oracle(F, log)
    al = AlignmentSimilarity(S, T, rotation=rotation, allow_mirror=mirror)
    K.honest(F, ob, "honest", al)
    asrc = al.aligned_source().points
    # (i) centroid reproduced
    ob.eq("centroid", asrc.sum(axis=0), t.sum(axis=0))
    # (ii) overall size reproduced
    ac = asrc - ct
    ob.eq("size^2", (ac * ac).sum(), (tc * tc).sum())
    # (iii) the rotation factor is the least-squares rotation of the centred, rescaled source onto the centred target
    if rotation:
        ob.true("rotation.called_once", len(log) == 1)
        if len(log) == 1:
            call = log[0]
            ob.true("rotation.allow_mirror_passed", call["allow_mirror"] == mirror)
            ob.eq("rotation.arg.target", call["target"], tc)
            # source argument: centred and brought to the target's size
            a_src = np.asarray(call["source"])
            ob.eq("rotation.arg.source.centred", a_src.sum(axis=0), np.zeros(2))
            ob.eq("rotation.arg.source.size^2", (a_src * a_src).sum(), (tc * tc).sum())
            # ... and parallel to the centred source (same shape, positive factor)
            k = F.sqrt((tc * tc).sum()) / F.sqrt((sc * sc).sum()) if not F.sym else T.norm() / S.norm()
            ob.eq("rotation.arg.source", a_src, sc * k)
    else:
        ob.true("rotation.not_called", len(log) == 0)
        L = al.h_matrix[:2, :2]
        ob.eq("no_rotation.linear=kI", L, np.eye(2) * L[0, 0])
        ob.true("no_rotation.k>0", L[0, 0] > 0)
    ob.eq("aligned_source=apply(source)", asrc, al.apply(s))
    err = al.alignment_error()
    d = t - asrc
    ob.eq("alignment_error^2", err * err, (d * d).sum())


def tps(F, ob, cfg):
    import menpo.transform as mt
    from menpo.shape import PointCloud

    src = np.array(TPS_SETS[cfg["set"]], dtype=float)
    n = src.shape[0]
    t = F.reals("t", (n, 2), -3, 3)
    kern = getattr(mt, cfg["kernel"])(src)
    al = mt.ThinPlateSplines(PointCloud(src), PointCloud(t, copy=False), kernel=kern)
    y = al.apply(src)
    ob.eq("interpolates", y, t, tol=1e-7)
    ob.eq("aligned_source=apply(source)", al.aligned_source().points, y, tol=1e-9)
    err = al.alignment_error()
    ob.true("alignment_error~0", err * err <= 1e-10 * (1 + (t * t).sum()))


TRI_S = [[0.0, 0.0], [2.0, 0.5], [0.5, 2.0], [2.5, 2.5]]
TRI_T = [[0.25, -0.25], [2.5, 1.0], [0.0, 2.25], [3.0, 2.75]]


def pwa_edge(F, ob, cfg):
    """continuity: a point of the shared edge is mapped onto the segment between the edge's target end points"""
    from menpo.shape import PointCloud, TriMesh
    from menpo.transform import PiecewiseAffine

    trilist = np.array([[0, 1, 2], [1, 3, 2]])
    src = K.const(F, TRI_S)
    tgt = K.const(F, TRI_T)
    tgt[cfg["symv"]] = F.reals("t", (2,), -6, 6)
    pw = PiecewiseAffine(TriMesh(src, trilist, copy=False), PointCloud(tgt, copy=False))
    ob.eq("vertices", pw.apply(src), tgt)
    u = F.real("u", 0, 1)
    q = src[1] + (src[2] - src[1]) * u
    y = pw.apply(np.array([list(q)], dtype=object if F.sym else float))
    ob.eq("edge.continuous", y[0], tgt[1] + (tgt[2] - tgt[1]) * u)
    _common(F, ob, pw, 4)
    ob.eq("exact.error=0", pw.alignment_error(), 0)


def pwa_inside(F, ob, cfg):
    """affine inside each source triangle: a strictly interior point (symbolic barycentric weights, no margin)
    is mapped by the affine map of ITS OWN triangle"""
    from menpo.shape import PointCloud, TriMesh
    from menpo.transform import PiecewiseAffine

    trilist = np.array([[0, 1, 2], [1, 3, 2]])
    src = K.const(F, TRI_S)
    tgt = K.const(F, TRI_T)
    if cfg["symv"] is not None:
        tgt[cfg["symv"]] = F.reals("t", (2,), -6, 6)
    pw = PiecewiseAffine(TriMesh(src, trilist, copy=False), PointCloud(tgt, copy=False))
    k = F.choice("tri", [0, 1])
    u = F.real("u", 0, 1)
    v = F.real("v", 0, 1)
    F.assume(F.and_(u > 0, v > 0, u + v < 1))
    tri = trilist[k]
    q = src[tri[0]] + (src[tri[1]] - src[tri[0]]) * u + (src[tri[2]] - src[tri[0]]) * v
    y = pw.apply(np.array([list(q)], dtype=object if F.sym else float))
    ob.eq("affine.inside", y[0], tgt[tri[0]] + (tgt[tri[1]] - tgt[tri[0]]) * u + (tgt[tri[2]] - tgt[tri[0]]) * v)
