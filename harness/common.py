"""Shared generators ("an arbitrary valid member of class X") and oracles.
Everything here works in both instantiations: Sym/object arrays under the np
proxy, and float64 arrays against unpatched menpo (replay)."""
import numpy as np

from symx import core
from symx.core import Sym

HOMOG = ["Homogeneous", "Affine", "Similarity", "Rotation", "Translation", "UniformScale",
         "NonUniformScale"]
ALIGN = ["AlignmentAffine", "AlignmentSimilarity", "AlignmentRotation", "AlignmentTranslation",
         "AlignmentUniformScale"]
FAMILY = HOMOG + ALIGN


def arr(F, rows):
    """nested list -> array of the mode's dtype"""
    if F.sym:
        return np.array(rows, dtype=object)
    return np.array(rows, dtype=float)


def const(F, a):
    """concrete numbers as exact constants of the mode (Sym constants in symbolic mode, so that
    arithmetic on them is exact rational arithmetic, not rounded float arithmetic)"""
    a = np.asarray(a, dtype=float)
    if not F.sym:
        return a.copy()
    out = np.empty(a.shape, dtype=object)
    for i in np.ndindex(*a.shape):
        out[i] = Sym.of(float(a[i]))
    return out


def eye(F, n):
    return np.eye(n).astype(object) if F.sym else np.eye(n)


def zeros(F, shape):
    return np.zeros(shape).astype(object) if F.sym else np.zeros(shape)


def nonzero(F, x):
    F.assume(F.not_(F.eq(x, 0)))


def det(a):
    n = a.shape[0]
    if n == 1:
        return a[0, 0]
    if n == 2:
        return a[0, 0] * a[1, 1] - a[0, 1] * a[1, 0]
    s = 0
    for j in range(n):
        minor = np.delete(a[1:], j, 1)
        s = s + ((-1) ** j) * a[0, j] * det(minor)
    return s


def rot2(F, tag):
    """every 2-D rotation except the half turn: c=(a^2-b^2)/(a^2+b^2), s=2ab/(a^2+b^2)"""
    a = F.real(tag + "_ra", -4, 4)
    b = F.real(tag + "_rb", -4, 4)
    n = a * a + b * b
    F.assume(n >= 0.01)
    c = (a * a - b * b) / n
    s = (2 * a * b) / n
    return arr(F, [[c, -s], [s, c]])


def rot3(F, tag):
    """every 3-D rotation: quaternion matrix / |q|^2"""
    w, x, y, z = [F.real(tag + "_q" + k, -4, 4) for k in "wxyz"]
    n = w * w + x * x + y * y + z * z
    F.assume(n >= 0.01)
    M = arr(F, [[n - 2 * (y * y + z * z), 2 * (x * y - z * w), 2 * (x * z + y * w)],
                [2 * (x * y + z * w), n - 2 * (x * x + z * z), 2 * (y * z - x * w)],
                [2 * (x * z - y * w), 2 * (y * z + x * w), n - 2 * (x * x + y * y)]])
    return M * (1 / n)


def rot(F, tag, n):
    return rot2(F, tag) if n == 2 else rot3(F, tag)


def linear_of(F, kind, tag, n):
    """(linear part, translation) of an arbitrary valid member of `kind`"""
    I = eye(F, n)
    z = zeros(F, (n,))
    if kind in ("Translation", "AlignmentTranslation"):
        return I, F.reals(tag + "_t", (n,))
    if kind in ("UniformScale", "AlignmentUniformScale"):
        s = F.real(tag + "_s", -4, 4)
        F.assume(F.or_(s >= 0.05, s <= -0.05))
        return I * s, z
    if kind == "NonUniformScale":
        s = F.reals(tag + "_s", (n,), -4, 4)
        for v in s:
            F.assume(F.or_(v >= 0.05, v <= -0.05))
        L = zeros(F, (n, n))
        for i in range(n):
            L[i, i] = s[i]
        return L, z
    if kind in ("Rotation", "AlignmentRotation"):
        return rot(F, tag, n), z
    if kind in ("Similarity", "AlignmentSimilarity"):
        k = F.real(tag + "_k", 0.05, 4)
        return rot(F, tag, n) * k, F.reals(tag + "_t", (n,))
    if kind in ("Affine", "AlignmentAffine", "Homogeneous", "HomogeneousW", "HomogeneousP"):
        A = F.reals(tag + "_A", (n, n), -4, 4)
        d = det(A)
        F.assume(F.or_(d >= 0.05, d <= -0.05))
        return A, F.reals(tag + "_t", (n,))
    raise KeyError(kind)


def h_of(F, L, t):
    n = L.shape[0]
    h = eye(F, n + 1)
    h[:n, :n] = L
    h[:n, n] = t
    return h


def mk_transform(F, kind, tag, n, n_pts=3):
    """an arbitrary valid member of the homogeneous-family class `kind`.
    Alignment variants: state set directly (arbitrary valid state: target = T(source))."""
    import menpo.transform as mt
    from menpo.shape import PointCloud

    L, t = linear_of(F, kind, tag, n)
    h = h_of(F, L, t)
    if kind in ("HomogeneousW", "HomogeneousP"):
        # genuinely homogeneous members: bottom row [0..0 w] with w != 1 allowed, or fully projective
        w = F.real(tag + "_w", -3, 3)
        F.assume(F.or_(w >= 0.2, w <= -0.2))
        h[n, n] = w
        if kind == "HomogeneousP":
            h[n, :n] = F.reals(tag + "_p", (n,), -1, 1)
        return mt.Homogeneous(h, copy=False, skip_checks=True)
    cls = getattr(mt, kind)
    if kind == "Homogeneous":
        # a genuinely projective member: bottom row symbolic, w kept away from zero by the caller
        return mt.Homogeneous(h, copy=False, skip_checks=True) if not F.cfg.get("projective") else _proj(F, h, tag, n)
    if kind in ("Affine", "Similarity"):
        return cls(h, copy=False, skip_checks=True)
    if kind == "Rotation":
        return mt.Rotation(L, skip_checks=True)
    if kind == "Translation":
        return mt.Translation(t, skip_checks=True)
    if kind == "UniformScale":
        return mt.UniformScale(L[0, 0], n, skip_checks=True)
    if kind == "NonUniformScale":
        return mt.NonUniformScale(np.array([L[i, i] for i in range(n)], dtype=L.dtype), skip_checks=True)
    # alignment variants
    obj = cls.__new__(cls)
    src = F.reals(tag + "_src", (n_pts, n))
    tgt = src.dot(L.T) + t
    obj._source = PointCloud(src, copy=False)
    obj._target = PointCloud(tgt, copy=False)
    obj._h_matrix = h
    if kind in ("AlignmentSimilarity", "AlignmentRotation"):
        obj.allow_mirror = False
    return obj


def _proj(F, h, tag, n):
    import menpo.transform as mt

    h[n, :n] = F.reals(tag + "_p", (n,), -1, 1)
    return mt.Homogeneous(h, copy=False, skip_checks=True)


# ---------------------------------------------------------------- honesty predicates
def honest(F, ob, name, t):
    """the class predicate of type(t) holds of t.h_matrix"""
    import menpo.transform as mt

    h = t.h_matrix
    n = h.shape[0] - 1
    L, tr = h[:n, :n], h[:n, n]
    I = np.eye(n)
    if isinstance(t, mt.Affine):
        ob.eq(name + ".bottom", h[n, :], np.array([0.0] * n + [1.0]))
    if isinstance(t, mt.Translation):
        ob.eq(name + ".lin=I", L, I)
    elif isinstance(t, mt.UniformScale):
        ob.eq(name + ".lin=sI", L, I * L[0, 0])
        ob.eq(name + ".t=0", tr, np.zeros(n))
    elif isinstance(t, mt.NonUniformScale):
        ob.eq(name + ".diag", L * (1 - I), np.zeros((n, n)))
        ob.eq(name + ".t=0", tr, np.zeros(n))
    elif isinstance(t, mt.Rotation):
        ob.eq(name + ".RtR=I", L.T.dot(L), I)
        ob.eq(name + ".t=0", tr, np.zeros(n))
    elif isinstance(t, mt.Similarity):
        G = L.T.dot(L)
        # k = G[0,0] is a sum of squares (>= 0); k != 0 follows from the separate determinant
        # obligation of the caller (det != 0), so k > 0 needs no query of its own
        ob.eq(name + ".AtA=kI", G, I * G[0, 0])


def homog_apply(h, x):
    """independent reference for a homogeneous map: append 1, multiply, divide by the last coordinate"""
    n = h.shape[0] - 1
    out = []
    for p in x:
        hp = [sum(h[i, j] * p[j] for j in range(n)) + h[i, n] for i in range(n + 1)]
        out.append([hp[i] / hp[n] for i in range(n)])
    return np.array(out, dtype=object if (h.dtype == object or x.dtype == object) else float)


def pointcloud(F, tag, n_pts, n):
    from menpo.shape import PointCloud

    return PointCloud(F.reals(tag, (n_pts, n)), copy=False)


def snapshot(a):
    """element list of an array (terms or floats) for later identity comparison"""
    return [x for x in np.asarray(a, dtype=object).ravel()], np.shape(a)


def same_terms(F, ob, name, snap, a):
    els, shp = snap
    if np.shape(a) != shp:
        ob.fail(name + ".shape", "%s vs %s" % (np.shape(a), shp))
        return
    ob.eq(name, np.asarray(a, dtype=object if F.sym else float).ravel(),
          np.array(els, dtype=object if F.sym else float))


# ---------------------------------------------------------------- shapes, images, digests
SHAPES = ["PointCloud", "TriMesh", "ColouredTriMesh", "TexturedTriMesh", "PointUndirectedGraph",
          "PointDirectedGraph", "PointTree", "LabelledPointUndirectedGraph"]


def mk_shape(F, cls, tag, n, npts=4, landmarks=0):
    """a shape of class `cls` with concrete structure and symbolic coordinates (n-D)"""
    from collections import OrderedDict

    import menpo.shape as ms
    from menpo.image import Image

    pts = F.reals(tag, (npts, n))
    tl = np.array([[0, 1, 2], [1, 3, 2]][: max(1, npts - 2)])
    und = np.array([[0, 1], [1, 2], [2, 0]] + ([[2, 3]] if npts > 3 else []))
    if cls == "PointCloud":
        s = ms.PointCloud(pts, copy=False)
    elif cls == "TriMesh":
        s = ms.TriMesh(pts, trilist=tl, copy=False)
    elif cls == "ColouredTriMesh":
        s = ms.ColouredTriMesh(pts, trilist=tl, colours=F.reals(tag + "_col", (npts, 3), 0, 1), copy=False)
    elif cls == "TexturedTriMesh":
        tex = Image(F.reals(tag + "_tex", (1, 2, 2), 0, 1), copy=False)
        s = ms.TexturedTriMesh(pts, F.reals(tag + "_tc", (npts, 2), 0, 1), tex, trilist=tl, copy=False)
    elif cls == "PointUndirectedGraph":
        s = ms.PointUndirectedGraph.init_from_edges(pts, und, copy=False)
    elif cls == "PointDirectedGraph":
        s = ms.PointDirectedGraph.init_from_edges(pts, np.array([[0, 1], [1, 2], [2, 0], [0, 2]]), copy=False)
    elif cls == "PointTree":
        s = ms.PointTree.init_from_edges(pts, np.array([[1, 0], [1, 2]] + ([[2, 3]] if npts > 3 else [])), 1, copy=False)
    elif cls == "LabelledPointUndirectedGraph":
        m1 = np.zeros(npts, dtype=bool)
        m1[:2] = True
        m2 = np.ones(npts, dtype=bool)
        m2[0] = False
        s = ms.LabelledPointUndirectedGraph.init_from_edges(pts, und, OrderedDict([("zeta", m1), ("alpha", m2)]), copy=False)
    else:
        raise KeyError(cls)
    lm_classes = ["PointCloud", "LabelledPointUndirectedGraph", "PointUndirectedGraph"]
    for i in range(landmarks):
        s.landmarks["g%d" % i] = mk_shape(F, lm_classes[i % 3], "%s_lm%d" % (tag, i), n, npts=3 + (i % 2))
    return s


def mk_image(F, cls, tag, shape=(2, 3), channels=1, mask=None, landmarks=0):
    """an image with symbolic pixels (BooleanImage: concrete pattern), optional concrete mask and landmark groups"""
    from menpo.image import BooleanImage, Image, MaskedImage

    if cls == "BooleanImage":
        pat = (np.arange(int(np.prod(shape))).reshape(shape) % 3) != 0
        img = BooleanImage(pat)
    else:
        px = F.reals(tag + "_px", (channels,) + tuple(shape), 0, 1)
        if cls == "Image":
            img = Image(px, copy=False)
        else:
            m = np.ones(shape, dtype=bool) if mask is None else np.asarray(mask, dtype=bool)
            img = MaskedImage(px, mask=m, copy=False)
    for i in range(landmarks):
        img.landmarks["g%d" % i] = mk_shape(F, ["PointCloud", "LabelledPointUndirectedGraph"][i % 2],
                                            "%s_lm%d" % (tag, i), len(shape), npts=3)
    return img


def digest(o, prefix=""):
    """complete observable state as a list of (name, value); values are arrays (compared termwise) or
    plain python objects (compared with ==)"""
    import scipy.sparse as sp

    import menpo.shape as ms
    from menpo.image import BooleanImage, Image, MaskedImage
    from menpo.landmark import LandmarkManager
    from menpo.transform import Homogeneous, ThinPlateSplines, TransformChain
    from menpo.transform.base import Alignment
    from menpo.transform.piecewiseaffine.base import AbstractPWA

    out = [(prefix + "type", type(o).__name__)]
    if isinstance(o, LandmarkManager):
        out.append((prefix + "groups", list(o.keys())))
        for k in o.keys():
            out += digest(o[k], prefix + "lm[%s]." % k)
        return out
    if isinstance(o, ms.PointCloud):
        out.append((prefix + "points", o.points))
        if isinstance(o, ms.TriMesh):
            out.append((prefix + "trilist", np.asarray(o.trilist)))
        if isinstance(o, ms.ColouredTriMesh):
            out.append((prefix + "colours", o.colours))
        if isinstance(o, ms.TexturedTriMesh):
            out.append((prefix + "tcoords", o.tcoords.points))
            out += digest(o.texture, prefix + "texture.")
        if hasattr(o, "adjacency_matrix"):
            a = o.adjacency_matrix
            out.append((prefix + "adjacency", np.asarray(a.todense()) if sp.issparse(a) else np.asarray(a)))
        if isinstance(o, ms.PointTree):
            out.append((prefix + "root", int(o.root_vertex)))
        if isinstance(o, ms.LabelledPointUndirectedGraph):
            out.append((prefix + "labels", list(o.labels)))
            for l in o.labels:
                out.append((prefix + "mask[%s]" % l, np.asarray(o._labels_to_masks[l])))
    elif isinstance(o, Image):
        out.append((prefix + "pixels", o.pixels))
        if isinstance(o, MaskedImage):
            out.append((prefix + "mask", o.mask.pixels))
    elif isinstance(o, Homogeneous):
        out.append((prefix + "h_matrix", o.h_matrix))
    elif isinstance(o, TransformChain):
        for i, t in enumerate(o.transforms):
            out += digest(t, prefix + "chain[%d]." % i)
    if isinstance(o, AbstractPWA):
        out += [(prefix + "ti", o.ti), (prefix + "tij", o.tij), (prefix + "tik", o.tik)]
    if isinstance(o, ThinPlateSplines):
        out += [(prefix + "coefficients", o.coefficients)]
    if isinstance(o, Alignment):
        out += digest(o.source, prefix + "source.")
        out += digest(o.target, prefix + "target.")
    if getattr(o, "_landmarks", None) is not None and not isinstance(o, LandmarkManager):
        if o._landmarks.n_groups:
            out += digest(o._landmarks, prefix + "landmarks.")
    return out


def freeze(d):
    """snapshot of a digest (element lists), immune to later in-place edits"""
    out = []
    for k, v in d:
        if isinstance(v, np.ndarray):
            out.append((k, snapshot(v)))
        else:
            out.append((k, v))
    return out


def eq_digest(F, ob, name, got, want, tol=None):
    """`got` is a live digest, `want` a live or frozen digest"""
    gk = [k for k, _ in got]
    wk = [k for k, _ in want]
    ob.true(name + ".keys", gk == wk)
    if gk != wk:
        return
    for (k, g), (_, w) in zip(got, want):
        if isinstance(w, tuple) and len(w) == 2 and isinstance(w[0], list):  # frozen array
            els, shp = w
            if np.shape(g) != shp:
                ob.fail("%s.%s.shape" % (name, k), "%s vs %s" % (np.shape(g), shp))
                continue
            w = np.array(els, dtype=object if F.sym else None).reshape(shp) if els else np.zeros(shp)
        if isinstance(g, np.ndarray) or isinstance(w, np.ndarray):
            g, w = np.asarray(g), np.asarray(w)
            if g.dtype == bool and w.dtype == bool or (g.dtype.kind in "iu" and w.dtype.kind in "iu"):
                ob.true("%s.%s" % (name, k), g.shape == w.shape and bool(np.array_equal(g, w)))
            else:
                ob.eq("%s.%s" % (name, k), g, w, tol=tol)
        else:
            ob.true("%s.%s" % (name, k), g == w)
