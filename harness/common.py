"""Shared generators ("an arbitrary valid member of class X") and oracles.
Everything here works in both instantiations: Sym/object arrays under the np
proxy, and float64 arrays against unpatched menpo (replay)."""
import numpy as np

from symx import core
from symx.core import Sym

HOMOG = ["Homogeneous", "Affine", "Similarity", "Rotation", "Translation", "UniformScale",
         "NonUniformScale"]
ALIGN = ["AlignmentAffine", "AlignmentSimilarity", "AlignmentRotation", "AlignmentTranslation",
         "AlignmentUniformScale"]
FAMILY = HOMOG + ALIGN


def arr(F, rows):
    """nested list -> array of the mode's dtype"""
    if F.sym:
        return np.array(rows, dtype=object)
    return np.array(rows, dtype=float)


def const(F, a):
    """concrete numbers as exact constants of the mode (Sym constants in symbolic mode, so that
    arithmetic on them is exact rational arithmetic, not rounded float arithmetic)"""
    a = np.asarray(a, dtype=float)
    if not F.sym:
        return a.copy()
    out = np.empty(a.shape, dtype=object)
    for i in np.ndindex(*a.shape):
        out[i] = Sym.of(float(a[i]))
    return out


def eye(F, n):
    return np.eye(n).astype(object) if F.sym else np.eye(n)


def zeros(F, shape):
    return np.zeros(shape).astype(object) if F.sym else np.zeros(shape)


def nonzero(F, x):
    F.assume(F.not_(F.eq(x, 0)))


def det(a):
    n = a.shape[0]
    if n == 1:
        return a[0, 0]
    if n == 2:
        return a[0, 0] * a[1, 1] - a[0, 1] * a[1, 0]
    s = 0
    for j in range(n):
        minor = np.delete(a[1:], j, 1)
        s = s + ((-1) ** j) * a[0, j] * det(minor)
    return s


def rot2(F, tag):
    """every 2-D rotation except the half turn: c=(a^2-b^2)/(a^2+b^2), s=2ab/(a^2+b^2)"""
    a = F.real(tag + "_ra", -4, 4)
    b = F.real(tag + "_rb", -4, 4)
    n = a * a + b * b
    F.assume(n >= 0.01)
    c = (a * a - b * b) / n
    s = (2 * a * b) / n
    return arr(F, [[c, -s], [s, c]])


def rot3(F, tag):
    """every 3-D rotation: quaternion matrix / |q|^2"""
    w, x, y, z = [F.real(tag + "_q" + k, -4, 4) for k in "wxyz"]
    n = w * w + x * x + y * y + z * z
    F.assume(n >= 0.01)
    M = arr(F, [[n - 2 * (y * y + z * z), 2 * (x * y - z * w), 2 * (x * z + y * w)],
                [2 * (x * y + z * w), n - 2 * (x * x + z * z), 2 * (y * z - x * w)],
                [2 * (x * z - y * w), 2 * (y * z + x * w), n - 2 * (x * x + y * y)]])
    return M * (1 / n)


def rot(F, tag, n):
    return rot2(F, tag) if n == 2 else rot3(F, tag)


def linear_of(F, kind, tag, n):
    """(linear part, translation) of an arbitrary valid member of `kind`"""
    I = eye(F, n)
    z = zeros(F, (n,))
    if kind in ("Translation", "AlignmentTranslation"):
        return I, F.reals(tag + "_t", (n,))
    if kind in ("UniformScale", "AlignmentUniformScale"):
        s = F.real(tag + "_s", -4, 4)
        F.assume(F.or_(s >= 0.05, s <= -0.05))
        return I * s, z
    if kind == "NonUniformScale":
        s = F.reals(tag + "_s", (n,), -4, 4)
        for v in s:
            F.assume(F.or_(v >= 0.05, v <= -0.05))
        L = zeros(F, (n, n))
        for i in range(n):
            L[i, i] = s[i]
        return L, z
    if kind in ("Rotation", "AlignmentRotation"):
        return rot(F, tag, n), z
    if kind in ("Similarity", "AlignmentSimilarity"):
        k = F.real(tag + "_k", 0.05, 4)
        return rot(F, tag, n) * k, F.reals(tag + "_t", (n,))
    if kind in ("Affine", "AlignmentAffine", "Homogeneous"):
        A = F.reals(tag + "_A", (n, n), -4, 4)
        d = det(A)
        F.assume(F.or_(d >= 0.05, d <= -0.05))
        return A, F.reals(tag + "_t", (n,))
    raise KeyError(kind)


def h_of(F, L, t):
    n = L.shape[0]
    h = eye(F, n + 1)
    h[:n, :n] = L
    h[:n, n] = t
    return h


def mk_transform(F, kind, tag, n, n_pts=3):
    """an arbitrary valid member of the homogeneous-family class `kind`.
    Alignment variants: state set directly (arbitrary valid state: target = T(source))."""
    import menpo.transform as mt
    from menpo.shape import PointCloud

    L, t = linear_of(F, kind, tag, n)
    h = h_of(F, L, t)
    cls = getattr(mt, kind)
    if kind == "Homogeneous":
        # a genuinely projective member: bottom row symbolic, w kept away from zero by the caller
        return mt.Homogeneous(h, copy=False, skip_checks=True) if not F.cfg.get("projective") else _proj(F, h, tag, n)
    if kind in ("Affine", "Similarity"):
        return cls(h, copy=False, skip_checks=True)
    if kind == "Rotation":
        return mt.Rotation(L, skip_checks=True)
    if kind == "Translation":
        return mt.Translation(t, skip_checks=True)
    if kind == "UniformScale":
        return mt.UniformScale(L[0, 0], n, skip_checks=True)
    if kind == "NonUniformScale":
        return mt.NonUniformScale(np.array([L[i, i] for i in range(n)], dtype=L.dtype), skip_checks=True)
    # alignment variants
    obj = cls.__new__(cls)
    src = F.reals(tag + "_src", (n_pts, n))
    tgt = src.dot(L.T) + t
    obj._source = PointCloud(src, copy=False)
    obj._target = PointCloud(tgt, copy=False)
    obj._h_matrix = h
    if kind in ("AlignmentSimilarity", "AlignmentRotation"):
        obj.allow_mirror = False
    return obj


def _proj(F, h, tag, n):
    import menpo.transform as mt

    h[n, :n] = F.reals(tag + "_p", (n,), -1, 1)
    return mt.Homogeneous(h, copy=False, skip_checks=True)


# ---------------------------------------------------------------- honesty predicates
def honest(F, ob, name, t):
    """the class predicate of type(t) holds of t.h_matrix"""
    import menpo.transform as mt

    h = t.h_matrix
    n = h.shape[0] - 1
    L, tr = h[:n, :n], h[:n, n]
    I = np.eye(n)
    if isinstance(t, mt.Affine):
        ob.eq(name + ".bottom", h[n, :], np.array([0.0] * n + [1.0]))
    if isinstance(t, mt.Translation):
        ob.eq(name + ".lin=I", L, I)
    elif isinstance(t, mt.UniformScale):
        ob.eq(name + ".lin=sI", L, I * L[0, 0])
        ob.eq(name + ".t=0", tr, np.zeros(n))
    elif isinstance(t, mt.NonUniformScale):
        ob.eq(name + ".diag", L * (1 - I), np.zeros((n, n)))
        ob.eq(name + ".t=0", tr, np.zeros(n))
    elif isinstance(t, mt.Rotation):
        ob.eq(name + ".RtR=I", L.T.dot(L), I)
        ob.eq(name + ".t=0", tr, np.zeros(n))
    elif isinstance(t, mt.Similarity):
        G = L.T.dot(L)
        # k = G[0,0] is a sum of squares (>= 0); k != 0 follows from the separate determinant
        # obligation of the caller (det != 0), so k > 0 needs no query of its own
        ob.eq(name + ".AtA=kI", G, I * G[0, 0])


def pointcloud(F, tag, n_pts, n):
    from menpo.shape import PointCloud

    return PointCloud(F.reals(tag, (n_pts, n)), copy=False)


def snapshot(a):
    """element list of an array (terms or floats) for later identity comparison"""
    return [x for x in np.asarray(a, dtype=object).ravel()], np.shape(a)


def same_terms(F, ob, name, snap, a):
    els, shp = snap
    if np.shape(a) != shp:
        ob.fail(name + ".shape", "%s vs %s" % (np.shape(a), shp))
        return
    ob.eq(name, np.asarray(a, dtype=object if F.sym else float).ravel(),
          np.array(els, dtype=object if F.sym else float))
