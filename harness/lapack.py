"""Contract stubs for LAPACK calls on symbolic input (symbolic mode only).

svd2: complete parametrisation of the 2x2 SVD: U, Vt in O(2) (rotation or
reflection built from a point on the unit circle, reflection flag forked),
d1 >= d2 >= 0, U diag(d) Vt == A.  Every SVD of A is an instance."""
import numpy as np
import z3

from symx import core, npproxy
from symx.core import Sym, SymB


def _orth2(tag, refl):
    c = core.ctx()
    cc, ss = c.fresh_real(tag + "c"), c.fresh_real(tag + "s")
    c.defined.append(cc * cc + ss * ss == 1)
    e = -1 if refl else 1
    return np.array([[Sym.var(cc), Sym.var(ss) * (-e)], [Sym.var(ss), Sym.var(cc) * e]], dtype=object)


def svd2(a, full_matrices=True, compute_uv=True, **k):
    a = core.O(a)
    if a.shape != (2, 2):
        raise core.Unsupported("symbolic svd only for 2x2 (got %s)" % (a.shape,))
    c = core.ctx()
    ru = bool(SymB(c.fresh_bool("svd_ru")))
    rv = bool(SymB(c.fresh_bool("svd_rv")))
    U, Vt = _orth2("svdu", ru), _orth2("svdv", rv)
    d = [c.fresh_real("svd_d"), c.fresh_real("svd_d")]
    c.defined += [d[0] >= d[1], d[1] >= 0]
    D = np.array([Sym.var(d[0]), Sym.var(d[1])], dtype=object)
    rec = U.dot(np.diag(D)).dot(Vt)
    for i in np.ndindex(2, 2):
        c.defined.append(core.eqz(rec[i], a[i]))
    c.memo["svd_D"] = D
    if not compute_uv:
        return D
    return U, D, Vt


def install_svd2(F):
    npproxy.NP.stubs["linalg.svd"] = svd2


# ---------------------------------------------------------------- scipy cdist / log
def cdist_sym(a, b, metric="euclidean", **kw):
    """scipy.spatial.distance.cdist on symbolic input: pairwise sqrt of sums of squares"""
    import scipy.spatial.distance as ssd

    if not core.has_sym(a, b):
        r = ssd.cdist(npproxy._defloat(np.asarray(a)), npproxy._defloat(np.asarray(b)), metric, **kw)
        return r.astype(object)
    if metric != "euclidean" or kw:
        raise core.Unsupported("cdist metric %r on symbolic input" % (metric,))
    a, b = core.O(a), core.O(b)
    out = np.empty((a.shape[0], b.shape[0]), dtype=object)
    for i in range(a.shape[0]):
        for j in range(b.shape[0]):
            s = 0
            for k in range(a.shape[1]):
                d = a[i, k] - b[j, k]
                s = s + d * d
            out[i, j] = s.sqrt() if isinstance(s, Sym) else float(np.sqrt(float(s)))
    return out


_LOG = z3.Function("log", z3.RealSort(), z3.RealSort())


def log_sym(x):
    """np.log on symbolic input: an uninterpreted function (the properties never depend on its values)"""
    def one(v):
        if isinstance(v, Sym):
            return Sym.var(_LOG(v.t))
        v = float(v)
        return float(np.log(v)) if v > 0 else (-np.inf if v == 0 else np.nan)
    return npproxy.elementwise(one)(x)


def install_cdist(F, *modules):
    """replace module-level `cdist` (imported by name) in the given menpo modules"""
    for m in modules:
        F.patch(m, "cdist", cdist_sym)


def install_log(F):
    npproxy.NP.stubs["log"] = log_sym
