"""Contract stubs for LAPACK calls on symbolic input (symbolic mode only).

svd2: complete parametrisation of the 2x2 SVD: U, Vt in O(2) (rotation or
reflection built from a point on the unit circle, reflection flag forked),
d1 >= d2 >= 0, U diag(d) Vt == A.  Every SVD of A is an instance."""
import numpy as np
import z3

from symx import core, npproxy
from symx.core import Sym, SymB


def _orth2(tag, refl):
    c = core.ctx()
    cc, ss = c.fresh_real(tag + "c"), c.fresh_real(tag + "s")
    c.defined.append(cc * cc + ss * ss == 1)
    e = -1 if refl else 1
    return np.array([[Sym.var(cc), Sym.var(ss) * (-e)], [Sym.var(ss), Sym.var(cc) * e]], dtype=object)


def svd2(a, full_matrices=True, compute_uv=True, **k):
    a = core.O(a)
    if a.shape != (2, 2):
        raise core.Unsupported("symbolic svd only for 2x2 (got %s)" % (a.shape,))
    c = core.ctx()
    ru = bool(SymB(c.fresh_bool("svd_ru")))
    rv = bool(SymB(c.fresh_bool("svd_rv")))
    U, Vt = _orth2("svdu", ru), _orth2("svdv", rv)
    d = [c.fresh_real("svd_d"), c.fresh_real("svd_d")]
    c.defined += [d[0] >= d[1], d[1] >= 0]
    D = np.array([Sym.var(d[0]), Sym.var(d[1])], dtype=object)
    rec = U.dot(np.diag(D)).dot(Vt)
    for i in np.ndindex(2, 2):
        c.defined.append(core.eqz(rec[i], a[i]))
    c.memo["svd_D"] = D
    if not compute_uv:
        return D
    return U, D, Vt


def install_svd2(F):
    npproxy.NP.stubs["linalg.svd"] = svd2


# ---------------------------------------------------------------- scipy cdist / log
def cdist_sym(a, b, metric="euclidean", **kw):
    """scipy.spatial.distance.cdist on symbolic input: pairwise sqrt of sums of squares"""
    import scipy.spatial.distance as ssd

    if not core.has_sym(a, b):
        r = ssd.cdist(npproxy._defloat(np.asarray(a)), npproxy._defloat(np.asarray(b)), metric, **kw)
        return r.astype(object)
    if metric != "euclidean" or kw:
        raise core.Unsupported("cdist metric %r on symbolic input" % (metric,))
    a, b = core.O(a), core.O(b)
    out = np.empty((a.shape[0], b.shape[0]), dtype=object)
    for i in range(a.shape[0]):
        for j in range(b.shape[0]):
            s = 0
            for k in range(a.shape[1]):
                d = a[i, k] - b[j, k]
                s = s + d * d
            out[i, j] = s.sqrt() if isinstance(s, Sym) else float(np.sqrt(float(s)))
    return out


_LOG = z3.Function("log", z3.RealSort(), z3.RealSort())


def log_sym(x):
    """np.log on symbolic input: an uninterpreted function (the properties never depend on its values)"""
    def one(v):
        if isinstance(v, Sym):
            return Sym.var(_LOG(v.t))
        v = float(v)
        return float(np.log(v)) if v > 0 else (-np.inf if v == 0 else np.nan)
    return npproxy.elementwise(one)(x)


def install_cdist(F, *modules):
    """replace module-level `cdist` (imported by name) in the given menpo modules"""
    for m in modules:
        F.patch(m, "cdist", cdist_sym)


def install_log(F):
    npproxy.NP.stubs["log"] = log_sym


# ---------------------------------------------------------------- optimal_rotation_matrix as an opaque, memoised contract
def _key(a):
    out = []
    for v in np.asarray(a, dtype=object).ravel():
        if isinstance(v, Sym):
            out.append((tuple(sorted(v.n.t.items())), None if v.d is None else tuple(sorted(v.d.t.items()))))
        else:
            out.append(("c", core.lift0(v)))
    return tuple(out)


def install_rotation_oracle(F, log, optimal=False, rational=False):
    """Replace menpo's optimal_rotation_matrix by an interception wrapper.
    symbolic mode: returns an ARBITRARY orthogonal matrix (2-D: point on the unit circle, reflection allowed
    only when allow_mirror) that is a function of its arguments (memoised on the argument terms);
    concrete mode: logs the arguments and calls the real function."""
    import menpo.transform.homogeneous.rotation as hr

    real = hr.optimal_rotation_matrix

    def wrapper(source, target, allow_mirror=False):
        log.append({"source": source.points, "target": target.points, "allow_mirror": allow_mirror})
        if not F.sym:
            return real(source, target, allow_mirror=allow_mirror)
        n = source.points.shape[1]
        if n != 2:
            raise core.Unsupported("rotation oracle only in 2-D")
        c = core.ctx()
        key = ("orm", _key(source.points), _key(target.points), bool(allow_mirror))
        if key in c.memo:
            return c.memo[key].copy()
        if rational:
            # every rotation except the half turn, without a side constraint (lets the concolic seeding pick
            # a value): c=(1-m^2)/(1+m^2), s=2m/(1+m^2)
            m = Sym.var(c.fresh_free_real("orm_m", -4, 4))
            den = m * m + 1
            cc, ss = (1 - m * m) / den, (2 * m) / den
        else:
            # every rotation: a point on the unit circle
            zc, zs = c.fresh_real("orm_c"), c.fresh_real("orm_s")
            c.defined.append(zc * zc + zs * zs == 1)
            cc, ss = Sym.var(zc), Sym.var(zs)
        refl = bool(SymB(c.fresh_bool("orm_refl"))) if allow_mirror else False
        e = -1 if refl else 1
        R = np.array([[cc, ss * (-e)], [ss, cc * e]], dtype=object)
        if optimal and not allow_mirror:
            # contract proved by harness c07.rotation2d(reduced): the result satisfies the closed-form
            # optimality conditions for the correlation matrix target^T source
            C = core.O(target.points).T.dot(core.O(source.points))
            A = C[0, 0] + C[1, 1]
            B = C[1, 0] - C[0, 1]
            c.defined.append(core.eqz(R[0, 0] * B - R[1, 0] * A, 0))
            c.defined.append(Sym.of(R[0, 0] * A + R[1, 0] * B).sign_term("ge"))
        c.memo[key] = R
        return R.copy()

    F.patch(hr, "optimal_rotation_matrix", wrapper)
    return wrapper


def install_svd2_memo(F):
    """svd2 memoised on the argument terms (equal computations give identical terms)"""
    def svd_m(a, **k):
        c = core.ctx()
        key = ("svd2", _key(a), tuple(sorted(k.items())))
        if key not in c.memo:
            c.memo[key] = svd2(a, **k)
        r = c.memo[key]
        return tuple(x.copy() for x in r) if isinstance(r, tuple) else r.copy()

    npproxy.NP.stubs["linalg.svd"] = svd_m
