"""C09 -- apply() is pure: no history, aliasing or batch-size effects."""
import numpy as np

from harness import common as K

META = {
    "explanation": "C09: (history) for each transform class two or three successive apply() calls on symbolic "
    "arrays, optionally re-using and overwriting in place the array passed earlier, must return exactly what a "
    "freshly built identical transform returns for the final values -- menpo's np.allclose cache test is modelled "
    "as the real inequality it is, so the solver searches for inputs that are within tolerance yet different; "
    "(batching) every batch size from 1 to n+2 gives termwise the result of batch_size=None, through the generic "
    "Transform._apply_batched and the PiecewiseAffine override; (containment) with unconstrained symbolic points "
    "against 1-2 concrete triangles every inside/outside pattern is explored as a solver path and the error mask "
    "must equal the pattern, once per input point, for every batch size; pwa_point_in_pointcloud returns its negation.",
    "bounds": ["1-3 symbolic points per call (batching: n<=4)", "PWA: 1-2 concrete triangles (exact constants)",
               "batch sizes 1..n+2", "histories of 2-3 calls", "points boxed to [-8,8]"],
    "stubs": ["numpy.allclose/isclose -> exact real inequality |a-b| <= atol + rtol*|b|",
              "TPS: kernel/SVD on concrete landmarks run in real LAPACK (batching harness, tolerance-free: identical terms)"],
    "assumptions": ["floats are modelled as exact reals; replay compares float results bit for bit"],
    "not_covered": ["histories longer than 3 calls (the cache holds one entry, so 2 calls suffice to expose it)",
                    "more than 2 triangles"],
    "trusted": ["edge-sign containment oracle in the harness (independent of alpha/beta)"],
}

def MARG(F):
    # points stay clear of triangle borders; the replay uses a slightly smaller margin than the solver
    return 0.002 if F.sym else 0.0015


TRI_S = [[0.0, 0.0], [2.0, 0.5], [0.5, 2.0], [2.5, 2.5]]
TRI_T = [[0.25, -0.25], [2.5, 1.0], [0.0, 2.25], [3.0, 2.75]]
TRILIST = [[0, 1, 2], [1, 3, 2]]


def instances(tier):
    out = []
    kinds = ["Affine", "Homogeneous", "Similarity", "Translation", "UniformScale", "NonUniformScale",
             "Rotation", "AlignmentAffine"]
    for k in (kinds if tier != "quick" else ["Affine", "Homogeneous", "Translation", "AlignmentAffine"]):
        out.append(("history", {"kind": k, "calls": 2, "npts": 1}))
    for calls in (2, 3):
        for tris in (1, 2):
            if tier == "quick" and calls == 3 and tris == 2:
                continue
            out.append(("history", {"kind": "PWA", "calls": calls, "npts": 1, "tris": tris}))
    out.append(("history", {"kind": "PWA", "calls": 2, "npts": 2, "tris": 1}))
    out.append(("history", {"kind": "PWA", "calls": 2, "npts": 1, "tris": 1, "free": True}))
    if tier != "quick":
        out.append(("history", {"kind": "PWA", "calls": 3, "npts": 1, "tris": 1, "free": True}, {"max_paths": 40000, "max_s": 3000}))
    if tier != "quick":
        out.append(("history", {"kind": "PWA", "calls": 2, "npts": 2, "tris": 1, "free": True}, {"max_paths": 40000, "max_s": 3000}))
    for k in ("Affine", "Translation", "Homogeneous"):
        out.append(("batching_int", {"kind": k}))
    out.append(("history", {"kind": "TPS", "calls": 2, "npts": 1}))
    out.append(("history", {"kind": "Chain", "calls": 2, "npts": 1}))
    out.append(("history_shape", {"tris": 1}))
    for k in ["Affine", "Homogeneous", "Chain"]:
        for n in ((3,) if tier == "quick" else (1, 2, 3, 4)):
            out.append(("batching", {"kind": k, "n": n}))
    if tier != "quick":
        out.append(("batching", {"kind": "TPS", "n": 2}))
    out.append(("batching", {"kind": "PWA", "n": 2, "tris": 2}))
    for tris in (1, 2):
        for n in ((2,) if tier == "quick" else (1, 2)):
            out.append(("containment", {"tris": tris, "n": n}))
    if tier != "quick":
        out.append(("containment", {"tris": 1, "n": 3}, {"max_paths": 40000, "max_s": 3000}))
    out.append(("point_in_pointcloud", {"n": 2}))
    return out


def _pwa(F, tris, cls=None):
    from menpo.shape import PointCloud, TriMesh
    from menpo.transform import PiecewiseAffine

    src = K.const(F, TRI_S[: 2 + tris])
    tgt = K.const(F, TRI_T[: 2 + tris])
    return (cls or PiecewiseAffine)(TriMesh(src, np.array(TRILIST[:tris]), copy=False), PointCloud(tgt, copy=False))


TPS_SRC = [[0, 0], [1, 0.1], [0.2, 1], [1.3, 1.2], [0.5, 0.4]]
TPS_TGT = [[0.1, 0], [1.2, 0.3], [0.1, 1.1], [1.5, 1.0], [0.4, 0.6]]


def _tps(F):
    from menpo.shape import PointCloud
    from menpo.transform import ThinPlateSplines

    if F.sym:
        import menpo.transform.rbf as rbf
        from harness import lapack

        lapack.install_cdist(F, rbf)
        lapack.install_log(F)

    return ThinPlateSplines(PointCloud(np.array(TPS_SRC, dtype=float)), PointCloud(np.array(TPS_TGT, dtype=float)))


def _make(F, cfg, tag="a"):
    import menpo.transform as mt

    k = cfg["kind"]
    if k == "PWA":
        return _pwa(F, cfg["tris"])
    if k == "TPS":
        return _tps(F)
    if k == "Chain":
        return mt.TransformChain([K.mk_transform(F, "Affine", tag + "0", 2), K.mk_transform(F, "Translation", tag + "1", 2)])
    return K.mk_transform(F, k, tag, 2)


def _inside_pts(F, tag, npts, tris):
    """symbolic points inside the PWA domain (barycentric parametrisation of triangle 0 or 1)"""
    pts = []
    S = K.const(F, TRI_S)
    for i in range(npts):
        k = F.choice("%s_tri%d" % (tag, i), list(range(tris)))
        u = F.real("%s_u%d" % (tag, i), 0, 1)
        v = F.real("%s_v%d" % (tag, i), 0, 1)
        F.assume(F.and_(u > 0, v > 0, u + v < 1))
        tri = TRILIST[k]
        pts.append(list(S[tri[0]] + (S[tri[1]] - S[tri[0]]) * u + (S[tri[2]] - S[tri[0]]) * v))
    return np.array(pts, dtype=object if F.sym else float)


def _call(t, x, **kw):
    """outcome of one apply: ('ok', result) or ('err', mask of points outside the domain)"""
    from menpo.transform.piecewiseaffine import TriangleContainmentError

    try:
        return "ok", t.apply(x, **kw)
    except TriangleContainmentError as e:
        return "err", np.asarray(e.points_outside_source_domain)


def _same_outcome(ob, name, got, want):
    ob.true(name + ".kind", got[0] == want[0])
    if got[0] != want[0]:
        return
    if got[0] == "ok":
        ob.same(name, got[1], want[1])
    else:
        ob.true(name + ".mask", got[1].shape == want[1].shape and bool(np.array_equal(got[1], want[1])))


def history(F, ob, cfg):
    """the last result of a call history equals what a fresh identical transform returns"""
    t = _make(F, cfg)
    calls, npts = cfg["calls"], cfg["npts"]
    xs = []
    for c in range(calls):
        if cfg["kind"] == "PWA" and cfg.get("free"):
            # anywhere around the mesh: calls may fail with a containment error, and must keep failing
            # (or succeeding) exactly as a fresh transform would
            xs.append(F.reals("x%d" % c, (npts, 2), -1, 4))
        elif cfg["kind"] == "PWA":
            xs.append(_inside_pts(F, "x%d" % c, npts, cfg["tris"]))
        else:
            xs.append(F.reals("x%d" % c, (npts, 2), -3, 3))
            if cfg["kind"] == "TPS":
                _off_centres(F, xs[-1])
    # two successive inputs may differ by less than any fixed tolerance -- or be equal; nothing is assumed
    buf = xs[0].copy()
    _same_outcome(ob, "call0", _call(t, buf), _call(_make(F, cfg), xs[0].copy()))
    for c in range(1, calls):
        reuse = F.bool("reuse%d" % c)
        if reuse:
            buf[...] = xs[c]  # overwrite in place the array that was passed before
            arg = buf
        else:
            arg = xs[c].copy()
            buf = arg
        _same_outcome(ob, "call%d" % c, _call(t, arg), _call(_make(F, cfg), xs[c].copy()))
        ob.same("call%d.input_untouched" % c, arg, xs[c])


def history_shape(F, ob, cfg):
    """same through shapes: apply(PointCloud) twice with the cloud edited in between"""
    from menpo.shape import PointCloud

    t = _pwa(F, cfg["tris"])
    x0 = _inside_pts(F, "x0", 1, cfg["tris"])
    x1 = _inside_pts(F, "x1", 1, cfg["tris"])
    pc = PointCloud(x0.copy(), copy=False)
    r0 = t.apply(pc)
    ob.same("shape.call0", r0.points, _pwa(F, cfg["tris"]).apply(x0.copy()))
    pc.points[...] = x1
    r1 = t.apply(pc)
    ob.same("shape.call1", r1.points, _pwa(F, cfg["tris"]).apply(x1.copy()))
    ob.same("shape.first_result_kept", r0.points, _pwa(F, cfg["tris"]).apply(x0.copy()))


def _off_centres(F, x):
    """TPS query points are kept off the kernel centres (the kernel's r == 0 special case is not the subject)"""
    for p in x:
        for c in TPS_SRC:
            F.assume((p[0] - c[0]) * (p[0] - c[0]) + (p[1] - c[1]) * (p[1] - c[1]) >= 0.01)


def batching(F, ob, cfg):
    n = cfg["n"]
    t = _make(F, cfg)
    if cfg["kind"] == "PWA":
        x = _inside_pts(F, "x", n, cfg["tris"])
    else:
        x = F.reals("x", (n, 2), -3, 3)
    if cfg["kind"] == "TPS":
        _off_centres(F, x)
    ref = t.apply(x.copy())
    bs = F.choice("batch", list(range(1, n + 3)))
    y = t.apply(x.copy(), batch_size=bs)
    # same terms symbolically; replay allows rounding noise (BLAS may block differently per batch shape)
    ob.eq("batched=unbatched", y, ref)
    ob.true("shape", np.shape(y) == (n, 2))


def batching_int(F, ob, cfg):
    """integer-typed coordinate arrays (pixel indices) with symbolic transform parameters"""
    t = _make(F, cfg)
    x = np.array([[0, 1], [2, 3], [1, 1], [4, 0]], dtype=np.int64)
    ref = t.apply(x.copy())
    bs = F.choice("batch", [1, 2, 3, 4, 5])
    y = t.apply(x.copy(), batch_size=bs)
    ob.eq("int.batched=unbatched", y, ref)
    ob.eq("int.unbatched=float", ref, t.apply(x.astype(float)))


def _inside_oracle(F, p, tri_pts):
    """independent containment test: p is inside (or on the border of) triangle (a,b,c), positively oriented,
    iff the three edge cross products are all >= 0"""
    a, b, c = tri_pts
    def cr(u, v, w):
        return (v[0] - u[0]) * (w[1] - u[1]) - (v[1] - u[1]) * (w[0] - u[0])
    return F.and_(cr(a, b, p) >= 0, cr(b, c, p) >= 0, cr(c, a, p) >= 0)


def containment(F, ob, cfg):
    from menpo.transform.piecewiseaffine import TriangleContainmentError

    tris, n = cfg["tris"], cfg["n"]
    t = _pwa(F, tris)
    x = F.reals("x", (n, 2), -1, 4)
    S = K.const(F, TRI_S)
    # keep points off the triangle borders by a margin so that float replay sees the same pattern
    inside = []
    for i in range(n):
        ins = False
        for k in range(tris):
            tri = [S[j] for j in TRILIST[k]]
            # fork: is point i inside triangle k? (oracle decides the pattern, path by path)
            c = bool(_inside_oracle(F, x[i], tri))
            ins = ins or c
        inside.append(ins)
    for i in range(n):
        for k in range(tris):
            tri = [S[j] for j in TRILIST[k]]
            for (u, v) in ((tri[0], tri[1]), (tri[1], tri[2]), (tri[2], tri[0])):
                cr = (v[0] - u[0]) * (x[i][1] - u[1]) - (v[1] - u[1]) * (x[i][0] - u[0])
                F.assume(F.or_(cr >= MARG(F), cr <= -MARG(F)))
    outside = np.array([not b for b in inside])
    bs = F.choice("batch", [None] + list(range(1, n + 2)))
    try:
        y = t.apply(x.copy(), batch_size=bs)
        ob.true("no_error_iff_all_inside", not outside.any())
        ob.true("shape", np.shape(y) == (n, 2))
    except TriangleContainmentError as e:
        m = np.asarray(e.points_outside_source_domain)
        ob.true("error_iff_some_outside", bool(outside.any()))
        ob.true("mask.length", m.shape == (n,))
        if m.shape == (n,):
            ob.true("mask.pattern", bool(np.array_equal(m.astype(bool), outside)))


def point_in_pointcloud(F, ob, cfg):
    """pwa_point_in_pointcloud is the negation of the error mask (single triangle, Delaunay is trivial)"""
    from menpo.image.boolean import pwa_point_in_pointcloud
    from menpo.shape import PointCloud

    n = cfg["n"]
    S = np.array(TRI_S[:3], dtype=float)
    x = F.reals("x", (n, 2), -1, 4)
    Sc = K.const(F, TRI_S[:3])
    inside = []
    for i in range(n):
        inside.append(bool(_inside_oracle(F, x[i], [Sc[0], Sc[1], Sc[2]])))
        for (u, v) in ((Sc[0], Sc[1]), (Sc[1], Sc[2]), (Sc[2], Sc[0])):
            cr = (v[0] - u[0]) * (x[i][1] - u[1]) - (v[1] - u[1]) * (x[i][0] - u[0])
            F.assume(F.or_(cr >= MARG(F), cr <= -MARG(F)))
    bs = F.choice("batch", [None, 1, 2, 3])
    m = pwa_point_in_pointcloud(PointCloud(S), x.copy(), batch_size=bs)
    ob.true("length", np.shape(m) == (n,))
    if np.shape(m) == (n,):
        ob.true("pattern", bool(np.array_equal(np.asarray(m, dtype=bool), np.array(inside))))
