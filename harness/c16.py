"""C16 -- export then import returns the same data; files are never clobbered unasked.

Four groups of harnesses (see META for what is proved and what is left out):

* px_*      : menpo's pixel range kernels normalize_pixels_range / denormalize_pixels_range run on arrays whose
              elements are z3 bit-vector / IEEE-754 terms (FP mode: RNE arithmetic, C-style truncating casts), so the
              solver decides the round trips bit-precisely -- real arithmetic would be the wrong model here.
* overwrite / history / bad_extension : the exporter entry points run for real on a private temporary directory; the
              state of the world (file exists, overwrite flag, spelling of the path, kind of `fp`, extension argument,
              a history of up to three exports) is enumerated by solver forks.
* ljson / pts : the landmark exporters and importers run on symbolic coordinates (with a NaN pattern chosen by fork)
              around codec models: the JSON text layer is replaced by its contract, `savetxt('%.3f')` + parsing by
              "each number moves by at most 0.0005".  The same harnesses run with concrete data through the real codecs.
* pickle_roundtrip / image_roundtrip : concrete end-to-end runs through the real pickle / gzip / PNG codecs.

Developer self test: `C16_SELFTEST=1 ./check C16 --no-evidence` replaces the instance list by SELFTEST: every instance
patches a plausible bug into menpo (cfg flag "selftest_mutant") and must be reported as a VIOLATION; instances with
"selftest_fixed" patch a repaired kernel and must pass.
"""
import gzip
import io
import itertools
import math
import os
import shutil
import struct
import tempfile
from collections import OrderedDict
from pathlib import Path

import numpy as np
import z3

from harness import common as K
from symx import core, npproxy
from symx.core import Sym, SymB

META = {
    "explanation": "C16: (pixel kernels, FP mode) normalize_pixels_range and denormalize_pixels_range are executed on "
    "arrays of z3 terms: an 8/16-bit pixel is a bit-vector variable, a float pixel an IEEE-754 Float64/Float32 "
    "variable (any bit pattern but NaN), `*` is RNE floating-point multiplication, astype(uint) the truncating C cast. "
    "Decided for EVERY value: denorm(norm(x)) = x for all 8-bit x (16-bit: exhaustive enumeration through the real "
    "kernels in the quick tier, one solver query in the thorough tier), norm(x) in [0,1], 0 and the maximum map to 0.0 "
    "and 1.0 only; |norm(denorm(p)) - p| < 1/255 for every float64 (thorough: float32) p in [0,1] by solver, and for "
    "8 and 16 bits by checking both ends of every quantisation cell (found by bisection through the real kernel); "
    "denormalisation raises ValueError exactly when some pixel is outside [0,1] (2-3 symbolic pixels incl. infinities "
    "and -0.0) and sends 0.0 / 1.0 to 0 / max; dtype dispatch rules on concrete arrays.  (overwrite protocol) "
    "export_image / export_landmark_file (.ljson, .pts) / export_pickle (.pkl, .pkl.gz) / export_video (ffmpeg stubbed) "
    "run for real in a private temporary directory with fp given as str, Path, named file object or anonymous buffer, "
    "absolute or relative spelling, multi-dot file names, the extension argument absent / None / matching in three "
    "spellings, overwrite given or left to its default, and the booleans 'file exists' and 'overwrite' chosen by solver "
    "fork: exists and not overwrite => OverwriteError (a ValueError carrying the normalised path), the file is "
    "byte-for-byte intact, the exporter was not called, nothing else was created, a handle is untouched; otherwise the "
    "exporter is called exactly once with a handle on exactly the target, which afterwards holds exactly the bytes an "
    "export into a buffer produces, and no other file appears; named handles are written through the handle; handles "
    "without an extension are refused; a wrong / unknown / missing suffix, a mismatching extension argument and a dict "
    "of shapes sent to .pts are refused with ValueError before anything is touched; histories of three exports of three "
    "different objects to the same path (str and Path, absolute and relative) with independent overwrite flags leave "
    "the file holding the last permitted export, which imports back as that object.  (landmark formats) LJSON: "
    "LandmarkManager / dict / single labelled graph / graph / graph without edges / point cloud / triangle mesh with "
    "symbolic coordinates in 2-D and 3-D and a NaN pattern chosen by fork are exported and imported around a "
    "JSON-contract model: coordinates termwise identical, NaN pattern identical, same undirected edge set, same labels "
    "in the same order with the same masks (one label non-ASCII), same set of group names (one non-ASCII, one with "
    "dots), the exported object untouched; PTS: for each of the 8 shape classes every coordinate comes back within "
    "0.0005 after the axis swap and +-1 offsets, header / footer / line count of the text as specified.  The same "
    "harnesses with concrete extreme coordinates (1e300, 5e-324, -0.0, 1/3, ...) run through the real json / savetxt "
    "text layers, the real file system and import_landmark_file (group= selection, recorded path, strict JSON without "
    "NaN literals).  (pickle, images; concrete runs through the real codecs) 8 shape classes with NaN coordinates and "
    "landmark groups, 5 image kinds, 13 transforms, 4 statistical models, a LandmarkManager and a container holding "
    "pathlib paths survive export_pickle / import_pickle (plain and gzip, str and Path, protocols 2 and 4, thorough "
    "0-5) with equal deep state apart from `path`, the pathlib pickling hook is restored, a second export without "
    "overwrite is refused and leaves the bytes intact; 8-bit images (all 256 values, 1 and 3 channels) survive PNG "
    "(thorough: BMP, TIFF) export / import(normalize=False) / re-export byte for byte, the normalised import equals "
    "x*(1/255) and moves by less than one level on export + re-import, landmark files next to an image are attached.",
    "bounds": ["pixel kernels: 1 symbolic pixel per query (range check: 2, thorough 3), uint8 / uint16, float64 / float32",
               "overwrite: one target file per run, histories of 3 exports, spellings absolute / relative (thorough: "
               "$VAR and ~ spellings, upper-case names), file names with 2-3 dots",
               "ljson/pts: 3-4 points, 2-D/3-D, 0-3 edges, 3 labels, 1-3 groups; coordinates in [-8,8]; "
               "NaN patterns: none, one coordinate, one whole point, last column, all",
               "pickle/image round trips: the listed concrete objects; lossless image formats only"],
    "stubs": ["FPArr (harness/c16.py): ndarray stand-in over z3 FP / bit-vector terms -- `*`,`/`,`+`,`-` with a scalar are "
              "IEEE RNE operations in the numpy result dtype, astype(float->uint) is fp.to_ubv with RTZ, uint->float is exact, "
              "min/max by fp comparison, rint/round/floor/ceil/trunc are fp.roundToIntegral, clip by comparison",
              "json.dump / json.load (symbolic ljson only) -> contract model: the document is the JSON value itself (tuples "
              "become lists, keys sorted, non-finite floats refused under allow_nan=False, non-JSON types refused)",
              "numpy.savetxt (symbolic pts only) -> each number is replaced by an arbitrary value within 0.0005; the "
              "importer's text parsing sees number tokens carrying those values (np.array of tokens -> their values)",
              "ffmpeg_video_exporter -> stub that writes a marker file at the path it is given",
              "the file system is REAL (private temporary directory) in both the symbolic and the replay instantiation; "
              "'exists' and 'overwrite' are solver-forked booleans realised in that directory",
              "concrete harnesses (overwrite, history, bad_extension, pickle_roundtrip, image_roundtrip, *concrete) run "
              "menpo on real numpy (the np proxy is switched off for their duration)"],
    "assumptions": ["float pixels are not NaN", "float->text->float of Python's json module and '%.3f' formatting are "
                    "trusted in the symbolic ljson/pts harnesses (exercised for real in the concrete ones)",
                    "group names come back as a set (the file format sorts the keys)",
                    "quantisation cells: denormalize is monotone in the pixel value (sampled at 200000 points and around every cell end)"],
    "not_covered": ["JPEG and other lossy / palette PIL codecs, RGBA / 1-bit / 32-bit PIL modes, video encoding",
                    "pickle of objects with symbolic contents (pickle needs concrete bytes): pickle round trips are concrete runs only",
                    "symlinks, '..' segments, concurrent writers, permissions, Windows paths",
                    "LJSON v1/v2 readers, ASF / LM2 importers (import-only formats); shapes with zero points",
                    "16-bit float quantisation clause as ONE solver query (bit-blasting the 53x16-bit multiplier does not "
                    "finish; a binade takes > 120 s): decided through the cell-end argument instead",
                    "export_pickle into a handle named *.pkl.gz (menpo refuses it: '.pkl' is forced for handles)"],
    "trusted": ["FPArr term semantics (z3 FloatingPoint theory = IEEE-754)", "deep state comparison in harness/c16.py",
                "state digest in harness/common.py"],
    "findings_on_the_pinned_tree": [
        "px_int denorm(norm(x))=x: menpo/image/base.py:187 `(pixels * max_range).astype(out_dtype)` truncates; 24 of 256 "
        "uint8 values (first 33 -> 32; solver: 132 -> 131) and 88 of 65536 uint16 values change on import/export/re-import",
        "thorough, overwrite spellings envvar/tilde (expanded_spelling.exported.no_error): _export checks "
        "_norm_path(fp) (expands $VAR and ~) but opens the caller's raw fp (menpo/io/output/base.py:503), so "
        "export_image / export_landmark_file to '$DIR/x.ljson' or '~/x.ljson' raise FileNotFoundError (export_pickle, "
        "which opens the normalised path, works)",
        "thorough, pts n=3 (3d_shape.refused_or_kept): pts_exporter (menpo/io/output/landmark.py:101) silently writes the "
        "first two axes of a 3-D shape; the import is a 2-D point cloud"],
}

F64, F32 = z3.Float64(), z3.Float32()
RNE, RTZ = z3.RNE(), z3.RTZ()


# ====================================================================================================================
# FP mode: ndarray stand-in over z3 floating point / bit-vector terms
# ====================================================================================================================
def _sort_of(dt):
    dt = np.dtype(dt)
    if dt == np.float64:
        return F64
    if dt == np.float32:
        return F32
    raise core.Unsupported("FP mode: float dtype %s" % dt)


def _fpval(c, sort):
    return z3.FPVal(float(c), sort)


class FPS:
    """scalar over a z3 FP term (dtype float64/float32) or bit-vector term (dtype uint8/uint16)"""

    def __init__(self, t, dtype):
        self.t, self.dtype = t, np.dtype(dtype)

    @property
    def isfloat(self):
        return self.dtype.kind == "f"

    def _other(self, o):
        """-> (my term, other term) in a common FP sort"""
        if isinstance(o, FPS):
            if self.isfloat and o.isfloat:
                if self.dtype == o.dtype:
                    return self.t, o.t
                s = _sort_of(np.result_type(self.dtype, o.dtype))
                return z3.fpToFP(RNE, self.t, s), z3.fpToFP(RNE, o.t, s)
            if not self.isfloat and not o.isfloat:
                n = max(self.t.size(), o.t.size())
                return z3.ZeroExt(n - self.t.size(), self.t), z3.ZeroExt(n - o.t.size(), o.t)
            raise core.Unsupported("FP mode: mixed int/float scalar comparison")
        if self.isfloat:
            return self.t, _fpval(o, _sort_of(self.dtype))
        if float(o) == int(o) and 0 <= int(o) < 2 ** self.t.size():
            return self.t, z3.BitVecVal(int(o), self.t.size())
        raise core.Unsupported("FP mode: integer pixel compared with %r" % (o,))

    def _rel(self, o, ff, fb):
        a, b = self._other(o)
        return SymB(ff(a, b) if self.isfloat else fb(a, b))

    def __lt__(self, o):
        return self._rel(o, z3.fpLT, z3.ULT)

    def __le__(self, o):
        return self._rel(o, z3.fpLEQ, z3.ULE)

    def __gt__(self, o):
        return self._rel(o, z3.fpGT, z3.UGT)

    def __ge__(self, o):
        return self._rel(o, z3.fpGEQ, z3.UGE)

    def __eq__(self, o):
        return self._rel(o, z3.fpEQ, lambda a, b: a == b)

    def __ne__(self, o):
        return SymB(z3.Not(self.__eq__(o).t))

    __hash__ = None

    def __sub__(self, o):
        a, b = self._other(o)
        if not self.isfloat:
            raise core.Unsupported("FP mode: integer subtraction")
        dt = self.dtype if not isinstance(o, FPS) else np.result_type(self.dtype, o.dtype)
        return FPS(z3.fpSub(RNE, a, b), dt)

    def __abs__(self):
        return FPS(z3.fpAbs(self.t), self.dtype)

    def __repr__(self):
        return "FPS(%s)" % self.t

    __str__ = __repr__

    def __format__(self, spec):
        return repr(self)


class FPArr:
    """1-D stand-in for numpy.ndarray whose elements are z3 terms.  Only what a pixel range kernel may reasonably
    use is implemented; anything else raises Unsupported loudly."""

    __array_priority__ = 1000.0

    def __init__(self, dtype, elems):
        self.dtype = np.dtype(dtype)
        self.e = list(elems)

    # ---- structure
    @property
    def shape(self):
        return (len(self.e),)

    @property
    def ndim(self):
        return 1

    @property
    def size(self):
        return len(self.e)

    def __len__(self):
        return len(self.e)

    def __getitem__(self, i):
        if isinstance(i, (int, np.integer)):
            return FPS(self.e[i], self.dtype)
        raise core.Unsupported("FP mode: indexing with %r" % (i,))

    def copy(self):
        return FPArr(self.dtype, self.e)

    def ravel(self):
        return self

    def reshape(self, *a, **k):
        return self

    # ---- conversions
    def _as_fp(self, sort):
        if self.dtype.kind == "u":
            return [z3.fpUnsignedToFP(RNE, t, sort) for t in self.e]
        if self.dtype.kind == "f":
            if _sort_of(self.dtype) == sort:
                return list(self.e)
            return [z3.fpToFP(RNE, t, sort) for t in self.e]
        raise core.Unsupported("FP mode: dtype %s" % self.dtype)

    def astype(self, dt, **kw):
        dt = np.dtype(dt)
        if dt == self.dtype:
            return FPArr(dt, self.e)
        if dt.kind == "f":
            return FPArr(dt, self._as_fp(_sort_of(dt)))
        if dt.kind == "u" and dt.itemsize in (1, 2, 4):
            bits = 8 * dt.itemsize
            if self.dtype.kind == "f":
                # C cast: truncation towards zero (in-range values; out-of-range is guarded by the callers' range check)
                return FPArr(dt, [z3.fpToUBV(RTZ, t, z3.BitVecSort(bits)) for t in self.e])
            if self.dtype.kind == "u":
                have = 8 * self.dtype.itemsize
                if bits >= have:
                    return FPArr(dt, [z3.ZeroExt(bits - have, t) for t in self.e])
                return FPArr(dt, [z3.Extract(bits - 1, 0, t) for t in self.e])
        raise core.Unsupported("FP mode: astype(%s) of %s" % (dt, self.dtype))

    # ---- arithmetic with a scalar / another FPArr
    def _binop(self, o, op, reflected=False):
        if isinstance(o, FPArr):
            rdt = np.result_type(self.dtype, o.dtype)
            if rdt.kind != "f":
                raise core.Unsupported("FP mode: integer array arithmetic")
            s = _sort_of(rdt)
            a, b = self._as_fp(s), o._as_fp(s)
            if len(a) != len(b):
                raise ValueError("operands could not be broadcast together")
        else:
            if isinstance(o, np.ndarray) and o.shape == ():
                o = o[()]
            if not isinstance(o, (int, float, np.integer, np.floating)) or isinstance(o, bool):
                raise core.Unsupported("FP mode: arithmetic with %r" % (type(o),))
            rdt = np.result_type(self.dtype, o)
            if rdt.kind != "f":
                raise core.Unsupported("FP mode: integer arithmetic (%s with %r)" % (self.dtype, o))
            s = _sort_of(rdt)
            a = self._as_fp(s)
            b = [_fpval(o, s)] * len(a)
        if reflected:
            a, b = b, a
        return FPArr(rdt, [op(RNE, x, y) for x, y in zip(a, b)])

    def __mul__(self, o):
        return self._binop(o, z3.fpMul)

    def __rmul__(self, o):
        return self._binop(o, z3.fpMul, True)

    def __truediv__(self, o):
        return self._binop(o, z3.fpDiv)

    def __rtruediv__(self, o):
        return self._binop(o, z3.fpDiv, True)

    def __add__(self, o):
        return self._binop(o, z3.fpAdd)

    def __radd__(self, o):
        return self._binop(o, z3.fpAdd, True)

    def __sub__(self, o):
        return self._binop(o, z3.fpSub)

    def __rsub__(self, o):
        return self._binop(o, z3.fpSub, True)

    # ---- rounding / reductions
    def _round_to_integral(self, rm):
        if self.dtype.kind != "f":
            return FPArr(self.dtype, self.e)
        return FPArr(self.dtype, [z3.fpRoundToIntegral(rm, t) for t in self.e])

    def round(self, decimals=0, out=None):
        if decimals:
            raise core.Unsupported("FP mode: round with decimals")
        return self._round_to_integral(RNE)

    def rint(self):
        return self._round_to_integral(RNE)

    def clip(self, lo=None, hi=None, out=None, **kw):
        lo = kw.get("min", lo)
        hi = kw.get("max", hi)
        if self.dtype.kind != "f":
            raise core.Unsupported("FP mode: clip on integers")
        s = _sort_of(self.dtype)
        out_e = []
        for t in self.e:
            if lo is not None:
                t = z3.If(z3.fpLT(t, _fpval(lo, s)), _fpval(lo, s), t)
            if hi is not None:
                t = z3.If(z3.fpGT(t, _fpval(hi, s)), _fpval(hi, s), t)
            out_e.append(t)
        return FPArr(self.dtype, out_e)

    def _reduce(self, pick):
        if not self.e:
            raise ValueError("zero-size array to reduction operation which has no identity")
        t = self.e[0]
        for u in self.e[1:]:
            t = pick(t, u)
        return FPS(t, self.dtype)

    def min(self, axis=None, **kw):
        if self.dtype.kind == "f":
            return self._reduce(lambda a, b: z3.If(z3.fpLT(b, a), b, a))
        return self._reduce(lambda a, b: z3.If(z3.ULT(b, a), b, a))

    def max(self, axis=None, **kw):
        if self.dtype.kind == "f":
            return self._reduce(lambda a, b: z3.If(z3.fpGT(b, a), b, a))
        return self._reduce(lambda a, b: z3.If(z3.UGT(b, a), b, a))

    # ---- numpy ufunc protocol (np.rint(x), np.multiply(x, c), np.floor(x), np.float64(c) * x, ...)
    def __array_ufunc__(self, ufunc, method, *inputs, **kw):
        if method != "__call__" or kw.get("out") is not None:
            raise core.Unsupported("FP mode: ufunc %s.%s" % (ufunc.__name__, method))
        name = ufunc.__name__
        binary = {"multiply": z3.fpMul, "add": z3.fpAdd, "subtract": z3.fpSub, "true_divide": z3.fpDiv,
                  "divide": z3.fpDiv}
        if name in binary and len(inputs) == 2:
            a, b = inputs
            if isinstance(a, FPArr):
                return a._binop(b, binary[name])
            return b._binop(a, binary[name], True)
        unary = {"rint": RNE, "floor": z3.RTN(), "ceil": z3.RTP(), "trunc": RTZ, "fix": RTZ}
        if name in unary and len(inputs) == 1:
            return self._round_to_integral(unary[name])
        if name in ("minimum", "maximum") and len(inputs) == 2:
            a, b = inputs
            arr, c = (a, b) if isinstance(a, FPArr) else (b, a)
            return arr.clip(hi=c) if name == "minimum" else arr.clip(lo=c)
        if name in ("absolute", "fabs") and len(inputs) == 1:
            return FPArr(self.dtype, [z3.fpAbs(t) for t in self.e])
        raise core.Unsupported("FP mode: numpy.%s has no model" % name)

    def __array__(self, *a, **k):
        raise core.Unsupported("FP mode: conversion of a symbolic pixel array to a real ndarray")

    def __repr__(self):
        return "FPArr(%s, %s)" % (self.dtype, self.e)


def _bits_input(F, name, bits, default=0):
    """an input that is a `bits`-wide bit pattern: z3 bit-vector in symbolic mode (registered as an integer input so
    that the counterexample can be replayed), python int in replay"""
    if F.sym:
        v = z3.BitVec(name, bits)
        core.ctx().inputs.setdefault(name, ("int", z3.BV2Int(v)))
        return v
    return int(F._get(name, default))


def _uint_pixels(F, name, bits, n=1):
    """n arbitrary pixels of an unsigned integer dtype"""
    dt = np.uint8 if bits == 8 else np.uint16
    vals = [_bits_input(F, "%s%d" % (name, i), bits) for i in range(n)]
    if F.sym:
        return FPArr(dt, vals)
    return np.array(vals, dtype=dt)


_FMT = {64: ("<Q", "<d", np.float64, F64), 32: ("<I", "<f", np.float32, F32)}


def _float_pixels(F, name, fbits, n=1, default=0.5):
    """n arbitrary float pixels (any bit pattern; callers add assumptions)"""
    ifmt, ffmt, dt, sort = _FMT[fbits]
    dflt = struct.unpack(ifmt, struct.pack(ffmt, default))[0]
    vals = [_bits_input(F, "%s%d_bits" % (name, i), fbits, dflt) for i in range(n)]
    if F.sym:
        return FPArr(dt, [z3.fpBVToFP(v, sort) for v in vals])
    return np.array([struct.unpack(ffmt, struct.pack(ifmt, v))[0] for v in vals], dtype=dt)


def _isnan(x):
    if isinstance(x, FPS):
        return SymB(z3.fpIsNaN(x.t))
    return bool(np.isnan(x))


def _kernels(F, cfg):
    """the two kernels (optionally replaced by a mutant / a repaired version for the developer self test)"""
    import menpo.image.base as ib

    mut = cfg.get("selftest_mutant")
    fixed = cfg.get("selftest_fixed")
    norm, den = ib.normalize_pixels_range, ib.denormalize_pixels_range
    if fixed or mut in ("denorm_floor", "denorm_254", "range_or_only_max", "norm_256"):
        real_den, real_norm = den, norm

        def den(pixels, out_dtype):  # noqa: F811
            if fixed and pixels.dtype != out_dtype and np.dtype(pixels.dtype).kind == "f" and np.dtype(out_dtype).kind == "u":
                real_den(pixels, out_dtype)  # range / dtype checks of the real code
                mx = 255.0 if np.dtype(out_dtype) == np.uint8 else 65535.0
                if fixed == "rint":
                    return np.rint(pixels * mx).astype(out_dtype)
                if fixed == "round":
                    return (pixels * mx).round().astype(out_dtype)
                return (pixels * mx + 0.5).astype(out_dtype)
            if mut == "denorm_254" and np.dtype(pixels.dtype).kind == "f" and np.dtype(out_dtype) == np.uint8:
                return (pixels * 254.0).astype(out_dtype)
            if mut == "range_or_only_max" and np.dtype(pixels.dtype).kind == "f" and np.dtype(out_dtype).kind == "u":
                if pixels.max() > 1.0:
                    raise ValueError("range")
                return (pixels * 255.0).astype(out_dtype)
            return real_den(pixels, out_dtype)

        def norm(pixels, error_on_unknown_type=True):  # noqa: F811
            if mut == "norm_256" and pixels.dtype == np.uint8:
                return pixels * (1.0 / 256.0)
            return real_norm(pixels, error_on_unknown_type)

    return norm, den


def _mx(bits):
    return 255.0 if bits == 8 else 65535.0


def _udt(bits):
    return np.uint8 if bits == 8 else np.uint16


def px_int(F, ob, cfg):
    """every 8/16-bit value survives normalise -> denormalise (= import, export, re-import of integer image data)"""
    bits = cfg["bits"]
    norm, den = _kernels(F, cfg)
    if cfg.get("mode") == "enum":
        # exhaustive enumeration through the real kernels (no solver): all 2^bits values at once
        x = np.arange(2 ** bits).astype(_udt(bits))
        n = norm(x)
        ob.true("norm.dtype", n.dtype == np.float64)
        ob.true("norm.in_unit_interval", bool(n.min() >= 0.0 and n.max() <= 1.0))
        ob.true("norm.strictly_increasing", bool(np.all(np.diff(n) > 0)))
        d = den(n, _udt(bits))
        ob.true("denorm.dtype", d.dtype == _udt(bits))
        bad = np.nonzero(d != x)[0]
        if len(bad):
            ob.fail("denorm(norm(x))=x", "%d of %d values change, first: %s -> %s" % (
                len(bad), 2 ** bits, x[bad[:6]].tolist(), d[bad[:6]].tolist()))
        else:
            ob.true("denorm(norm(x))=x", True)
        return
    x = _uint_pixels(F, "x", bits)
    n = norm(x)
    ob.true("norm.dtype", n.dtype == np.float64)
    ob.true("norm.shape", n.shape == (1,))
    ob.true("norm.in_unit_interval", F.and_(n[0] >= 0.0, n[0] <= 1.0))
    ob.true("norm.zero_iff_zero", _iff(F, n[0] == 0.0, x[0] == 0))
    ob.true("norm.one_iff_max", _iff(F, n[0] == 1.0, x[0] == int(_mx(bits))))
    d = den(n, _udt(bits))
    ob.true("denorm.dtype", d.dtype == _udt(bits))
    ob.true("denorm(norm(x))=x", d[0] == x[0])


def _iff(F, a, b):
    return F.and_(F.implies(a, b), F.implies(b, a))


def px_float(F, ob, cfg):
    """a float pixel in [0,1] moves by less than one quantisation level on export + import, and a second
    export / import does not move it again"""
    bits, fbits = cfg["bits"], cfg.get("fbits", 64)
    norm, den = _kernels(F, cfg)
    if cfg.get("mode") == "cells":
        return _px_float_cells(ob, norm, den, bits)
    p = _float_pixels(F, "p", fbits)
    F.assume(F.not_(_isnan(p[0])))
    F.assume(F.and_(p[0] >= 0.0, p[0] <= 1.0))
    lo, hi = cfg.get("lo"), cfg.get("hi")
    if lo is not None:
        F.assume(F.and_(p[0] >= lo, p[0] < hi))
    d = den(p, _udt(bits))
    ob.true("denorm.dtype", d.dtype == _udt(bits))
    q = norm(d)
    ob.true("norm.dtype", q.dtype == np.float64)
    ob.true("quantisation.lt_one_level", abs(q[0] - p[0]) < 1.0 / _mx(bits))
    ob.true("reimport.in_unit_interval", F.and_(q[0] >= 0.0, q[0] <= 1.0))


def _px_float_cells(ob, norm, den, bits):
    """the quantisation clause for EVERY float64 in [0,1] without a solver: den is monotone in p (IEEE multiplication
    by a positive constant and the cast are monotone; sampled below), so {p : den(p) = d} is an interval of floats and
    |norm(d) - p| is largest at its two ends; the ends of all 2^bits cells are found by bisection over the float bit
    patterns through the REAL kernel and checked"""
    udt, mx = _udt(bits), _mx(bits)
    n = 2 ** bits
    one = np.array(1.0).view(np.int64)
    # smallest float p (as bit pattern) with den(p) >= v, for v = 1 .. n-1
    v = np.arange(1, n, dtype=np.int64)
    lo = np.zeros(n - 1, dtype=np.int64)          # den(lo) < v   (den(0.0) = 0)
    hi = np.full(n - 1, int(one), dtype=np.int64)  # den(hi) >= v  (den(1.0) = max)
    ok0 = bool(den(np.array([0.0]), udt)[0] == 0 and den(np.array([1.0]), udt)[0] == n - 1)
    ob.true("cells.extremes", ok0)
    if not ok0:
        return
    while True:
        mid = (lo + hi) // 2
        act = hi - lo > 1
        if not act.any():
            break
        dm = den(mid.view(np.float64), udt).astype(np.int64)
        up = act & (dm >= v)
        dn = act & ~(dm >= v)
        hi = np.where(up, mid, hi)
        lo = np.where(dn, mid, lo)
    first = np.concatenate([[0], hi])            # first float of cell d, d = 0 .. n-1
    last = np.concatenate([lo, [int(one)]])      # last float of cell d
    ends = np.concatenate([first, last]).view(np.float64)
    d = den(ends, udt)
    ob.true("cells.ends_in_their_cell", bool(np.array_equal(d.astype(np.int64), np.concatenate([np.arange(n), np.arange(n)]))))
    q = norm(d)
    err = np.abs(q - ends)
    worst = int(np.argmax(err))
    if bool(np.all(err < 1.0 / mx)):
        ob.true("quantisation.lt_one_level", True)
    else:
        ob.fail("quantisation.lt_one_level", "p=%r -> %d -> %r moves by %r >= 1/%d" % (
            float(ends[worst]), int(d[worst]), float(q[worst]), float(err[worst]), int(mx)))
    # monotonicity of den (the premise of the cell argument): dense deterministic sample plus neighbours of the ends
    rng = np.random.RandomState(16)
    smp = np.sort(np.concatenate([rng.rand(200000), ends, np.nextafter(ends, 2.0).clip(0, 1), np.nextafter(ends, -1.0).clip(0, 1)]))
    ds = den(smp, udt).astype(np.int64)
    ob.true("cells.den_monotone_on_sample", bool(np.all(np.diff(ds) >= 0)))


def px_range(F, ob, cfg):
    """float pixels outside [0,1] are refused (ValueError) and only those"""
    bits, fbits, n = cfg["bits"], cfg.get("fbits", 64), cfg.get("n", 2)
    norm, den = _kernels(F, cfg)
    p = _float_pixels(F, "p", fbits, n=n)
    for i in range(n):
        F.assume(F.not_(_isnan(p[i])))
    outside = F.or_(*[F.or_(p[i] < 0.0, p[i] > 1.0) for i in range(n)])
    try:
        d = den(p, _udt(bits))
    except ValueError:
        ob.true("raised.only_when_out_of_range", outside)
        return
    ob.true("accepted.only_when_in_range", F.not_(outside))
    ob.true("accepted.dtype", d.dtype == _udt(bits))
    ob.true("accepted.shape", d.shape == (n,))
    # the extremes map to the extremes
    for i in range(n):
        ob.true("accepted.one_to_max[%d]" % i, F.implies(p[i] == 1.0, d[i] == int(_mx(bits))))
        ob.true("accepted.zero_to_zero[%d]" % i, F.implies(p[i] == 0.0, d[i] == 0))


def px_dtypes(F, ob, cfg):
    """dtype dispatch of the two kernels on concrete arrays"""
    norm, den = _kernels(F, cfg)
    b = np.array([[True, False], [False, True]])
    for dt, mx in ((np.uint8, 255), (np.uint16, 65535)):
        d = den(b, dt)
        ob.true("bool->%s" % np.dtype(dt).name, d.dtype == dt and d.tolist() == [[mx, 0], [0, mx]])
        same = np.arange(6).reshape(2, 3).astype(dt)
        ob.true("same_dtype_returned_unchanged[%s]" % np.dtype(dt).name, bool(np.array_equal(den(same, dt), same)))
    f = np.array([0.0, 0.25, 1.0])
    ob.true("float64->float32", den(f, np.float32).dtype == np.float32 and den(f, np.float32).tolist() == [0.0, 0.25, 1.0])
    ob.true("float32->float64", den(f.astype(np.float32), np.float64).dtype == np.float64)
    for bad_in in (np.array([1, 2], dtype=np.int32), np.array([1, 2], dtype=np.uint16)):
        try:
            den(bad_in, np.uint8)
            ob.fail("denorm.int_input_refused[%s]" % bad_in.dtype, "accepted")
        except ValueError:
            ob.true("denorm.int_input_refused[%s]" % bad_in.dtype, True)
    for bad_out in (np.int32, np.int8, np.uint32):
        try:
            den(f, bad_out)
            ob.fail("denorm.unknown_out_dtype_refused[%s]" % np.dtype(bad_out).name, "accepted")
        except ValueError:
            ob.true("denorm.unknown_out_dtype_refused[%s]" % np.dtype(bad_out).name, True)
    for bad in (np.array([1.5]), np.array([-0.25, 0.5]), np.array([0.5, np.inf])):
        try:
            den(bad, np.uint8)
            ob.fail("denorm.out_of_range_refused%s" % bad.tolist(), "accepted")
        except ValueError:
            ob.true("denorm.out_of_range_refused%s" % bad.tolist(), True)
    i32 = np.array([3, 4], dtype=np.int32)
    try:
        norm(i32)
        ob.fail("norm.unknown_dtype_refused", "accepted")
    except ValueError:
        ob.true("norm.unknown_dtype_refused", True)
    ob.true("norm.unknown_dtype_passthrough", norm(i32, error_on_unknown_type=False) is i32)
    ob.true("norm.uint8", norm(np.array([0, 255], dtype=np.uint8)).tolist() == [0.0, 1.0])
    ob.true("norm.uint16", norm(np.array([0, 65535], dtype=np.uint16)).tolist() == [0.0, 1.0])
    # multi-dimensional arrays keep their shape
    x = (np.arange(24).reshape(2, 3, 4) * 10).astype(np.uint8)
    ob.true("norm.shape_kept", norm(x).shape == x.shape)
    ob.true("denorm.shape_kept", den(norm(x), np.uint8).shape == x.shape)




# ====================================================================================================================
# overwrite protocol: the real exporters on a private temporary directory; the state of the world by solver fork
# ====================================================================================================================
SENTINEL = b"C16 sentinel \x00\xff - this file was here before and must survive\n"


class _Tmp:
    """private scratch directory, removed at the end of the path"""

    def __init__(self):
        self.dir = os.path.realpath(tempfile.mkdtemp(prefix="symx_c16_"))

    def __enter__(self):
        return self

    def __exit__(self, *a):
        shutil.rmtree(self.dir, ignore_errors=True)

    def listing(self):
        out = {}
        for root, _dirs, files in os.walk(self.dir):
            for f in files:
                p = os.path.join(root, f)
                with open(p, "rb") as h:
                    out[os.path.relpath(p, self.dir)] = h.read()
        return out


class _RealNumpy:
    """concrete runs: menpo executes on real numpy (the proxy is only needed for symbolic payloads)"""

    def __init__(self, F, when=True):
        self.on = bool(F.sym) and when

    def __enter__(self):
        if self.on:
            npproxy.unpatch_menpo()

    def __exit__(self, *a):
        if self.on:
            npproxy.patch_menpo()


class _NamedBuffer(io.BytesIO):
    """a file object that reports a name (like an open file) but keeps its bytes in memory"""

    def __init__(self, name):
        super().__init__()
        self.name = name


def _vals(shape, seed):
    """deterministic, distinct, exactly representable concrete numbers"""
    n = int(np.prod(shape))
    return (((np.arange(n) * 37 + seed * 11) % 64) / 8.0 - 3.0).reshape(shape)


def _payload(entry, k):
    """the k-th (k = 0, 1, 2) concrete object to export for an entry point; different k => different bytes"""
    from menpo.image import Image
    from menpo.shape import LabelledPointUndirectedGraph, PointCloud

    if entry == "image":
        px = ((np.arange(24).reshape(1, 4, 6) * 9 + 40 * k) % 256) / 255.0
        return Image(px)
    if entry == "video":
        return [Image(np.full((1, 4, 4), 0.25 * (k + 1))) for _ in range(2 + k)]
    if entry == "ljson":
        return LabelledPointUndirectedGraph.init_from_edges(
            _vals((4, 2), k), np.array([[0, 1], [1, 2], [3, 0]]),
            OrderedDict([("zeta", np.array([1, 1, 0, 0], dtype=bool)), ("ωμέγα", np.array([0, 1, 1, 1], dtype=bool))]))
    if entry == "pts":
        return PointCloud(_vals((3 + k, 2), k))
    if entry in ("pickle", "pickle_gz"):
        return {"shape": PointCloud(_vals((3, 2), k)), "k": k, "name": "obj-%d" % k}
    raise KeyError(entry)


ENTRY = {
    # entry: (file name with several dots, extension, name of the extension map in menpo.io.output.base, has `extension=` argument)
    "image": ("img.v1.2.png", ".png", "image_types", True),
    "ljson": ("shape.v1.2.ljson", ".ljson", "landmark_types", True),
    "pts": ("shape.v1.2.pts", ".pts", "landmark_types", True),
    "pickle": ("model.v1.2.pkl", ".pkl", "pickle_types", False),
    "pickle_gz": ("model.v1.2.pkl.gz", ".pkl.gz", "pickle_types", False),
    "video": ("clip.v1.2.mp4", ".mp4", "video_types", False),
}
TYPE_MAPS = ["image_types", "landmark_types", "pickle_types", "video_types"]


def _video_stub(images, out_path, **kwargs):
    """stands for ffmpeg: writes a marker at the path it is handed (the path must be a str/Path, as for ffmpeg)"""
    if not isinstance(out_path, (str, Path)):
        raise TypeError("ffmpeg needs a path, got %r" % type(out_path))
    with open(str(out_path), "wb") as f:
        f.write(("video:%d frames:fps=%s" % (len(images), kwargs.get("fps"))).encode())


def _instrument(F, calls, cfg=None):
    """wrap every exporter of every extension map (calls through) and count the calls"""
    import menpo.io.output.base as outb

    mut = (cfg or {}).get("selftest_mutant")

    def wrap(ext, fn, is_video):
        def exporter(obj, handle, *a, **kw):
            calls.append((ext, handle))
            if is_video:
                return _video_stub(obj, handle, **kw)
            return fn(obj, handle, *a, **kw)

        return exporter

    for mname in TYPE_MAPS:
        real = getattr(outb, mname)
        F.patch(outb, mname, {ext: wrap(ext, fn, mname == "video_types") for ext, fn in real.items()})
    real_validate = outb._validate_filepath
    real_norm = outb._norm_path
    if mut == "no_exists_check":
        F.patch(outb, "_validate_filepath", lambda fp, overwrite: real_norm(fp))
    elif mut == "exists_or":
        def v(fp, overwrite):
            from menpo.io.exceptions import OverwriteError

            p = real_norm(fp)
            if p.exists() or not overwrite:
                raise OverwriteError("exists", p)
            return p

        F.patch(outb, "_validate_filepath", v)
    elif mut == "check_raw_name":
        # checks only the file name in the current directory instead of the normalised path
        def v2(fp, overwrite):
            from menpo.io.exceptions import OverwriteError

            p = real_norm(fp)
            if Path(Path(fp).name).exists() and not overwrite:
                raise OverwriteError("exists", p)
            return p

        F.patch(outb, "_validate_filepath", v2)
    elif mut == "open_before_check":
        real_export = outb._export

        def e(obj, fp, extensions_map, extension, overwrite, exporter_kwargs=None):
            if isinstance(fp, (str, Path)):
                open(str(fp), "ab").close()  # touches the file first
                open(str(fp), "wb").close()
            return real_export(obj, fp, extensions_map, extension, overwrite, exporter_kwargs=exporter_kwargs)

        F.patch(outb, "_export", e)
    elif mut == "pickle_ignores_overwrite":
        real_vf = outb._validate_filepath

        def v3(fp, overwrite):
            if str(fp).endswith((".pkl", ".pkl.gz")):
                return real_norm(fp)
            return real_vf(fp, overwrite)

        F.patch(outb, "_validate_filepath", v3)


def _call_export(entry, obj, fp, overwrite, extension="<absent>"):
    import menpo.io as mio

    kw = {}
    if overwrite is not None:
        kw["overwrite"] = overwrite
    if extension != "<absent>":
        kw["extension"] = extension
    if entry == "image":
        return mio.export_image(obj, fp, **kw)
    if entry in ("ljson", "pts"):
        return mio.export_landmark_file(obj, fp, **kw)
    if entry in ("pickle", "pickle_gz"):
        return mio.export_pickle(obj, fp, **kw)
    if entry == "video":
        return mio.export_video(obj, fp, **kw)
    raise KeyError(entry)


def _reference_bytes(entry, obj):
    """what an export of `obj` writes: taken from an export into an anonymous buffer (no path logic involved)"""
    if entry == "video":
        return ("video:%d frames:fps=30" % len(obj)).encode()
    buf = io.BytesIO()
    ext = ENTRY[entry][1]
    if entry in ("pickle", "pickle_gz"):
        _call_export(entry, obj, buf, None)
    else:
        _call_export(entry, obj, buf, None, extension=ext)
    return buf.getvalue()


def _content(entry, raw):
    """file bytes in comparable form (gzip members carry a time stamp: compare the decompressed stream)"""
    if raw is None:
        return None
    if entry == "pickle_gz" and raw[:2] == b"\x1f\x8b":
        try:
            return gzip.decompress(raw)
        except Exception:
            return raw
    return raw


def _spell(kind, spelling, target, tmpdir):
    """the caller's way of naming `target`"""
    if spelling == "abs":
        s = target
    elif spelling == "rel":
        s = os.path.relpath(target, os.getcwd())
    elif spelling == "envvar":
        os.environ["SYMX_C16_DIR"] = tmpdir
        s = os.path.join("$SYMX_C16_DIR", os.path.basename(target))
    elif spelling == "tilde":
        s = os.path.join("~", os.path.basename(target))
    else:
        raise KeyError(spelling)
    return Path(s) if kind == "path" else s


def _outcome(fn):
    from menpo.io.exceptions import OverwriteError

    try:
        fn()
    except OverwriteError as e:
        return "overwrite_error", e
    except ValueError as e:
        return "value_error", e
    except Exception as e:  # anything else (OSError, TypeError ...) is an outcome to be judged, not a crash
        return "error:" + type(e).__name__, e
    return "ok", None


EXT_SPELLINGS = {  # spellings of a MATCHING extension argument
    ".png": [".png", "png", ".PNG"], ".ljson": [".ljson", "ljson", ".LJSON"], ".pts": [".pts", "pts", "PTS"],
}


class _Prefixed:
    def __init__(self, ob, prefix):
        self._ob, self._p = ob, prefix

    def true(self, name, cond):
        self._ob.true(self._p + name, cond)

    def fail(self, name, why=""):
        self._ob.fail(self._p + name, why)


def overwrite(F, ob, cfg):
    """one export to a path that may exist, through one entry point and one kind of `fp`"""
    entry, kind = cfg["entry"], cfg["kind"]
    fname, ext, _mapname, has_ext = ENTRY[entry]
    E = F.bool("exists")
    W = F.bool("overwrite")
    w_default = (not W) and F.bool("overwrite_left_to_default")   # overwrite=False may also be the default
    spelling = F.choice("spelling", cfg.get("spellings", ["abs", "rel"])) if kind != "buffer" else None
    if has_ext:
        ext_arg = F.choice("extension_arg", ["<absent>", None] + EXT_SPELLINGS[ext])
    else:
        ext_arg = "<absent>"
    home = os.environ.get("HOME")
    with _Tmp() as tmp, _RealNumpy(F):
        calls = []
        _instrument(F, calls, cfg)
        obj = _payload(entry, 0)
        ref = _reference_bytes(entry, obj)
        del calls[:]
        if spelling == "tilde":
            os.environ["HOME"] = tmp.dir
        if cfg.get("upper_names") and F.bool("upper_case_name"):
            fname = fname.upper()
        target = os.path.join(tmp.dir, fname)
        if E:
            with open(target, "wb") as f:
                f.write(SENTINEL)
        before = tmp.listing()
        if kind == "buffer":
            fp = io.BytesIO()
        elif kind == "file":
            fp = _NamedBuffer(_spell("str", spelling, target, tmp.dir))
        else:
            fp = _spell(kind, spelling, target, tmp.dir)
        try:
            res, err = _outcome(lambda: _call_export(entry, obj, fp, None if w_default else W, extension=ext_arg))
        finally:
            if home is not None:
                os.environ["HOME"] = home
        after = tmp.listing()
        needs_ext = has_ext and kind in ("file", "buffer") and ext_arg in ("<absent>", None)
        if spelling in ("envvar", "tilde"):
            # spellings that menpo's own normalisation expands ($VAR, ~): reported under their own obligation names
            ob = _Prefixed(ob, "expanded_spelling.")
        if entry == "video" and kind == "buffer":
            ob.true("video.buffer_refused", res == "value_error")
            ob.true("video.buffer_refused.nothing_touched", after == before and not calls)
            return
        if kind == "buffer":
            if needs_ext:
                ob.true("buffer.extension_required", res == "value_error")
                ob.true("buffer.extension_required.nothing_written", fp.getvalue() == b"" and not calls)
            else:
                ob.true("buffer.exported", res == "ok")
                ob.true("buffer.exporter_called_once_with_it", len(calls) == 1 and calls[0][1] is fp)
                ob.true("buffer.bytes", fp.getvalue() == ref)
            ob.true("buffer.directory_untouched", after == before)
            return
        if needs_ext:
            ob.true("file.extension_required", res in ("value_error", "overwrite_error"))
            ob.true("file.extension_required.nothing_touched", after == before and fp.getvalue() == b"" and not calls)
            return
        if E and not W:
            ob.true("refused.overwrite_error", res == "overwrite_error")
            ob.true("refused.file_intact", after.get(fname) == SENTINEL)
            ob.true("refused.nothing_else_created", after == before)
            ob.true("refused.exporter_not_called", not calls)
            if res == "overwrite_error":
                ob.true("refused.error_is_value_error", isinstance(err, ValueError))
                ob.true("refused.error_carries_path", os.path.abspath(str(getattr(err, "path", ""))) == target)
            if kind == "file":
                ob.true("refused.handle_untouched", fp.getvalue() == b"")
            return
        # not (exists and not overwrite): the export must happen, once, to exactly that file
        if res != "ok":
            ob.fail("exported.no_error", "%s: %s" % (type(err).__name__, err))
            return
        ob.true("exported.no_error", True)
        ob.true("exported.exporter_called_once", len(calls) == 1)
        if kind == "file" and entry != "video":
            # a named handle is written through the handle; the directory is not touched
            ob.true("exported.through_the_handle", len(calls) == 1 and calls[0][1] is fp)
            ob.true("exported.handle_bytes", fp.getvalue() == ref)
            ob.true("exported.directory_untouched", after == before)
            return
        ob.true("exported.only_the_target", sorted(after) == [fname])
        ob.true("exported.bytes", _content(entry, after.get(fname)) == ref)
        if calls and entry != "video":
            h = calls[0][1]
            ob.true("exported.handle_on_the_target", os.path.abspath(str(getattr(h, "name", ""))) == target)
        if calls and entry == "video":
            ob.true("exported.path_handed_to_ffmpeg", isinstance(calls[0][1], (str, Path)))


def history(F, ob, cfg):
    """three exports of three different objects to the same path with independent overwrite flags"""
    entry = cfg["entry"]
    fname, ext, _m, has_ext = ENTRY[entry]
    E = F.bool("exists")
    flags = [F.bool("overwrite%d" % k) for k in range(3)]
    kinds = [F.choice("kind%d" % k, ["str", "path"]) for k in range(3)] if cfg.get("mixed_kinds") else ["str", "path", "str"]
    spellings = ["abs", "rel", "abs"]
    with _Tmp() as tmp, _RealNumpy(F):
        calls = []
        _instrument(F, calls, cfg)
        target = os.path.join(tmp.dir, fname)
        state, last = None, None
        if E:
            with open(target, "wb") as f:
                f.write(SENTINEL)
            state = SENTINEL
        for k in range(3):
            obj = _payload(entry, k)
            ref = _reference_bytes(entry, obj)
            del calls[:]
            fp = _spell(kinds[k], spellings[k], target, tmp.dir)
            res, err = _outcome(lambda: _call_export(entry, obj, fp, flags[k]))
            now = tmp.listing()
            if state is not None and not flags[k]:
                ob.true("step%d.refused" % k, res == "overwrite_error")
                ob.true("step%d.exporter_not_called" % k, not calls)
            else:
                ob.true("step%d.exported" % k, res == "ok")
                ob.true("step%d.exporter_called_once" % k, len(calls) == 1)
                state, last = ref, k
            ob.true("step%d.only_the_target" % k, sorted(now) == ([fname] if state is not None else []))
            ob.true("step%d.file_holds_last_permitted_export" % k, _content(entry, now.get(fname)) == state)
        # what is on disk can be imported again and is the last permitted export
        if last is not None and entry in ("ljson", "pts", "pickle", "pickle_gz"):
            import menpo.io as mio

            want = _payload(entry, last)
            if entry.startswith("pickle"):
                back = mio.import_pickle(target)
                diff = _deep_diff(back, want)
                ob.true("final.import_is_last_permitted_export", diff == [])
            else:
                back = mio.import_landmark_file(target)
                ob.true("final.import_groups", sorted(back) == (["LJSON"] if entry == "ljson" else ["PTS"]))
                got = list(back.values())[0]
                ob.true("final.import_is_last_permitted_export",
                        got.points.shape == want.points.shape and bool(np.allclose(got.points, want.points, atol=0.00051)))


def bad_extension(F, ob, cfg):
    """a wrong or unknown extension is refused before anything is touched"""
    entry, kind = cfg["entry"], cfg["kind"]
    fname, ext, _m, _h = ENTRY[entry]
    E = F.bool("exists")
    W = F.bool("overwrite")
    case = F.choice("case", ["mismatch", "unknown_suffix", "no_suffix"] + (["manager_to_pts"] if entry == "pts" else []))
    with _Tmp() as tmp, _RealNumpy(F):
        calls = []
        _instrument(F, calls, cfg)
        obj = _payload(entry, 0)
        ext_arg = "<absent>"
        if case == "mismatch":
            ext_arg = {".png": ".jpg", ".ljson": ".pts", ".pts": ".ljson"}[ext]
        elif case == "unknown_suffix":
            fname = fname + ".foo"
        elif case == "no_suffix":
            fname = "no_suffix_at_all"
        elif case == "manager_to_pts":
            obj = {"a": obj, "b": _payload(entry, 1)}
        target = os.path.join(tmp.dir, fname)
        if E:
            with open(target, "wb") as f:
                f.write(SENTINEL)
        before = tmp.listing()
        if kind == "file":
            fp = _NamedBuffer(target)
            if ext_arg == "<absent>":
                ext_arg = ext
        else:
            fp = _spell(kind, "abs", target, tmp.dir)
        res, err = _outcome(lambda: _call_export(entry, obj, fp, W, extension=ext_arg))
        after = tmp.listing()
        ob.true("%s.refused" % case, res in ("value_error", "overwrite_error"))
        if E and not W and case != "manager_to_pts":
            ob.true("%s.existing_file_reported_or_extension" % case, res in ("value_error", "overwrite_error"))
        ob.true("%s.nothing_touched" % case, after == before)
        ob.true("%s.exporter_not_called" % case, not calls)
        if kind == "file":
            ob.true("%s.handle_untouched" % case, fp.getvalue() == b"")


# ====================================================================================================================
# landmark formats: symbolic coordinates around codec models
# ====================================================================================================================
class _Doc:
    """a document written by a codec model (kept as an object instead of text)"""

    def __init__(self, kind, value):
        self.kind, self.value = kind, value


class _VFile(io.BytesIO):
    """in-memory file handle that accepts bytes (real codecs) and _Doc objects (codec models)"""

    def __init__(self):
        super().__init__()
        self.docs = []

    def write(self, b):
        if isinstance(b, _Doc):
            self.docs.append(b)
            return 1
        if isinstance(b, str):
            b = b.encode("utf8")
        return super().write(b)


class _VReader:
    def __init__(self, vfile, mode):
        self.vfile, self.mode = vfile, mode
        self.docs = list(vfile.docs)
        raw = vfile.getvalue()
        self._real = (io.StringIO(raw.decode("utf8")) if "b" not in mode else io.BytesIO(raw)) if not self.docs else None

    def __enter__(self):
        return self

    def __exit__(self, *a):
        return False

    def read(self, *a):
        if self._real is None:
            raise core.Unsupported("reading the text of a modelled document")
        return self._real.read(*a)

    def readline(self, *a):
        if self._real is None:
            raise core.Unsupported("reading the text of a modelled document")
        return self._real.readline(*a)

    def readlines(self):
        if self._real is not None:
            return self._real.readlines()
        if len(self.docs) != 1 or self.docs[0].kind != "lines":
            raise core.Unsupported("readlines on a modelled non-text document")
        return list(self.docs[0].value)

    def __iter__(self):
        return iter(self.readlines())


class _VPath:
    """what an importer needs of a pathlib.Path, backed by a _VFile"""

    def __init__(self, vfile, name):
        self.vfile, self.name = vfile, name
        self.suffix = os.path.splitext(name)[1]

    def open(self, mode="r", *a, **k):
        return _VReader(self.vfile, mode)

    def __str__(self):
        return "/virtual/" + self.name


# ---- JSON contract
def _json_value(v, sort_keys, allow_nan):
    """the JSON value that json.dump(v) followed by json.load denotes (dicts as lists of pairs)"""
    if v is None or isinstance(v, (bool, str)):
        return v
    if isinstance(v, Sym):
        return v
    if isinstance(v, int):
        return int(v)
    if isinstance(v, float):
        if v != v or v in (math.inf, -math.inf):
            if not allow_nan:
                raise ValueError("Out of range float values are not JSON compliant: %r" % v)
            return float(v)
        return float(v)
    if isinstance(v, (list, tuple)):
        return [_json_value(x, sort_keys, allow_nan) for x in v]
    if isinstance(v, dict):
        items = list(v.items())
        if sort_keys:
            items = sorted(items, key=lambda kv: kv[0])
        out = []
        for k, x in items:
            if isinstance(k, str):
                ks = k
            elif k is True:
                ks = "true"
            elif k is False:
                ks = "false"
            elif k is None:
                ks = "null"
            elif isinstance(k, (int, float)):
                ks = repr(k)
            else:
                raise TypeError("keys must be str, int, float, bool or None, not %s" % type(k).__name__)
            out.append((ks, _json_value(x, sort_keys, allow_nan)))
        return _Obj(out)
    raise TypeError("Object of type %s is not JSON serializable" % type(v).__name__)


class _Obj:
    def __init__(self, pairs):
        self.pairs = pairs


def _json_build(v, hook):
    if isinstance(v, _Obj):
        pairs = [(k, _json_build(x, hook)) for k, x in v.pairs]
        return hook(pairs) if hook is not None else dict(pairs)
    if isinstance(v, list):
        return [_json_build(x, hook) for x in v]
    return v


class _JsonModel:
    """contract of the json module's text layer: load(dump(v)) = the JSON value of v"""

    def __init__(self):
        import json as real

        self.real = real
        self.JSONEncoder = real.JSONEncoder
        self.JSONDecoder = real.JSONDecoder
        self.dumps, self.loads = real.dumps, real.loads

    def dump(self, obj, fp, *, skipkeys=False, ensure_ascii=True, check_circular=True, allow_nan=True, cls=None,
             indent=None, separators=None, default=None, sort_keys=False, **kw):
        fp.write(_Doc("json", _json_value(obj, sort_keys, allow_nan)))

    def load(self, fp, *, object_hook=None, object_pairs_hook=None, **kw):
        docs = getattr(fp, "docs", None)
        if not docs:
            return self.real.load(fp, object_hook=object_hook, object_pairs_hook=object_pairs_hook, **kw)
        if len(docs) != 1 or docs[0].kind != "json":
            raise ValueError("Extra data")
        return _json_build(docs[0].value, object_pairs_hook)


# ---- '%.3f' text contract
class _Tok(str):
    """a number token of a text file; .value is the number it denotes"""

    def __new__(cls, value):
        o = str.__new__(cls, "<number>")
        o.value = value
        return o


class _Line(str):
    """a data line: whitespace separated number tokens"""

    def __new__(cls, toks):
        o = str.__new__(cls, " ".join("<number>" for _ in toks))
        o.toks = list(toks)
        return o

    def strip(self, *a):
        return self

    def rstrip(self, *a):
        return self

    def split(self, *a, **k):
        return list(self.toks)


def _three_decimals(v):
    """'%.3f' % v read back: within 0.0005 of v (symbolic: an arbitrary such value)"""
    if isinstance(v, Sym) and not v.is_const():
        c = core.ctx()
        w = Sym.var(c.fresh_real("txt"))
        d = w - v
        half = core.Fr(1, 2000)
        c.defined.append(core.bterm(d <= half))
        c.defined.append(core.bterm(d >= -half))
        return w
    f = float(v)
    if f != f:
        return float("nan")
    return float("%.3f" % f)


def _savetxt_model(fname, X, fmt="%.18e", delimiter=" ", newline="\n", header="", footer="", comments="# ", **kw):
    if fmt != "%.3f" or delimiter != " " or newline != "\n":
        raise core.Unsupported("savetxt model: only fmt='%.3f', delimiter=' '")
    X = np.asarray(X, dtype=object)
    if X.ndim != 2:
        raise core.Unsupported("savetxt model: 2-D arrays only")
    lines = []
    if header:
        lines += [comments + h for h in header.split("\n")]
    for row in X:
        lines.append(_Line([_Tok(_three_decimals(v)) for v in row]))
    if footer:
        lines += [comments + h for h in footer.split("\n")]
    fname.write(_Doc("lines", [l if isinstance(l, _Line) else l + "\n" for l in lines]))


class _NpShim:
    """the module's `np` with np.array extended to number tokens"""

    def __init__(self, base):
        self._base = base

    def __getattr__(self, k):
        return getattr(self._base, k)

    def array(self, obj, *a, **k):
        if isinstance(obj, list) and obj and all(isinstance(t, _Tok) for t in obj):
            return np.array([t.value for t in obj], dtype=object)
        return self._base.array(obj, *a, **k)


def _install_codec_models(F):
    import menpo.io.input.landmark as inlm
    import menpo.io.output.landmark as outlm

    jm = _JsonModel()
    F.patch(outlm, "json", jm)
    F.patch(inlm, "json", jm)
    npproxy.NP.stubs["savetxt"] = _savetxt_model
    F.patch(inlm, "np", _NpShim(inlm.np))


def _mutate_landmark_io(F, cfg):
    """developer self test: plausible bugs in the landmark exporters / importers"""
    mut = cfg.get("selftest_mutant")
    if not mut:
        return
    import menpo.io.input.landmark as inlm
    import menpo.io.output.base as outb
    import menpo.io.output.landmark as outlm
    import menpo.shape.labelled as lab

    if mut == "ljson_nan_to_zero":
        F.patch(inlm, "_ljson_parse_null_values", lambda pl: inlm.np.array(
            [0.0 if x is None else x for x in itertools.chain(*pl)], dtype=float).reshape([-1, len(pl[0])]))
    elif mut == "ljson_labels_sorted":
        real = lab.LabelledPointUndirectedGraph.tojson

        def tojson(self):
            d = real(self)
            d["labels"] = sorted(d["labels"], key=lambda l: l["label"])
            return d

        F.patch(lab.LabelledPointUndirectedGraph, "tojson", tojson)
    elif mut == "ljson_drop_last_edge":
        import menpo.shape.graph as gr

        real = gr.PointGraph.tojson

        def tojson2(self):
            d = real(self)
            d["landmarks"]["connectivity"] = d["landmarks"]["connectivity"][:-1]
            return d

        F.patch(gr.PointGraph, "tojson", tojson2)
    elif mut == "ljson_swap_xy_3d":
        real_exp = outlm.ljson_exporter

        def exp(lmo, fh, **kw):
            class W:
                def __init__(s, o):
                    s.o = o
                    s.n_points = o.n_points

                def tojson(s):
                    d = s.o.tojson()
                    d["landmarks"]["points"] = [list(p[:2][::-1]) + list(p[2:]) if len(p) == 3 else p for p in d["landmarks"]["points"]]
                    return d

            try:
                lmo.n_points
                return real_exp(W(lmo), fh, **kw)
            except AttributeError:
                return real_exp({k: W(v) for k, v in lmo.items()}, fh, **kw)

        F.patch(outb, "landmark_types", dict(outb.landmark_types, **{".ljson": exp}))
    elif mut == "pts_no_offset":
        real_imp = inlm.pts_importer

        def imp(filepath, image_origin=True, **kw):
            r = real_imp(filepath, image_origin=image_origin, **kw)
            r["PTS"].points[:] = r["PTS"].points + 1
            return r

        import menpo.io.input.extensions as inext

        F.patch(inlm, "pts_importer", imp)
        F.patch(inext, "image_landmark_types", dict(inext.image_landmark_types, **{".pts": imp}))
        import menpo.io.input.base as inb

        F.patch(inb, "image_landmark_types", dict(inb.image_landmark_types, **{".pts": imp}))
    elif mut == "pts_two_decimals":
        def exp2(pc, fh, **kw):
            pts = pc.points[:, [1, 0]] + 1
            outlm.np.savetxt(fh, outlm.np.round(pts * 100) / 100 if not core.has_sym(pts) else _coarse(pts), delimiter=" ",
                             header="version: 1\nn_points: {}\n{{".format(pts.shape[0]), footer="}", fmt="%.3f", comments="")

        F.patch(outb, "landmark_types", dict(outb.landmark_types, **{".pts": exp2}))
    else:
        return


def _coarse(pts):
    out = np.empty(pts.shape, dtype=object)
    for i in np.ndindex(*pts.shape):
        out[i] = (pts[i] * 100).rint() / 100 if isinstance(pts[i], Sym) else round(pts[i] * 100) / 100
    return out


NAN_PATTERNS = ["none", "one", "point", "column", "all"]
CONCRETE_COORDS = [0.1, 1.0 / 3.0, 1e-17, 123456.789, -0.0, 2.5, -7.125, 1e300, 5e-324, 3.0000000000000004]


def _coords(F, tag, shape, cfg, lo=-8, hi=8):
    if cfg.get("concrete"):
        n = int(np.prod(shape))
        off = sum(map(ord, tag)) % len(CONCRETE_COORDS)
        vals = [CONCRETE_COORDS[(off + i) % len(CONCRETE_COORDS)] * (1 + i // len(CONCRETE_COORDS)) for i in range(n)]
        if cfg.get("small"):
            vals = [math.fmod(v, 1000.0) if abs(v) < 1e200 else 0.5 for v in vals]
        return np.array(vals, dtype=float).reshape(shape)
    return F.reals(tag, shape, lo, hi)


def _apply_nan(pts, pattern):
    if pattern == "none":
        return pts
    nan = float("nan")
    if pattern == "one":
        pts[1, 0] = nan
    elif pattern == "point":
        pts[0, :] = nan
    elif pattern == "column":
        pts[:, -1] = nan
    elif pattern == "all":
        pts[:, :] = nan
    return pts


def _is_nan(v):
    return isinstance(v, (float, np.floating)) and v != v


def _eq_coords(F, ob, name, got, want, tol_abs=None):
    """same shape, same NaN pattern, equal (or within tol_abs) elsewhere"""
    got, want = np.asarray(got), np.asarray(want)
    if got.shape != want.shape:
        ob.fail(name + ".shape", "%s vs %s" % (got.shape, want.shape))
        return
    for i in np.ndindex(*want.shape):
        g, w = got[i], want[i]
        nm = "%s%s" % (name, list(i))
        if _is_nan(w) or _is_nan(g):
            ob.true(nm + ".nan_pattern", _is_nan(w) and _is_nan(g))
        elif tol_abs is None:
            if isinstance(g, Sym) or isinstance(w, Sym):
                ob.eq(nm, g, w)
            elif F.sym:
                ob.true(nm, bool(g == w))   # concrete numbers: exactly equal (ob.eq would allow 1e-9)
            else:
                ob.same(nm, g, w)
        else:
            d = g - w
            ob.true(nm, F.and_(d <= tol_abs, d >= -tol_abs))


def _edge_set(shape):
    e = getattr(shape, "edges", None)
    if e is None:
        tl = getattr(shape, "trilist", None)
        if tl is None:
            return set()
        # a mesh is a graph through the sides of its triangles
        return set(frozenset((int(t[i]), int(t[j]))) for t in np.asarray(tl) for i, j in ((0, 1), (1, 2), (2, 0)))
    return set(frozenset((int(a), int(b))) for a, b in np.asarray(e).reshape(-1, 2))


def _labels_of(shape):
    l2m = getattr(shape, "_labels_to_masks", None)
    if l2m is None:
        return []
    return [(k, np.asarray(m, dtype=bool).tolist()) for k, m in l2m.items()]


def _snapshot_shape(s):
    return {"points": K.snapshot(s.points), "edges": _edge_set(s), "labels": _labels_of(s), "type": type(s).__name__}


def _same_landmark_group(F, ob, name, got, want, tol_abs=None, fmt="ljson"):
    _eq_coords(F, ob, name + ".points", got.points, want.points, tol_abs)
    if fmt == "ljson":
        ob.true(name + ".undirected_edges", _edge_set(got) == _edge_set(want))
        ob.true(name + ".labels_in_order", [k for k, _ in _labels_of(got)] == [k for k, _ in _labels_of(want)])
        ob.true(name + ".label_masks", _labels_of(got) == _labels_of(want))
        ob.true(name + ".n_dims", got.n_dims == want.n_dims)
    else:
        ob.true(name + ".is_pointcloud", type(got).__name__ == "PointCloud")


LJSON_CASES = ["manager", "dict", "labelled", "graph", "graph_no_edges", "pointcloud", "trimesh"]


def _ljson_objects(F, cfg, pattern):
    """(object to export, {group: shape expected back})"""
    from menpo.landmark import LandmarkManager
    from menpo.shape import LabelledPointUndirectedGraph, PointCloud, PointUndirectedGraph, TriMesh

    n, case = cfg["n"], cfg["case"]
    labels = OrderedDict([("zeta", np.array([1, 1, 0, 0], dtype=bool)), ("ωμέγα", np.array([0, 1, 1, 1], dtype=bool)),
                          ("mid", np.array([0, 1, 1, 0], dtype=bool))])
    edges = np.array([[0, 1], [1, 2], [3, 0]])

    def lab(tag):
        return LabelledPointUndirectedGraph.init_from_edges(_apply_nan(_coords(F, tag, (4, n), cfg), pattern), edges, labels, copy=False)

    def graph(tag, e):
        return PointUndirectedGraph.init_from_edges(_apply_nan(_coords(F, tag, (3, n), cfg), pattern), e, copy=False)

    def pc(tag):
        return PointCloud(_apply_nan(_coords(F, tag, (3, n), cfg), pattern), copy=False)

    if case in ("manager", "dict"):
        groups = OrderedDict()
        groups["b_grp"] = lab("b")
        groups["a_grp"] = PointCloud(_coords(F, "a", (3, n), cfg), copy=False)
        groups["γ-grp.v1"] = PointUndirectedGraph.init_from_edges(_coords(F, "g", (3, n), cfg), np.zeros((0, 2), dtype=int), copy=False)
        if case == "dict":
            return dict(groups), groups
        lm = LandmarkManager()
        for k, v in groups.items():
            lm[k] = v
        return lm, OrderedDict((k, lm[k]) for k in groups)
    if case == "labelled":
        o = lab("p")
    elif case == "graph":
        o = graph("p", np.array([[0, 1], [2, 1]]))
    elif case == "graph_no_edges":
        o = graph("p", np.zeros((0, 2), dtype=int))
    elif case == "pointcloud":
        o = pc("p")
    elif case == "trimesh":
        # a mesh is written as its points and the sides of its triangles
        o = TriMesh(_apply_nan(_coords(F, "p", (3, n), cfg), pattern), trilist=np.array([[0, 1, 2]]), copy=False)
    else:
        raise KeyError(case)
    return o, OrderedDict([("LJSON", o)])


def ljson(F, ob, cfg):
    """LJSON export -> import gives the same coordinates (NaN included), edges, ordered labels and group names"""
    import menpo.io as mio
    import menpo.io.input.landmark as inlm

    pattern = F.choice("nan_pattern", cfg.get("patterns", NAN_PATTERNS))
    symbolic = F.sym and not cfg.get("concrete")
    with _Tmp() as tmp, _RealNumpy(F, when=not symbolic):
        if symbolic:
            _install_codec_models(F)
        _mutate_landmark_io(F, cfg)
        obj, want = _ljson_objects(F, cfg, pattern)
        snaps = OrderedDict((k, _snapshot_shape(v)) for k, v in want.items())
        path = os.path.join(tmp.dir, "marks.v1.0.ljson")
        if symbolic:
            fh = _VFile()
            mio.export_landmark_file(obj, fh, extension=".ljson")
            ob.true("export.one_document", len(fh.docs) == 1 and fh.getvalue() == b"")
            got = inlm.ljson_importer(_VPath(fh, "marks.v1.0.ljson"))
        else:
            mio.export_landmark_file(obj, path)
            got = mio.import_landmark_file(path)
            # the text really is JSON without NaN literals
            import json as _json

            with open(path, "rb") as f:
                txt = f.read().decode("utf8")
            ob.true("file.strict_json", "NaN" not in txt and isinstance(_json.loads(txt), dict))
            for k in want:
                one = mio.import_landmark_file(Path(path), group=k)
                _eq_coords(F, ob, "group=%s.points" % k, one.points, want[k].points)
            for k, v in got.items():
                ob.true("imported[%s].path_recorded" % k, str(getattr(v, "path", "")) == path)
        ob.true("group_names", sorted(got.keys()) == sorted(want.keys()))
        for k in want:
            if k not in got:
                continue
            _same_landmark_group(F, ob, "group[%s]" % k, got[k], want[k])
            # the exported object is untouched
            now = _snapshot_shape(want[k])
            ob.true("exported[%s].structure_untouched" % k, now["edges"] == snaps[k]["edges"] and
                    now["labels"] == snaps[k]["labels"] and now["type"] == snaps[k]["type"])
            els, shp = snaps[k]["points"]
            _eq_coords(F, ob, "exported[%s].points_untouched" % k, want[k].points,
                       np.array(els, dtype=object if F.sym else float).reshape(shp))


def pts(F, ob, cfg):
    """PTS export -> import: every coordinate comes back within the format's three decimals"""
    import menpo.io as mio
    import menpo.io.input.landmark as inlm

    symbolic = F.sym and not cfg.get("concrete")
    half = core.Fr(1, 2000) if symbolic else 0.0005 + 1e-9
    with _Tmp() as tmp, _RealNumpy(F, when=not symbolic):
        if symbolic:
            _install_codec_models(F)
        _mutate_landmark_io(F, cfg)
        if cfg.get("concrete"):
            o = _conc_shape(cfg["cls"], cfg.get("n", 2), small=True)
        else:
            o = K.mk_shape(F, cfg["cls"], "p", cfg.get("n", 2), npts=cfg.get("npts", 3))
        before = K.freeze(K.digest(o))
        path = os.path.join(tmp.dir, "marks.v1.0.pts")
        if symbolic:
            fh = _VFile()
            mio.export_landmark_file(o, fh, extension="pts")
            doc = fh.docs[0].value if fh.docs else []
            ob.true("text.header", [str(l) for l in doc[:3]] == ["version: 1\n", "n_points: %d\n" % o.n_points, "{\n"])
            ob.true("text.footer", [str(l) for l in doc[-1:]] == ["}\n"])
            ob.true("text.one_line_per_point", len(doc) == o.n_points + 4)
            got = inlm.pts_importer(_VPath(fh, "marks.v1.0.pts"))
        else:
            if cfg.get("n", 2) != 2:
                # a 3-D shape cannot be held by the 2-D PTS format: it must be refused, not silently cut
                try:
                    mio.export_landmark_file(o, path)
                except ValueError:
                    ob.true("3d_shape.refused_or_kept", True)
                    ob.true("3d_shape.no_file_left_half_written", (not os.path.exists(path)) or os.path.getsize(path) == 0)
                    K.eq_digest(F, ob, "exported.untouched", K.digest(o), before)
                    return
            else:
                mio.export_landmark_file(o, path)
            got = mio.import_landmark_file(path)
            ob.true("imported.path_recorded", str(getattr(got.get("PTS"), "path", "")) == path)
        ob.true("group_names", list(got.keys()) == ["PTS"])
        if "PTS" in got:
            if cfg.get("n", 2) == 2:
                _same_landmark_group(F, ob, "PTS", got["PTS"], o, tol_abs=half, fmt="pts")
            else:
                # a 3-D shape cannot be held by the 2-D PTS format: it must be refused, not silently cut
                ob.fail("3d_shape.refused_or_kept", "a %d-D shape was written as 2-D points %s" % (cfg["n"], got["PTS"].points.shape))
        K.eq_digest(F, ob, "exported.untouched", K.digest(o), before)


# ====================================================================================================================
# concrete end-to-end round trips through the real codecs
# ====================================================================================================================
class _ConcVals:
    """stand-in for F that hands out deterministic concrete numbers (for K.mk_shape / K.mk_image)"""

    sym = False
    cfg = {}

    def __init__(self, small=False):
        self.k = 0
        self.small = small

    def reals(self, name, shape, lo=-8, hi=8):
        if isinstance(shape, int):
            shape = (shape,)
        n = int(np.prod(shape))
        self.k += 1
        base = (np.arange(n) * 0.37 + self.k * 0.211 + sum(map(ord, name)) * 0.013) % 1.0
        lo = -8 if lo is None else lo
        hi = 8 if hi is None else hi
        return (lo + (hi - lo) * base).reshape(shape)


def _conc_shape(cls, n, small=False, landmarks=0):
    return K.mk_shape(_ConcVals(small), cls, "p", n, npts=4, landmarks=landmarks)


def _deep_diff(a, b, where="obj", skip=("path",), seen=None, out=None):
    """differences between two object graphs (attribute by attribute, arrays by value incl. dtype/shape/NaN)"""
    import scipy.sparse as sp
    from pathlib import PurePath

    out = [] if out is None else out
    seen = set() if seen is None else seen
    if len(out) > 8:
        return out
    key = (id(a), id(b))
    if key in seen:
        return out
    seen.add(key)
    if isinstance(a, PurePath) and isinstance(b, PurePath):
        if str(a) != str(b):
            out.append("%s: path %s != %s" % (where, a, b))
        return out
    if type(a) is not type(b):
        out.append("%s: type %s != %s" % (where, type(a).__name__, type(b).__name__))
        return out
    if isinstance(a, np.ndarray):
        if a.dtype != b.dtype or a.shape != b.shape:
            out.append("%s: array %s%s != %s%s" % (where, a.dtype, a.shape, b.dtype, b.shape))
        elif a.dtype == object:
            for i in np.ndindex(*a.shape):
                _deep_diff(a[i], b[i], "%s%s" % (where, list(i)), skip, seen, out)
        elif not np.array_equal(a, b, equal_nan=a.dtype.kind in "fc"):
            out.append("%s: array values differ" % where)
        return out
    if sp.issparse(a):
        if a.shape != b.shape or a.format != b.format or (a != b).nnz:
            out.append("%s: sparse matrices differ" % where)
        return out
    if isinstance(a, dict):
        if list(a.keys()) != list(b.keys()):
            out.append("%s: keys %s != %s" % (where, list(a.keys()), list(b.keys())))
            return out
        for k in a:
            _deep_diff(a[k], b[k], "%s[%r]" % (where, k), skip, seen, out)
        return out
    if isinstance(a, (list, tuple)):
        if len(a) != len(b):
            out.append("%s: length %d != %d" % (where, len(a), len(b)))
            return out
        for i, (x, y) in enumerate(zip(a, b)):
            _deep_diff(x, y, "%s[%d]" % (where, i), skip, seen, out)
        return out
    if isinstance(a, (set, frozenset, str, bytes, int, bool, type(None), complex, np.generic)):
        if not (a == b or (a != a and b != b)):
            out.append("%s: %r != %r" % (where, a, b))
        return out
    if isinstance(a, float):
        if not (a == b or (a != a and b != b)) or math.copysign(1, a) != math.copysign(1, b):
            out.append("%s: %r != %r" % (where, a, b))
        return out
    if callable(a) and not hasattr(a, "__dict__"):
        if a != b:
            out.append("%s: callables differ" % where)
        return out
    import functools

    if isinstance(a, functools.partial):
        _deep_diff((a.func, a.args, a.keywords), (b.func, b.args, b.keywords), where + ".partial", skip, seen, out)
        return out
    if isinstance(a, type) or callable(a) and hasattr(a, "__qualname__") and not hasattr(a, "__self__"):
        if a is not b:
            out.append("%s: %r is not %r" % (where, a, b))
        return out
    state_a, state_b = _state_of(a), _state_of(b)
    if state_a is None:
        if a != b:
            out.append("%s: %r != %r" % (where, a, b))
        return out
    ka = [k for k in state_a if k not in skip]
    kb = [k for k in state_b if k not in skip]
    if sorted(ka) != sorted(kb):
        out.append("%s: attributes %s != %s" % (where, sorted(ka), sorted(kb)))
        return out
    for k in ka:
        _deep_diff(state_a[k], state_b[k], "%s.%s" % (where, k), skip, seen, out)
    return out


def _state_of(o):
    d = {}
    found = False
    if hasattr(o, "__dict__"):
        d.update(o.__dict__)
        found = True
    for cls in type(o).__mro__:
        for s in getattr(cls, "__slots__", ()) or ():
            if isinstance(s, str) and hasattr(o, s):
                d[s] = getattr(o, s)
                found = True
    return d if found else None


def _pickle_object(name):
    """concrete menpo objects of every family (built on real numpy)"""
    import menpo.transform as mt
    from menpo.image import BooleanImage, Image, MaskedImage
    from menpo.landmark import LandmarkManager
    from menpo.shape import PointCloud, TriMesh

    V = _ConcVals()
    if name.startswith("shape:"):
        _, cls, n = name.split(":")
        s = K.mk_shape(V, cls, "p", int(n), npts=4, landmarks=2)
        s.points[1, 0] = np.nan
        return s
    if name.startswith("image:"):
        cls = name.split(":")[1]
        if cls == "uint8":
            im = Image((np.arange(2 * 3 * 4).reshape(2, 3, 4) * 11 % 256).astype(np.uint8))
            im.landmarks["g"] = PointCloud(V.reals("l", (3, 2)))
            return im
        if cls == "float32":
            return Image(V.reals("f", (3, 2, 2), 0, 1).astype(np.float32))
        mask = (np.arange(6).reshape(2, 3) % 2) == 0 if cls == "MaskedImage" else None
        return K.mk_image(V, cls, "i", (2, 3), 2, mask=mask, landmarks=2)
    src = PointCloud(np.array([[0, 0], [1, 0.1], [0.2, 1], [1.3, 1.2], [0.5, 0.4]]))
    tgt = PointCloud(np.array([[0.1, 0], [1.2, 0.3], [0.1, 1.1], [1.5, 1.0], [0.4, 0.6]]))
    if name.startswith("transform:"):
        kind = name.split(":")[1]
        h = np.array([[1.5, 0.25, -2.0], [-0.5, 0.75, 3.0], [0, 0, 1.0]])
        if kind == "Homogeneous":
            h2 = h.copy()
            h2[2] = [0.1, -0.2, 1.5]
            return mt.Homogeneous(h2)
        if kind == "Affine":
            return mt.Affine(h)
        if kind == "Similarity":
            return mt.Similarity(np.array([[0.6, -0.8, 1.0], [0.8, 0.6, -2.0], [0, 0, 1.0]]) * np.array([[2], [2], [1.0]]) / np.array([[1, 1, 2.0], [1, 1, 2.0], [1, 1, 1.0]]))
        if kind == "Rotation2":
            return mt.Rotation.init_from_2d_ccw_angle(33.0)
        if kind == "Rotation3":
            return mt.Rotation.init_from_3d_ccw_angle_around_z(71.0)
        if kind == "Translation":
            return mt.Translation(np.array([1.5, -2.25, 0.5]))
        if kind == "UniformScale":
            return mt.UniformScale(2.5, 3)
        if kind == "NonUniformScale":
            return mt.NonUniformScale(np.array([2.5, 0.5]))
        if kind == "AlignmentSimilarity":
            return mt.AlignmentSimilarity(src, tgt)
        if kind == "AlignmentAffine":
            return mt.AlignmentAffine(src, tgt)
        if kind == "TPS":
            return mt.ThinPlateSplines(src, tgt)
        if kind == "PWA":
            return mt.PiecewiseAffine(TriMesh(src.points, trilist=np.array([[0, 1, 2], [1, 3, 2]])), tgt)
        if kind == "Chain":
            return mt.TransformChain([mt.Affine(h), mt.Translation(np.array([1.0, 2.0])), mt.AlignmentSimilarity(src, tgt)])
        raise KeyError(kind)
    if name.startswith("model:"):
        import menpo.model as mm

        kind = name.split(":")[1]
        rng = np.random.RandomState(7)
        samples = [PointCloud(src.points + 0.3 * rng.randn(5, 2)) for _ in range(6)]
        if kind == "PCAModel":
            m = mm.PCAModel(samples)
            m.trim_components(3)
            return m
        if kind == "PCAVectorModel":
            return mm.PCAVectorModel(np.array([s.as_vector() for s in samples]))
        if kind == "GMRFModel":
            from menpo.shape import UndirectedGraph

            g = UndirectedGraph.init_from_edges(np.array([[0, 1], [1, 2], [2, 3], [3, 4]]), 5)
            return mm.GMRFModel(samples, g, n_components=2, verbose=False)
        if kind == "MeanLinearVectorModel":
            return mm.MeanLinearVectorModel(rng.randn(3, 10), rng.randn(10))
        raise KeyError(kind)
    if name == "manager":
        lm = LandmarkManager()
        lm["b"] = K.mk_shape(V, "LabelledPointUndirectedGraph", "p", 2)
        lm["a"] = K.mk_shape(V, "PointCloud", "q", 2)
        return lm
    if name == "container":
        im = K.mk_image(V, "Image", "i", (2, 3), 1, landmarks=1)
        im.path = Path("/data/some dir/img.v1.png")
        return OrderedDict([("zz", [PointCloud(V.reals("p", (3, 2))), Path("/data/x.pts"), 3, "ωμέγα", None, (1.5, True)]),
                            ("aa", {"img": im, "arr": np.arange(5, dtype=np.int16), "nan": float("nan"), "set": frozenset([1, 2])}),
                            ("path", Path("relative/dir/file.v1.pkl.gz"))])
    raise KeyError(name)


PICKLE_OBJECTS = (["shape:%s:%d" % (c, n) for c in K.SHAPES for n in (2, 3)] +
                  ["image:Image", "image:MaskedImage", "image:BooleanImage", "image:uint8", "image:float32"] +
                  ["transform:" + k for k in ("Homogeneous", "Affine", "Similarity", "Rotation2", "Rotation3", "Translation",
                                              "UniformScale", "NonUniformScale", "AlignmentSimilarity", "AlignmentAffine",
                                              "TPS", "PWA", "Chain")] +
                  ["model:" + k for k in ("PCAModel", "PCAVectorModel", "GMRFModel", "MeanLinearVectorModel")] +
                  ["manager", "container"])


def pickle_roundtrip(F, ob, cfg):
    """export_pickle -> import_pickle gives an object with equal state (apart from the recorded path), for plain and
    gzipped pickles, str and Path spellings, every supported protocol"""
    import menpo.io as mio

    gz = F.bool("gzip")
    as_path = F.bool("fp_is_path")
    protocol = F.choice("protocol", cfg.get("protocols", [2, 4]))
    with _Tmp() as tmp, _RealNumpy(F):
        _mutate_pickle_io(F, cfg)
        obj = _pickle_object(cfg["obj"])
        twin = _pickle_object(cfg["obj"])
        ob.true("builder.deterministic", _deep_diff(obj, twin, skip=()) == [])
        target = os.path.join(tmp.dir, "thing.v1.2.pkl" + (".gz" if gz else ""))
        fp = Path(target) if as_path else os.path.relpath(target, os.getcwd())
        reduce_before = Path.__reduce__
        mio.export_pickle(obj, fp, protocol=protocol)
        ob.true("export.pathlib_pickling_restored", Path.__reduce__ is reduce_before)
        with open(target, "rb") as f:
            raw = f.read()
        ob.true("file.gzip_iff_asked", (raw[:2] == b"\x1f\x8b") == gz)
        stream = _content("pickle_gz", raw)
        if protocol >= 2:
            ob.true("file.pickle_protocol", stream[:2] == b"\x80" + bytes([protocol]))
        missing, _e = _outcome(lambda: mio.import_pickle(os.path.join(tmp.dir, "not.there.pkl")))
        ob.true("import.missing_file_refused", missing == "value_error")
        ob.true("export.object_untouched", _deep_diff(obj, twin, skip=()) == [])
        back = mio.import_pickle(fp)
        diff = _deep_diff(back, obj)
        if diff:
            ob.fail("roundtrip.equal_state", "; ".join(diff[:4]))
        else:
            ob.true("roundtrip.equal_state", True)
        from collections import abc as _abc

        if hasattr(back, "__dict__") and not isinstance(back, (_abc.Mapping, _abc.Sequence)):
            ob.true("roundtrip.path_recorded", str(getattr(back, "path", None)) == target)
        # a buffer round trip gives the same object as the file
        buf = io.BytesIO()
        mio.export_pickle(obj, buf, protocol=protocol)
        import pickle as _pickle

        ob.true("buffer.same_state", _deep_diff(_pickle.loads(buf.getvalue()), obj) == [])
        # no clobbering on a second export without overwrite; the file is intact
        res, _err = _outcome(lambda: mio.export_pickle(twin, fp, protocol=protocol))
        with open(target, "rb") as f:
            ob.true("second_export.refused_and_intact", res == "overwrite_error" and f.read() == raw)


def _mutate_pickle_io(F, cfg):
    mut = cfg.get("selftest_mutant")
    if not mut:
        return
    import menpo.io.output.base as outb

    if mut == "pickle_drops_landmarks":
        real = outb.pickle_types[".pkl"]

        def exp(obj, fh, protocol=2, **kw):
            o = obj
            if getattr(obj, "_landmarks", None) is not None:
                o = obj.copy()
                o._landmarks = None
            return real(o, fh, protocol=protocol, **kw)

        F.patch(outb, "pickle_types", {".pkl": exp, ".pkl.gz": exp})
    elif mut == "gz_never_compressed":
        F.patch(outb, "gzip_open", open)


def image_roundtrip(F, ob, cfg):
    """8-bit image data through the real PNG codec: import / export / re-import"""
    import menpo.io as mio
    from menpo.image import Image
    from menpo.shape import PointCloud

    ch = cfg["channels"]
    as_path = F.bool("fp_is_path")
    with _Tmp() as tmp, _RealNumpy(F):
        _mutate_image_io(F, cfg)
        x = np.arange(256, dtype=np.uint8).reshape(16, 16)
        if ch == 3:
            x = np.stack([x, x[::-1, :], x.T])
        else:
            x = x[None]
        ext = cfg.get("ext", ".png")
        f1 = os.path.join(tmp.dir, "first.v1" + ext)
        f2 = os.path.join(tmp.dir, "second.v1" + ext)
        f3 = os.path.join(tmp.dir, "third.v1" + ext)
        sp = (lambda p: Path(p)) if as_path else (lambda p: os.path.relpath(p, os.getcwd()))
        # the 8-bit source file (written from 8-bit data: no conversion involved)
        mio.export_image(Image(x.copy()), sp(f1))
        # (a) native import keeps the 8-bit data; export and re-import reproduce it
        a = mio.import_image(sp(f1), normalize=False)
        ob.true("native.dtype", a.pixels.dtype == np.uint8)
        ob.true("native.import=data", a.pixels.shape == x.shape and bool(np.array_equal(a.pixels, x)))
        ob.true("native.path_recorded", str(getattr(a, "path", "")) == f1)
        back_axis = a.pixels_with_channels_at_back(out_dtype=np.uint8)
        ob.true("native.channels_at_back", bool(np.array_equal(back_axis, x[0] if ch == 1 else np.moveaxis(x, 0, -1))))
        mio.export_image(a, sp(f2))
        b = mio.import_image(sp(f2), normalize=False)
        ob.true("native.reimport=data", b.pixels.shape == x.shape and bool(np.array_equal(b.pixels, x)))
        with open(f1, "rb") as h1, open(f2, "rb") as h2:
            ob.true("native.same_file_bytes", h1.read() == h2.read())
        # (b) normalised import: floats in [0,1] at the quantisation grid; export + re-import moves each pixel by
        # less than one level (the exact 8-bit clause for this route is decided by px_int)
        c = mio.import_image(sp(f1))
        ob.true("normalised.dtype", c.pixels.dtype == np.float64)
        ob.true("normalised.values", bool(np.array_equal(c.pixels, x * (1.0 / 255.0))))
        c.landmarks["marks"] = PointCloud(np.array([[1.0, 2.0], [3.5, 4.25], [15.0, 0.0]]))
        mio.export_image(c, sp(f3))
        mio.export_landmark_file(c.landmarks["marks"], os.path.join(tmp.dir, "third.v1.pts"))
        mio.export_landmark_file(c.landmarks["marks"], os.path.join(tmp.dir, "third.v1.ljson"))
        d = mio.import_image(sp(f3))
        ob.true("normalised.reimport.shape", d.pixels.shape == c.pixels.shape)
        if d.pixels.shape == c.pixels.shape:
            err = float(np.abs(d.pixels - c.pixels).max())
            ob.true("normalised.reimport.lt_one_level", err < 1.0 / 255.0)
        # landmark files next to the image are attached on import, under the names of their formats
        ob.true("landmarks.attached", sorted(d.landmarks.group_labels) == ["LJSON", "PTS"])
        for g in ("LJSON", "PTS"):
            if g in d.landmarks.group_labels:
                ob.true("landmarks[%s].points" % g, bool(np.allclose(d.landmarks[g].points, c.landmarks["marks"].points, atol=0.00051)))
        # an arbitrary float image in [0,1] moves by less than one level
        rng = np.random.RandomState(16)
        fl = Image(rng.rand(ch, 7, 5))
        f4 = os.path.join(tmp.dir, "float.v1" + ext)
        mio.export_image(fl, sp(f4))
        e = mio.import_image(sp(f4), landmark_resolver=None)
        ob.true("float.reimport.lt_one_level", e.pixels.shape == fl.pixels.shape and float(np.abs(e.pixels - fl.pixels).max()) < 1.0 / 255.0)
        # the exported image object is untouched by the export
        ob.true("export.image_untouched", bool(np.array_equal(fl.pixels, np.random.RandomState(16).rand(ch, 7, 5))))
        # out-of-range float data is refused and nothing is left behind ... or rather: no file is clobbered
        bad = Image(fl.pixels * 2.0)
        f5 = os.path.join(tmp.dir, "bad.v1" + ext)
        try:
            mio.export_image(bad, sp(f5))
            ob.fail("out_of_range.refused", "exported")
        except ValueError:
            ob.true("out_of_range.refused", True)
        missing, _e = _outcome(lambda: mio.import_image(os.path.join(tmp.dir, "not.there" + ext)))
        ob.true("import.missing_file_refused", missing == "value_error")


def image_unit_dims(F, ob, cfg):
    """images with a spatial axis of length one survive export and re-import with their shape"""
    import menpo.io as mio
    from menpo.image import Image

    ch, shp = cfg["channels"], tuple(cfg["shape"])
    as_path = F.bool("fp_is_path")
    with _Tmp() as tmp, _RealNumpy(F):
        n = ch * shp[0] * shp[1]
        x = (np.arange(n) * 37 % 256).astype(np.uint8).reshape((ch,) + shp)
        f1 = os.path.join(tmp.dir, "unit.v1.png")
        fp = Path(f1) if as_path else f1
        res, err = _outcome(lambda: mio.export_image(Image(x.copy()), fp))
        ob.true("export.ok", res == "ok")
        if res != "ok":
            return
        a = mio.import_image(fp, normalize=False)
        ob.true("reimport.shape", a.pixels.shape == x.shape)
        if a.pixels.shape == x.shape:
            ob.true("reimport.pixels", bool(np.array_equal(a.pixels, x)))


def history_chdir(F, ob, cfg):
    """the same relative spelling used from two working directories: the overwrite check must look where the file
    is actually written (export in directory A, change to directory B that already holds such a file, export again)"""
    entry = cfg["entry"]
    fname = ENTRY[entry][0]
    W = F.bool("overwrite_second")
    kind = F.choice("kind", ["str", "path"])
    cwd = os.getcwd()
    with _Tmp() as tmp, _RealNumpy(F):
        a_dir, b_dir = os.path.join(tmp.dir, "a"), os.path.join(tmp.dir, "b")
        os.mkdir(a_dir)
        os.mkdir(b_dir)
        with open(os.path.join(b_dir, fname), "wb") as f:
            f.write(SENTINEL)
        rel = fname if kind == "str" else Path(fname)
        try:
            os.chdir(a_dir)
            r1, _e1 = _outcome(lambda: _call_export(entry, _payload(entry, 0), rel, False))
            ob.true("first.exported", r1 == "ok" and os.path.exists(os.path.join(a_dir, fname)))
            # (the file in A may be removed again, as a caller cleaning up would do)
            os.remove(os.path.join(a_dir, fname))
            os.chdir(b_dir)
            obj = _payload(entry, 1)
            r2, _e2 = _outcome(lambda: _call_export(entry, obj, rel, W))
        finally:
            os.chdir(cwd)
        with open(os.path.join(b_dir, fname), "rb") as f:
            now = f.read()
        if W:
            ob.true("second.overwritten_when_asked", r2 == "ok" and now != SENTINEL)
        else:
            ob.true("second.refused", r2 == "overwrite_error")
            ob.true("second.file_intact", now == SENTINEL)
        ob.true("second.nothing_written_elsewhere", not os.path.exists(os.path.join(a_dir, fname)))


def _mutate_image_io(F, cfg):
    mut = cfg.get("selftest_mutant")
    if not mut:
        return
    import menpo.image.base as ib

    if mut == "channels_reversed":
        real = ib.channels_to_back

        def ctb(pixels):
            return real(pixels[::-1])

        F.patch(ib, "channels_to_back", ctb)
    elif mut == "import_div_256":
        import menpo.io.input.image as ii

        real_n = ii.normalize_pixels_range
        F.patch(ii, "normalize_pixels_range", lambda p, **k: p * (1.0 / 256.0) if p.dtype == np.uint8 else real_n(p, **k))


# ====================================================================================================================
def instances(tier):
    if os.environ.get("C16_SELFTEST"):
        return list(SELFTEST)
    thorough = tier != "quick"
    big = {"rlimit": 400_000_000, "max_s": 1500}
    out = []
    # ---- pixel kernels
    out.append(("px_int", {"bits": 8}, big))
    out.append(("px_int", {"bits": 16, "mode": "enum"}))
    out.append(("px_float", {"bits": 8}, big))
    out.append(("px_float", {"bits": 8, "mode": "cells"}))
    out.append(("px_float", {"bits": 16, "mode": "cells"}))
    out.append(("px_range", {"bits": 8}, big))
    out.append(("px_range", {"bits": 16}, big))
    out.append(("px_dtypes", {}))
    if thorough:
        out.append(("px_int", {"bits": 8, "mode": "enum"}))
        out.append(("px_int", {"bits": 16}, {"rlimit": 4_000_000_000, "max_s": 3000}))
        out.append(("px_float", {"bits": 8, "fbits": 32}, big))
        out.append(("px_range", {"bits": 8, "fbits": 32}, big))
        out.append(("px_range", {"bits": 8, "n": 3}, big))
    # ---- overwrite protocol
    for entry in ENTRY:
        for kind in ("str", "path", "file", "buffer"):
            if entry == "pickle_gz" and kind in ("file", "buffer"):
                continue  # a handle has no suffix to ask for compression with (export_pickle writes '.pkl' into handles)
            out.append(("overwrite", {"entry": entry, "kind": kind}))
        out.append(("history", {"entry": entry}))
        if thorough:
            out.append(("history", {"entry": entry, "mixed_kinds": True}))
    for entry in ("image", "ljson", "pts"):
        for kind in ("str", "path", "file"):
            out.append(("bad_extension", {"entry": entry, "kind": kind}))
    if thorough:
        for entry in ("ljson", "image", "pickle"):
            out.append(("overwrite", {"entry": entry, "kind": "str", "spellings": ["envvar", "tilde"]}))
        for entry in ENTRY:
            out.append(("overwrite", {"entry": entry, "kind": "path", "upper_names": True}))
    # ---- landmark formats
    for case in LJSON_CASES:
        for n in (2, 3):
            if not thorough and n == 3 and case in ("dict", "graph", "trimesh"):
                continue
            out.append(("ljson", {"case": case, "n": n}))
            out.append(("ljson", {"case": case, "n": n, "concrete": True}))
    for cls in K.SHAPES:
        out.append(("pts", {"cls": cls}))
        out.append(("pts", {"cls": cls, "concrete": True}))
    if thorough:
        out.append(("pts", {"cls": "PointCloud", "n": 3, "concrete": True}))
    # ---- concrete end-to-end
    objs = PICKLE_OBJECTS if thorough else [o for o in PICKLE_OBJECTS if not o.endswith(":3")]
    for o in objs:
        out.append(("pickle_roundtrip", {"obj": o, "protocols": [0, 1, 2, 3, 4, 5] if thorough else [2, 4]}))
    for ch in (1, 3):
        for shp in ([1, 5], [5, 1], [1, 1]):
            out.append(("image_unit_dims", {"channels": ch, "shape": shp}))
    for entry in ("ljson", "pts", "pickle", "image"):
        out.append(("history_chdir", {"entry": entry}))
    for ch in (1, 3):
        out.append(("image_roundtrip", {"channels": ch}))
        if thorough:
            for ext in (".bmp", ".tif", ".PNG"):
                out.append(("image_roundtrip", {"channels": ch, "ext": ext}))
    return out


SELFTEST = [
    ("px_int", {"bits": 8, "selftest_fixed": "rint"}, {"rlimit": 400_000_000}),
    ("px_int", {"bits": 8, "selftest_fixed": "round"}, {"rlimit": 400_000_000}),
    ("px_int", {"bits": 8, "selftest_fixed": "half"}, {"rlimit": 400_000_000}),
    ("px_int", {"bits": 16, "mode": "enum", "selftest_fixed": "rint"}),
    ("px_float", {"bits": 8, "selftest_fixed": "rint"}, {"rlimit": 400_000_000}),
    ("px_float", {"bits": 16, "mode": "cells", "selftest_fixed": "rint"}),
    ("px_range", {"bits": 8, "selftest_fixed": "rint"}, {"rlimit": 400_000_000}),
    ("px_int", {"bits": 8, "selftest_mutant": "norm_256"}, {"rlimit": 400_000_000}),
    ("px_float", {"bits": 8, "selftest_mutant": "denorm_254"}, {"rlimit": 400_000_000}),
    ("px_float", {"bits": 8, "mode": "cells", "selftest_mutant": "denorm_254"}),
    ("px_range", {"bits": 8, "selftest_mutant": "range_or_only_max"}, {"rlimit": 400_000_000}),
    ("overwrite", {"entry": "ljson", "kind": "str", "selftest_mutant": "no_exists_check"}),
    ("overwrite", {"entry": "image", "kind": "path", "selftest_mutant": "exists_or"}),
    ("overwrite", {"entry": "pts", "kind": "str", "selftest_mutant": "check_raw_name"}),
    ("overwrite", {"entry": "image", "kind": "str", "selftest_mutant": "open_before_check"}),
    ("history", {"entry": "pickle", "selftest_mutant": "pickle_ignores_overwrite"}),
    ("bad_extension", {"entry": "ljson", "kind": "str", "selftest_mutant": "open_before_check"}),
    ("ljson", {"case": "labelled", "n": 2, "selftest_mutant": "ljson_nan_to_zero"}),
    ("ljson", {"case": "labelled", "n": 2, "selftest_mutant": "ljson_labels_sorted"}),
    ("ljson", {"case": "graph", "n": 2, "selftest_mutant": "ljson_drop_last_edge"}),
    ("ljson", {"case": "pointcloud", "n": 3, "selftest_mutant": "ljson_swap_xy_3d"}),
    ("ljson", {"case": "manager", "n": 2, "concrete": True, "selftest_mutant": "ljson_labels_sorted"}),
    ("pts", {"cls": "PointCloud", "selftest_mutant": "pts_no_offset"}),
    ("pts", {"cls": "PointCloud", "selftest_mutant": "pts_two_decimals"}),
    ("pts", {"cls": "TriMesh", "concrete": True, "selftest_mutant": "pts_no_offset"}),
    ("pickle_roundtrip", {"obj": "shape:TriMesh:2", "selftest_mutant": "pickle_drops_landmarks"}),
    ("pickle_roundtrip", {"obj": "container", "selftest_mutant": "gz_never_compressed"}),
    ("image_roundtrip", {"channels": 3, "selftest_mutant": "channels_reversed"}),
    ("image_roundtrip", {"channels": 1, "selftest_mutant": "import_div_256"}),
]
