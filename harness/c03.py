"""C03 -- composition obeys its law, is closed and type-sound, leaves operands intact."""
import numpy as np

from harness import common as K

META = {
    "explanation": "C03: for every ordered pair of homogeneous-family classes (7 plain + 5 alignment "
    "variants), operands are ARBITRARY VALID MEMBERS with symbolic parameters (rotations through complete "
    "rational parametrisations, alignment variants with state set directly to target=T(source)); "
    "compose_before/compose_after and their in-place variants run for real on symbolic matrices and the "
    "law c(x)=b(a(x)) is proved for symbolic evaluation points, together with closure (single Homogeneous, "
    "never chain/alignment), class honesty of the result matrix, invertibility, and operand immutability. "
    "One step from arbitrary valid operands, so finite compose sequences follow by induction on the class invariant.",
    "bounds": ["n_dims in {2,3}", "2 symbolic evaluation points", "parameters boxed to [-8,8] (rotation "
               "parameters [-4,4], |scale|>=0.05, |det|>=0.05)", "chains of length 2-3",
               "Affine.decompose: 2x2 linear part through the parametrised SVD contract"],
    "stubs": ["np proxy constructors (eye/zeros/ones -> object arrays)", "numpy.linalg.inv/det -> cofactor closed forms",
              "numpy.linalg.svd (decompose only) -> complete O(2) parametrisation contract"],
    "assumptions": ["floats are modelled as exact reals (rounding not covered)",
                    "operands satisfy their class invariant (arbitrary valid member)",
                    "homogeneous coordinate of evaluated points is non-zero (projective members)"],
    "not_covered": ["ThinPlateSplines/PiecewiseAffine operands in compose (they fall back to TransformChain; the "
                    "chain law is checked with homogeneous and WithDims members)", "n_dims > 3"],
    "trusted": ["class-honesty predicates in harness/common.py", "rational parametrisations reach every rotation except the 2-D half turn"],
}


def instances(tier):
    out = []
    dims = [2] if tier == "quick" else [2, 3]
    for n in dims:
        for a in K.FAMILY:
            for b in K.FAMILY:
                out.append(("pair", {"a": a, "b": b, "n": n}))
    if tier != "quick":
        out.append(("pair", {"a": "Homogeneous", "b": "Homogeneous", "n": 2, "projective": True}))
        out.append(("pair", {"a": "Affine", "b": "Homogeneous", "n": 2, "projective": True}))
    else:
        for (a, b) in [("Affine", "Affine"), ("Rotation", "Similarity"), ("AlignmentSimilarity", "Translation"),
                       ("NonUniformScale", "UniformScale"), ("Rotation", "Rotation")]:
            out.append(("pair", {"a": a, "b": b, "n": 3}))
    for n in dims:
        for a in ["Affine", "Translation", "Chain", "WithDims"]:
            for b in ["Chain", "WithDims", "Rotation"]:
                if a in K.HOMOG and b in K.HOMOG:
                    continue
                out.append(("chain", {"a": a, "b": b, "n": n}))
    out.append(("decompose", {"n": 2, "regime": "separated"}))
    out.append(("decompose", {"n": 2, "regime": "near"}))
    return out


def _is_homog(t):
    from menpo.transform import Homogeneous

    return isinstance(t, Homogeneous)


def pair(F, ob, cfg):
    import menpo.transform as mt
    from menpo.transform.base import Alignment

    n = cfg["n"]
    a = K.mk_transform(F, cfg["a"], "a", n)
    b = K.mk_transform(F, cfg["b"], "b", n)
    x = F.reals("x", (2, n))
    sa, sb = K.snapshot(a.h_matrix), K.snapshot(b.h_matrix)
    ha, hb = a.h_matrix, b.h_matrix
    al_state = [(t, t._source, t._target, K.snapshot(t._source.points), K.snapshot(t._target.points))
                for t in (a, b) if isinstance(t, Alignment)]
    bx_after_a = b.apply(a.apply(x))
    ax_after_b = a.apply(b.apply(x))
    for mode, expect in (("before", bx_after_a), ("after", ax_after_b)):
        c = getattr(a, "compose_" + mode)(b)
        ob.true(mode + ".closed", isinstance(c, mt.Homogeneous) and not isinstance(c, mt.TransformChain)
                and not isinstance(c, Alignment))
        if not isinstance(c, mt.Homogeneous):
            continue
        ob.eq(mode + ".law", c.apply(x), expect)
        K.honest(F, ob, mode + ".honest", c)
        # invertible: det(c) = det(a) det(b), both non-zero by the operands' invariants
        ob.eq(mode + ".invertible", K.det(c.h_matrix), K.det(ha) * K.det(hb))
        # in-place variant
        a2 = a.copy()
        accepted = isinstance(b, a2.composes_inplace_with)
        before = K.snapshot(a2.h_matrix)
        try:
            getattr(a2, "compose_%s_inplace" % mode)(b)
            ob.true(mode + ".inplace.accepted", accepted)
            ob.eq(mode + ".inplace.law", a2.apply(x), expect)
            ob.true(mode + ".inplace.type", type(a2) is type(a))
        except ValueError:
            ob.true(mode + ".inplace.rejected", not accepted)
            K.same_terms(F, ob, mode + ".inplace.rejected.unchanged", before, a2.h_matrix)
    # operands intact
    K.same_terms(F, ob, "operands.a", sa, a.h_matrix)
    K.same_terms(F, ob, "operands.b", sb, b.h_matrix)
    for (t, s, tg, ss, st) in al_state:
        K.same_terms(F, ob, "alignment.source", ss, t._source.points)
        K.same_terms(F, ob, "alignment.target", st, t._target.points)


def _member(F, kind, tag, n):
    import menpo.transform as mt

    if kind == "Chain":
        return mt.TransformChain([K.mk_transform(F, "Affine", tag + "0", n),
                                  K.mk_transform(F, "Translation", tag + "1", n)])
    if kind == "WithDims":
        return mt.WithDims(list(range(n))[::-1])
    return K.mk_transform(F, kind, tag, n)


def chain(F, ob, cfg):
    """non-homogeneous operands: result is a TransformChain obeying the law; operand lists untouched"""
    import menpo.transform as mt

    n = cfg["n"]
    a = _member(F, cfg["a"], "a", n)
    b = _member(F, cfg["b"], "b", n)
    x = F.reals("x", (2, n))
    lists = [(t, list(t.transforms)) for t in (a, b) if isinstance(t, mt.TransformChain)]
    e_before = b.apply(a.apply(x))
    e_after = a.apply(b.apply(x))
    c = a.compose_before(b)
    ob.eq("before.law", c.apply(x), e_before)
    c2 = a.compose_after(b)
    ob.eq("after.law", c2.apply(x), e_after)
    for t, l in lists:
        ob.true("operand.list_unchanged", len(t.transforms) == len(l) and all(p is q for p, q in zip(t.transforms, l)))
    ob.eq("before.law.again", a.compose_before(b).apply(x), e_before)
    # in-place on a chain copy never touches the original
    if isinstance(a, mt.TransformChain):
        a2 = a.copy()
        a2.compose_before_inplace(b)
        ob.eq("inplace.law", a2.apply(x), e_before)
        ob.true("inplace.copy_independent", len(a.transforms) == len(lists[0][1]))
        a3 = a.copy()
        a3.compose_after_inplace(b)
        ob.eq("inplace.after.law", a3.apply(x), e_after)
        ob.true("inplace.after.copy_independent", len(a.transforms) == len(lists[0][1]))


def decompose(F, ob, cfg):
    """Affine.decompose recomposes to the affine map (2x2 SVD through the parametrised contract)"""
    from functools import reduce

    from harness import lapack

    n = cfg["n"]
    a = K.mk_transform(F, "Affine", "a", n)
    if F.sym:
        lapack.install_svd2(F)
    parts = a.decompose()
    # regime: are the two singular values inside the Scale factory's allclose band?
    if F.sym:
        from symx import core

        D = core.ctx().memo["svd_D"]
    else:
        D = np.linalg.svd(a.linear_component)[1]
    gap = D[0] - D[1]
    band = abs(D[0]) * 1e-5 + 1e-8
    if cfg["regime"] == "separated":
        F.assume(F.or_(F.eq(gap, 0), gap > band * 4))
    else:
        F.assume(F.and_(gap > 0, gap <= band))
    x = F.reals("x", (2, n))
    y = reduce(lambda p, t: t.apply(p), parts, x)
    ob.eq("recompose", y, a.apply(x))
    ob.true("n_parts", len(parts) == 4)
    rec = reduce(lambda p, q: p.compose_before(q), parts)
    ob.eq("recompose.composed", rec.apply(x), a.apply(x))
