"""C15 -- labelled groups select exactly what labels say, in deterministic order; the predefined
labellers only re-index their input.

Two families of harnesses:

* labellers (`discovery`, `labeller`, `size`, `size_kinds`, `via_manager`): every index-based labelling function of
  `menpo.landmark.labels` runs on an N x D array of symbolic coordinates (given as ndarray / PointCloud /
  LabelledPointUndirectedGraph, forked); the output rows must be input rows (row map read off a tagged run, then
  proved termwise on the symbolic input), pairwise distinct, all labelled; labelling commutes with an arbitrary
  valid Affine; the input is termwise unchanged; the input size is a symbolic integer (stand-in point cloud), so
  *every* wrong size must be refused with LabellingError before the points are touched.
* selection (`select`, `add_label_existing`): a LabelledPointUndirectedGraph with symbolic coordinates, a concrete edge
  set and three labels whose masks are symbolic booleans (forked); with_labels / without_labels / get_label /
  add_label / remove_label are compared with an independent oracle (points under the union of the requested masks,
  induced edges, restricted masks in the ORIGINAL label order, every point labelled or a refusal).  Inside
  menpo.shape.labelled the builtin `set` is replaced by a set whose iteration order is a symbolic permutation, so
  "original order" has to hold for every hash seed; a counterexample is replayed by running the real call in
  sub-processes under different PYTHONHASHSEED values.
"""
import itertools
import json
import os
import subprocess
import sys
from collections import OrderedDict

import numpy as np

from harness import common as K

META = {
    "explanation": "C15: (labellers) each of the 33 index-based labelling functions, found by introspection and "
    "cross-checked against the harness table, is run on N x D symbolic coordinates given as ndarray, PointCloud or "
    "LabelledPointUndirectedGraph: every output coordinate is proved to be the coordinate of one input row (same "
    "column), the row map is injective, every output point is covered by the returned label mapping (and by the masks "
    "of a labelled output), label(T(x)) equals T(label(x)) in full state for an arbitrary invertible symbolic Affine T, "
    "the input array/object is termwise unchanged, and with the input size presented as a symbolic integer the "
    "function raises LabellingError for every size other than the expected one before reading the points. "
    "(selection) for a labelled graph with symbolic coordinates, concrete edge set and three labels with forked "
    "boolean masks (all 7^n covering patterns; non-covering patterns must be refused by the constructor), "
    "with_labels/without_labels for every subset of labels (list or single string), get_label, remove_label for every "
    "label, add_label for every index subset are compared with an independent oracle: exactly the points under the "
    "requested masks in order (identical terms), the induced edges, the surviving labels in their original order with "
    "restricted masks, every point labelled, ValueError when a point would lose its last label, the receiver "
    "unchanged and not aliased by the result. Python sets created inside menpo.shape.labelled iterate in a symbolic "
    "permutation, so the order obligations are proved for every hash seed.",
    "bounds": ["labellers: the 33 exported index-based labellers, D=2 (D=3 for the 3-D face labeller; D=3 for all in "
               "the thorough tier), coordinates boxed to [-8,8], input size a symbolic integer in [0,100000]",
               "selection: 2-4 points, 3 labels (names 'left_eye','alpha','eye' (one a substring of another)), edge sets from a fixed list (all 8 for 3 "
               "points in the thorough tier)", "hash-seed replay searches PYTHONHASHSEED 1..24"],
    "stubs": ["builtin set (module global of menpo.shape.labelled) -> set subclass whose iteration order is a forked "
              "permutation", "stand-in PointCloud with symbolic n_points (size harness)"],
    "assumptions": ["floats are exact reals (re-indexing does no arithmetic; replay compares bit for bit)",
                    "set literals/comprehensions (not the name `set`) would escape the permutation model; "
                    "menpo.shape.labelled has none"],
    "not_covered": ["label strings other than the small alphabet used", "the two bounding-box labellers (outside the property)",
                    "whether a labeller's output shares memory with its input (eye_ibug_*_trimesh build the TriMesh with copy=False)",
                    "more than 4 points / 3 labels in selection", "request lists that repeat a label or are not in group order"],
    "trusted": ["selection oracle and row-map extraction in harness/c15.py", "state digest in harness/common.py"],
}

# name -> number of points the labeller expects
LABELLERS = OrderedDict([
    ("car_streetscene_20_to_car_streetscene_view_0_8", 20), ("car_streetscene_20_to_car_streetscene_view_1_14", 20),
    ("car_streetscene_20_to_car_streetscene_view_2_10", 20), ("car_streetscene_20_to_car_streetscene_view_3_14", 20),
    ("car_streetscene_20_to_car_streetscene_view_4_14", 20), ("car_streetscene_20_to_car_streetscene_view_5_10", 20),
    ("car_streetscene_20_to_car_streetscene_view_6_14", 20), ("car_streetscene_20_to_car_streetscene_view_7_8", 20),
    ("eye_ibug_close_17_to_eye_ibug_close_17", 17), ("eye_ibug_close_17_to_eye_ibug_close_17_trimesh", 17),
    ("eye_ibug_open_38_to_eye_ibug_open_38", 38), ("eye_ibug_open_38_to_eye_ibug_open_38_trimesh", 38),
    ("face_bu3dfe_83_to_face_bu3dfe_83", 83), ("face_ibug_49_to_face_ibug_49", 49),
    ("face_ibug_68_mirrored_to_face_ibug_68", 68), ("face_ibug_68_to_face_ibug_49", 68),
    ("face_ibug_68_to_face_ibug_49_trimesh", 68), ("face_ibug_68_to_face_ibug_51", 68),
    ("face_ibug_68_to_face_ibug_51_trimesh", 68), ("face_ibug_68_to_face_ibug_65", 68),
    ("face_ibug_68_to_face_ibug_66", 68), ("face_ibug_68_to_face_ibug_66_trimesh", 68),
    ("face_ibug_68_to_face_ibug_68", 68), ("face_ibug_68_to_face_ibug_68_trimesh", 68),
    ("face_imm_58_to_face_imm_58", 58), ("face_lfpw_29_to_face_lfpw_29", 29), ("hand_ibug_39_to_hand_ibug_39", 39),
    ("pose_flic_11_to_pose_flic_11", 11), ("pose_human36M_32_to_pose_human36M_17", 32),
    ("pose_human36M_32_to_pose_human36M_32", 32), ("pose_lsp_14_to_pose_lsp_14", 14),
    ("pose_stickmen_12_to_pose_stickmen_12", 12), ("tongue_ibug_19_to_tongue_ibug_19", 19),
])
BBOX = ["bounding_box_mirrored_to_bounding_box", "bounding_box_to_bounding_box"]
DIMS3 = {"face_bu3dfe_83_to_face_bu3dfe_83"}
KINDS = ["array", "pointcloud", "lgraph"]

LABELS = ["left_eye", "alpha", "eye"]  # original order is not the sorted order; one name is a substring of another
NEW_LABEL = "beta"
EDGESETS = {
    2: [[], [[0, 1]]],
    3: [[], [[0, 1]], [[1, 2]], [[0, 2]], [[0, 1], [1, 2]], [[0, 1], [0, 2]], [[1, 2], [0, 2]], [[0, 1], [1, 2], [0, 2]]],
    4: [[[0, 1], [1, 2], [2, 3]], [[0, 1], [1, 2], [2, 3], [3, 0], [0, 2]], [[0, 3], [1, 3]], []],
}
OPS = ["with_labels", "without_labels", "get_label", "remove_label", "add_label"]
BIG = {"max_paths": 60000, "max_s": 1500}


def _selftest_instances():
    """mutants of menpo installed by the harness itself (C15_SELFTEST=1 ./check C15): every one must be reported"""
    t, f = "tongue_ibug_19_to_tongue_ibug_19", "face_ibug_68_to_face_ibug_68"
    return [
        ("size", {"name": f, "d": 2, "selftest_mutant": "validate_less"}),
        ("size_kinds", {"name": f, "selftest_mutant": "validate_less"}),
        ("labeller", {"name": t, "d": 2, "selftest_mutant": "dup_row"}),
        ("labeller", {"name": t, "d": 2, "selftest_mutant": "swap_input"}),
        ("labeller", {"name": t, "d": 2, "selftest_mutant": "flip_axis"}),
        ("labeller", {"name": t, "d": 2, "selftest_mutant": "drop_label"}),
        ("via_manager", {"name": t, "selftest_mutant": "swap_input"}),
        ("constructor", {"n": 2, "edges": 1, "selftest_mutant": "no_verify"}, BIG),
        ("select", {"op": "remove_label", "n": 2, "edges": 1, "selftest_mutant": "remove_no_verify"}, BIG),
        ("select", {"op": "with_labels", "n": 2, "edges": 1, "selftest_mutant": "with_intersection"}, BIG),
        ("select", {"op": "with_labels", "n": 2, "edges": 1, "selftest_mutant": "with_sorted"}, BIG),
        ("select", {"op": "with_labels", "n": 3, "edges": 4, "req": 5, "selftest_mutant": "with_set_dedupe"}, BIG),
        ("select", {"op": "add_label", "n": 2, "edges": 1, "selftest_mutant": "add_label_inplace"}, BIG),
        ("select", {"op": "add_label", "n": 2, "edges": 1, "selftest_mutant": "copy_shares_dict"}, BIG),
        ("select", {"op": "get_label", "n": 3, "edges": 4, "selftest_mutant": "get_label_no_edges"}, BIG),
        ("select", {"op": "remove_label", "n": 2, "edges": 1, "selftest_mutant": "copy_shares_masks"}, BIG),
    ]


def instances(tier):
    if os.environ.get("C15_SELFTEST"):
        return _selftest_instances()
    out = [("discovery", {})]
    for name in LABELLERS:
        d = 3 if name in DIMS3 else 2
        out.append(("labeller", {"name": name, "d": d}))
        out.append(("size", {"name": name, "d": d}))
        if tier != "quick":
            out.append(("labeller", {"name": name, "d": 5 - d}))
    for name in (list(LABELLERS) if tier != "quick" else
                 ["face_ibug_68_to_face_ibug_49", "eye_ibug_close_17_to_eye_ibug_close_17_trimesh",
                  "pose_human36M_32_to_pose_human36M_17", "tongue_ibug_19_to_tongue_ibug_19",
                  "face_ibug_68_mirrored_to_face_ibug_68", "car_streetscene_20_to_car_streetscene_view_1_14"]):
        out.append(("size_kinds", {"name": name}))
        out.append(("via_manager", {"name": name}))
    for n in ((2, 3) if tier == "quick" else (2, 3, 4)):
        out.append(("constructor", {"n": n, "edges": 1}, BIG))
    # NB without_labels is split into few instances on purpose: as long as its result depends on the hash seed every
    # instance that keeps two or more labels ends in sub-process replays, which run one after the other
    if tier == "quick":
        for r in range(8):
            out.append(("select", {"op": "with_labels", "n": 3, "edges": 4, "req": r}, BIG))
            out.append(("select", {"op": "add_label", "n": 3, "edges": 7, "idx": r}, BIG))
        for r in (0, 6, 7):
            out.append(("select", {"op": "without_labels", "n": 3, "edges": 5, "req": r}, BIG))
        out.append(("select", {"op": "get_label", "n": 3, "edges": 6}, BIG))
        out.append(("select", {"op": "remove_label", "n": 3, "edges": 4}, BIG))
        for op in OPS:
            out.append(("select", {"op": op, "n": 2, "edges": 1}, BIG))
        out.append(("select", {"op": "with_labels", "n": 4, "edges": 0, "req": 3}, BIG))
        out.append(("select", {"op": "without_labels", "n": 4, "edges": 1, "req": 6}, BIG))
        out.append(("add_label_existing", {"n": 2, "edges": 1}, BIG))
    else:
        for op in OPS:
            out.append(("select", {"op": op, "n": 2, "edges": 0}, BIG))
            out.append(("select", {"op": op, "n": 2, "edges": 1}, BIG))
        for e in range(len(EDGESETS[3])):
            for op in ("with_labels", "add_label", "get_label", "remove_label"):
                out.append(("select", {"op": op, "n": 3, "edges": e}, BIG))
            if e in (0, 3, 4, 7):
                out.append(("select", {"op": "without_labels", "n": 3, "edges": e}, BIG))
        for e in (0, 1):
            for l in range(3):
                out.append(("select", {"op": "get_label", "n": 4, "edges": e, "label": l}, BIG))
                out.append(("select", {"op": "remove_label", "n": 4, "edges": e, "label": l}, BIG))
            for r in range(8):
                out.append(("select", {"op": "with_labels", "n": 4, "edges": e + 2 * (r % 2), "req": r}, BIG))
            for r in (0, 1, 6, 7):
                out.append(("select", {"op": "without_labels", "n": 4, "edges": e + 2, "req": r}, BIG))
        for a in range(16):
            out.append(("select", {"op": "add_label", "n": 4, "edges": a % 4, "idx": a}, BIG))
        out.append(("add_label_existing", {"n": 2, "edges": 1}, BIG))
        out.append(("add_label_existing", {"n": 3, "edges": 4}, BIG))
    return out


# =============================================================================================== labellers
def _fn(name):
    import menpo.landmark.labels as ml

    return getattr(ml, name)


def _wrap(F, kind, x):
    """the point set `x` presented as ndarray / PointCloud / LabelledPointUndirectedGraph"""
    from menpo.shape import LabelledPointUndirectedGraph, PointCloud

    if kind == "array":
        return x
    if kind == "pointcloud":
        return PointCloud(x, copy=False)
    n = x.shape[0]
    first = np.zeros(n, dtype=bool)
    first[: max(1, n // 3)] = True
    masks = OrderedDict([("whole", np.ones(n, dtype=bool)), ("first", first)])
    edges = np.array([[i, i + 1] for i in range(0, n - 1, 2)] + ([[0, n - 1]] if n > 2 else [])) if n > 1 else None
    return LabelledPointUndirectedGraph.init_from_edges(x, edges, masks, copy=False)


def _tag(n, d):
    """row i, column j holds i*d + j: every entry names its own position"""
    return np.arange(n * d, dtype=float).reshape(n, d)


def _row_map(ob, name, tagged_points, n, d):
    """read the row map off the output of a run on the tagged input; None if some output row is not an input row"""
    tp = np.asarray(tagged_points)
    if tp.ndim != 2 or tp.shape[1] != d:
        ob.fail(name + ".shape", "output points have shape %s for %d-D input" % (tp.shape, d))
        return None
    rows = []
    for i in range(tp.shape[0]):
        r = None
        for j in range(d):
            v = tp[i, j]
            try:
                fv = float(v)
            except (TypeError, ValueError):
                fv = float("nan")
            k = int(round(fv)) if fv == fv and abs(fv) < 1e9 else -1
            if k != fv or k < 0 or k >= n * d or k % d != j or (r is not None and k // d != r):
                ob.fail(name, "output point %d is not a row of the input (tagged run gave %r)" % (i, list(tp[i])))
                return None
            r = k // d
        rows.append(r)
    return rows


def _mutate_labeller(F, cfg):
    """self-test only: plausible bugs, installed with F.patch (both modes)"""
    m = cfg.get("selftest_mutant")
    if not m:
        return
    import menpo.landmark.labels.base as lb
    import menpo.landmark.labels.car as car
    import menpo.landmark.labels.human.face as face
    import menpo.landmark.labels.human.pose as pose

    if m == "validate_less":  # the docstring's "less than the expected number of points"
        def validate_input(pcloud, n_expected_points):
            if pcloud.n_points < n_expected_points:
                raise lb.LabellingError("too few")

        for mod in (lb, car, face, pose):
            F.patch(mod, "validate_input", validate_input)
    elif m == "dup_row":  # an index list with an off-by-one: one input point used twice
        orig = lb.pcloud_and_lgroup_from_ranges

        def bad(pointcloud, labels_to_ranges):
            g, mp = orig(pointcloud, labels_to_ranges)
            g.points[1] = g.points[0]
            return g, mp

        for mod in (lb, face, pose):
            F.patch(mod, "pcloud_and_lgroup_from_ranges", bad)
    elif m == "swap_input":  # in-place edit of the caller's points
        orig = lb.pcloud_and_lgroup_from_ranges

        def bad(pointcloud, labels_to_ranges):
            pointcloud.points[[0, 1]] = pointcloud.points[[1, 0]]
            return orig(pointcloud, labels_to_ranges)

        for mod in (lb, face, pose):
            F.patch(mod, "pcloud_and_lgroup_from_ranges", bad)
    elif m == "flip_axis":  # mirrors the first axis: no longer a re-indexing, does not commute with translations
        orig = lb.pcloud_and_lgroup_from_ranges

        def bad(pointcloud, labels_to_ranges):
            g, mp = orig(pointcloud, labels_to_ranges)
            g.points[:, 0] = -g.points[:, 0]
            return g, mp

        for mod in (lb, face, pose):
            F.patch(mod, "pcloud_and_lgroup_from_ranges", bad)
    elif m == "drop_label":  # range end off by one: the last point of the last range gets no label
        orig = lb.pcloud_and_lgroup_from_ranges

        def bad(pointcloud, labels_to_ranges):
            from menpo.shape import PointUndirectedGraph

            g, mp = orig(pointcloud, labels_to_ranges)
            k = list(mp)[-1]
            mp[k] = mp[k][:-1]
            return PointUndirectedGraph(g.points, g.adjacency_matrix), mp

        for mod in (lb, face, pose):
            F.patch(mod, "pcloud_and_lgroup_from_ranges", bad)


def discovery(F, ob, cfg):
    """the harness table is exactly the set of exported index-based labellers"""
    import menpo.landmark as mland
    import menpo.landmark.labels as ml

    found = sorted(n for n in dir(ml) if callable(getattr(ml, n)) and hasattr(getattr(ml, n), "group_label"))
    ob.true("index_labellers=table", [n for n in found if n not in BBOX] == sorted(LABELLERS))
    ob.true("bounding_box_labellers", [n for n in found if n in BBOX] == sorted(BBOX))
    ob.true("count", len(LABELLERS) == 33)
    top = sorted(n for n in dir(mland) if callable(getattr(mland, n)) and hasattr(getattr(mland, n), "group_label"))
    ob.true("menpo.landmark exports the same functions", top == found)
    for n in found:
        ob.true("group_label[%s]" % n, isinstance(getattr(ml, n).group_label, str) and len(getattr(ml, n).group_label) > 0)


def labeller(F, ob, cfg):
    import menpo.shape as ms

    name, d = cfg["name"], cfg["d"]
    n = LABELLERS[name]
    fn = _fn(name)
    _mutate_labeller(F, cfg)
    kind = F.choice("kind", KINDS)
    x = F.reals("x", (n, d))
    inp = _wrap(F, kind, x)
    x_before = K.snapshot(x)
    inp_before = None if kind == "array" else K.freeze(K.digest(inp))

    out, mapping = fn(inp, return_mapping=True)
    ob.true("output.is_pointcloud", isinstance(out, ms.PointCloud))
    # ---- only re-indexes: row map from a tagged run, then proved on the symbolic input
    tagged = fn(_wrap(F, kind, _tag(n, d)))
    rows = _row_map(ob, "rows.are_input_rows", tagged.points, n, d)
    if rows is not None:
        ob.true("rows.count", len(rows) == out.n_points)
        ob.true("rows.distinct", len(set(rows)) == len(rows))
        if len(rows) == out.n_points and np.shape(out.points) == (len(rows), d):
            ob.same("points=input[rows]", out.points, x[rows])
        else:
            ob.fail("points.shape", "%s" % (np.shape(out.points),))
    # ---- every output point is labelled
    m = out.n_points
    cover = np.zeros(m, dtype=int)
    ok_idx = True
    for lab, idx in mapping.items():
        idx = np.asarray(idx)
        if idx.size and (idx.min() < 0 or idx.max() >= m):
            ok_idx = False
            continue
        cover[idx] += 1
    ob.true("mapping.indices_in_range", ok_idx)
    ob.true("mapping.nonempty", len(mapping) > 0)
    ob.true("every_output_point_labelled", bool(np.all(cover > 0)))
    if isinstance(out, ms.LabelledPointUndirectedGraph):
        ob.true("labels=mapping.keys", list(out.labels) == list(mapping.keys()))
        tot = np.zeros(m, dtype=int)
        for lab in out.labels:
            want = np.zeros(m, dtype=bool)
            if lab in mapping and ok_idx:
                want[np.asarray(mapping[lab])] = True
            got = np.asarray(out._labels_to_masks[lab])
            ob.true("mask[%s]=mapping" % lab, got.shape == want.shape and bool(np.array_equal(got, want)))
            if got.shape == (m,):
                tot += got.astype(int)
        ob.true("every_output_point_masked", bool(np.all(tot > 0)))
    # ---- default call (no mapping) gives the same object state
    out_plain = fn(inp)
    K.eq_digest(F, ob, "return_mapping_irrelevant", K.digest(out_plain), K.digest(out))
    # ---- input untouched
    K.same_terms(F, ob, "input_array_unchanged", x_before, x)
    if inp_before is not None:
        K.eq_digest(F, ob, "input_object_unchanged", K.digest(inp), inp_before)
    # ---- commutes with an arbitrary invertible affine map of the input
    T = K.mk_transform(F, "Affine", "T", d)
    lhs = fn(T.apply(inp))
    rhs = T.apply(out)
    K.eq_digest(F, ob, "label(T(x))=T(label(x))", K.digest(lhs), K.digest(rhs))
    K.same_terms(F, ob, "input_array_unchanged_after_transform", x_before, x)


class _Touched(BaseException):
    pass


def _probe_class():
    from menpo.shape import PointCloud

    class Probe(PointCloud):
        """a point cloud whose size is a symbolic integer; reading the coordinates is recorded"""

        def __init__(self, n, supply):
            self.__dict__["_n"] = n
            self.__dict__["_supply"] = supply
            self.__dict__["touched"] = 0
            self.__dict__["_landmarks"] = None

        @property
        def n_points(self):
            return self._n

        @property
        def points(self):
            self.__dict__["touched"] += 1
            return self._supply()

    return Probe


def size(F, ob, cfg):
    """every wrong size is refused with LabellingError before the coordinates are read (size symbolic)"""
    from menpo.landmark.exceptions import LabellingError
    from menpo.shape import PointCloud

    name, d = cfg["name"], cfg["d"]
    exp = LABELLERS[name]
    fn = _fn(name)
    _mutate_labeller(F, cfg)
    n = F.symint("n", 0, 100000)
    if F.sym:
        state = {"pts": None}

        def supply():
            # the coordinates exist only on the path where the size is the expected one
            if not bool(F.eq(n, exp)):
                raise _Touched()
            if state["pts"] is None:
                state["pts"] = F.reals("x", (exp, d))
            return state["pts"]

        inp = _probe_class()(n, supply)
    else:
        inp = PointCloud(_tag(int(n), d) * 0.25 - 3.0, copy=False)
    try:
        out = fn(inp)
    except LabellingError:
        ob.true("wrong_size.refused_only_when_wrong", F.not_(F.eq(n, exp)))
        if F.sym:
            ob.true("wrong_size.refused_before_reading_points", inp.touched == 0)
        return
    except _Touched:
        ob.fail("wrong_size.refused", "size differs from the expected %d, yet the labeller went on to read the points" % exp)
        return
    except (IndexError, ValueError) as e:
        # e.g. the replay of a wrong size that the labeller did not refuse itself
        ob.fail("wrong_size.refused", "neither accepted nor refused with LabellingError: %s: %s" % (type(e).__name__, e))
        return
    ob.true("wrong_size.refused", F.eq(n, exp))
    ob.true("right_size.accepted", out.n_points <= exp and out.n_points > 0)


def size_kinds(F, ob, cfg):
    """concrete wrong sizes around the expected one, for the three input kinds"""
    from menpo.landmark.exceptions import LabellingError

    name = cfg["name"]
    exp = LABELLERS[name]
    fn = _fn(name)
    _mutate_labeller(F, cfg)
    kind = F.choice("kind", KINDS)
    n = F.choice("n", sorted(set([1, 2, exp - 1, exp, exp + 1, 2 * exp, max(1, exp - 17)])))
    x = F.reals("x", (n, 2))
    inp = _wrap(F, kind, x)
    before = K.snapshot(x)
    try:
        out = fn(inp)
        ob.true("accepted_only_expected_size", n == exp)
    except LabellingError:
        ob.true("refused_only_wrong_size", n != exp)
    except (IndexError, ValueError) as e:
        if n == exp:
            raise
        ob.fail("wrong_size.refused_with_LabellingError", "%d points instead of %d: %s: %s" % (n, exp, type(e).__name__, e))
    K.same_terms(F, ob, "input_unchanged", before, x)


def via_manager(F, ob, cfg):
    """menpo.landmark.labeller(obj, group, f): attaches f(obj.landmarks[group]) under f.group_label and leaves the
    source group alone"""
    from menpo.landmark import labeller as attach
    from menpo.shape import PointCloud

    name = cfg["name"]
    n = LABELLERS[name]
    fn = _fn(name)
    _mutate_labeller(F, cfg)
    kind = F.choice("kind", KINDS[1:])
    x = F.reals("x", (n, 2))
    host = PointCloud(K.const(F, [[0.0, 0.0], [1.0, 2.0]]), copy=False)
    host.landmarks["src"] = _wrap(F, kind, x)
    before = K.freeze(K.digest(host.landmarks["src"]))
    want = K.freeze(K.digest(fn(_wrap(F, kind, x))))
    r = attach(host, "src", fn)
    ob.true("returns_host", r is host)
    ob.true("groups", sorted(host.landmarks.keys()) == sorted(["src", fn.group_label]))
    if fn.group_label in host.landmarks.keys():
        K.eq_digest(F, ob, "attached=label(group)", K.digest(host.landmarks[fn.group_label]), want)
    K.eq_digest(F, ob, "source_group_unchanged", K.digest(host.landmarks["src"]), before)


# =============================================================================================== selection
def _install_permset(F):
    """module-global `set` of menpo.shape.labelled -> a set whose iteration order is an arbitrary permutation"""
    import menpo.shape.labelled as lab

    cnt = itertools.count()

    def rank(v):
        return (LABELS.index(v) if v in LABELS else len(LABELS), repr(v))

    class PermSet(set):
        def __iter__(self):
            base = sorted(set.__iter__(self), key=rank)
            k = next(cnt)
            order = []
            while len(base) > 1:
                j = F.choice("order%d_%d" % (k, len(base)), list(range(len(base))))
                order.append(base.pop(j))
            order.extend(base)
            return iter(order)

        def difference(self, *o):
            return PermSet(set.difference(self, *o))

        def union(self, *o):
            return PermSet(set.union(self, *o))

        def intersection(self, *o):
            return PermSet(set.intersection(self, *o))

        def symmetric_difference(self, o):
            return PermSet(set.symmetric_difference(self, o))

        def copy(self):
            return PermSet(set.copy(self))

        def __sub__(self, o):
            return PermSet(set.__sub__(self, o))

        def __or__(self, o):
            return PermSet(set.__or__(self, o))

        def __and__(self, o):
            return PermSet(set.__and__(self, o))

        def __xor__(self, o):
            return PermSet(set.__xor__(self, o))

    F.patch(lab, "set", PermSet)
    F.patch(lab, "frozenset", PermSet)


def _mutate_select(F, cfg):
    m = cfg.get("selftest_mutant")
    if not m:
        return
    import menpo.shape.labelled as lab

    L = lab.LabelledPointUndirectedGraph
    if m == "remove_no_verify":
        def remove_label(self, label):
            new = self.copy()
            new._labels_to_masks.pop(label)
            return new

        F.patch(L, "remove_label", remove_label)
    elif m == "with_intersection":  # masks combined with `and` instead of `or`
        def _new(self, labels):
            masks_to_keep = [self._labels_to_masks[l] for l in labels if l in self._labels_to_masks]
            overlap = np.prod(masks_to_keep, axis=0) > 0
            masks_to_keep = [l[overlap] for l in masks_to_keep]
            g = self.from_mask(overlap)
            return L(g.points, g.adjacency_matrix, OrderedDict(zip(labels, masks_to_keep)))

        F.patch(L, "_new_group_with_only_labels", _new)
    elif m == "add_label_inplace":
        def add_label(self, label, indices):
            mask = np.zeros(self.n_points, dtype=bool)
            mask[indices] = True
            self._labels_to_masks[label] = mask
            return self

        F.patch(L, "add_label", add_label)
    elif m == "with_sorted":  # "deterministic" by sorting alphabetically: still not the original order
        orig = L._new_group_with_only_labels

        def _new(self, labels):
            return orig(self, sorted(labels))

        F.patch(L, "_new_group_with_only_labels", _new)
    elif m == "with_set_dedupe":  # de-duplicating the request through a set
        orig = L._new_group_with_only_labels

        def _new(self, labels):
            return orig(self, list(getattr(lab, "set", set)(labels)))

        F.patch(L, "_new_group_with_only_labels", _new)
    elif m == "no_verify":
        F.patch(L, "_verify_all_labels_masked", lambda self: None)
    elif m == "get_label_no_edges":
        def get_label(self, label):
            from menpo.shape import PointUndirectedGraph

            pts = self.points[self._labels_to_masks[label]]
            return PointUndirectedGraph(pts, np.zeros((len(pts), len(pts)), dtype=int))

        F.patch(L, "get_label", get_label)
    elif m == "copy_shares_masks":
        F.patch(L, "copy", lambda self: lab.Copyable.copy(self))
    elif m == "copy_shares_dict":
        def copy(self):
            new = lab.Copyable.copy(self)
            new._labels_to_masks = self._labels_to_masks
            return new

        F.patch(L, "copy", copy)


def _adjacency(n, edges):
    a = np.zeros((n, n), dtype=int)
    for i, j in edges:
        a[i, j] = a[j, i] = 1
    return a


def _res_digest(r):
    import scipy.sparse as sp

    a = r.adjacency_matrix
    d = {"type": type(r).__name__, "points": r.points,
         "adj": np.asarray(a.todense()) if sp.issparse(a) else np.asarray(a)}
    if hasattr(r, "_labels_to_masks"):
        d["labels"] = list(r.labels)
        d["keys"] = list(r._labels_to_masks.keys())
        d["masks"] = [np.asarray(r._labels_to_masks[k]) for k in d["keys"]]
    return d


def _perform(g, op, arg):
    """('ok', live result) | ('exc', exception class name, text)"""
    try:
        return ("ok", getattr(g, op)(*arg))
    except Exception as e:  # engine exceptions are BaseException and pass through
        return ("exc", type(e).__name__, str(e)[:200])


def _build(points, edges, masks):
    from menpo.shape import LabelledPointUndirectedGraph

    e = np.array(edges, dtype=int).reshape(-1, 2) if len(edges) else None
    return LabelledPointUndirectedGraph.init_from_edges(
        points, e, OrderedDict((l, np.array(m, dtype=bool)) for l, m in masks))


def _sub_main(job):
    """child process of the hash-seed replay: real menpo, real floats, this process's hash seed"""
    import warnings

    warnings.simplefilter("ignore")
    if job.get("selftest_mutant"):  # self-test only: the child has to run the same mutated menpo as its parent
        class _P:
            sym = False
            patch = staticmethod(setattr)

        _mutate_select(_P, {"selftest_mutant": job["selftest_mutant"]})
    g = _build(np.array(job["points"], dtype=float), job["edges"], job["masks"])
    arg = [np.array(a) if isinstance(a, list) and job.get("arg_array") else a for a in job["arg"]]
    o = _perform(g, job["op"], arg)
    if o[0] == "exc":
        return {"exc": [o[1], o[2]]}
    d = _res_digest(o[1])
    out = {"type": d["type"], "points": np.asarray(d["points"], dtype=float).tolist(), "adj": d["adj"].tolist()}
    if "labels" in d:
        out.update(labels=d["labels"], keys=d["keys"], masks=[m.tolist() for m in d["masks"]])
    out["receiver"] = {"labels": list(g.labels), "masks": [np.asarray(g._labels_to_masks[l]).tolist() for l in g.labels],
                       "points": g.points.tolist()}
    return out


SEEDS = list(range(1, 25))


def _other_seeds(job):
    """outcomes of the same call in fresh interpreters under other hash seeds: yields (seed, outcome)"""
    from symx import driver

    here = os.path.dirname(os.path.dirname(os.path.abspath(__file__)))
    code = ("import sys, json; sys.path.insert(0, %r); sys.path.insert(0, %r); from harness import c15; "
            "print('SUB ' + json.dumps(c15._sub_main(json.load(sys.stdin))))" % (here, driver.REPO))
    for lo, hi in ((0, 2), (2, 6), (6, 14), (14, len(SEEDS))):
        procs = []
        for s in SEEDS[lo:hi]:
            env = dict(os.environ, PYTHONHASHSEED=str(s), PYTHONWARNINGS="ignore")
            p = subprocess.Popen([sys.executable, "-c", code], stdin=subprocess.PIPE, stdout=subprocess.PIPE,
                                 stderr=subprocess.PIPE, text=True, env=env)
            p.stdin.write(json.dumps(job))
            p.stdin.close()
            procs.append((s, p))
        for s, p in procs:
            txt = p.stdout.read()
            p.wait()
            for line in txt.splitlines():
                if line.startswith("SUB "):
                    r = json.loads(line[4:])
                    if "exc" in r:
                        yield s, ("exc", r["exc"][0], r["exc"][1])
                    else:
                        d = {"type": r["type"], "points": np.array(r["points"], dtype=float).reshape(-1, 2),
                             "adj": np.array(r["adj"], dtype=int).reshape(len(r["points"]), -1)}
                        if "labels" in r:
                            d.update(labels=r["labels"], keys=r["keys"], masks=[np.array(m, dtype=bool) for m in r["masks"]])
                        yield s, ("ok", d)


def _check(F, ob, nm, outcome, exp):
    """compare one outcome (digest form) with the oracle's expectation"""
    if exp["raise"]:
        if outcome[0] == "ok":
            ob.fail(nm + ".must_refuse", exp["why"])
        elif exp["raise"] == "ValueError":
            ob.true(nm + ".refuses_with_ValueError", outcome[1] == "ValueError")
        else:
            ob.true(nm + ".refused", True)
        return
    if outcome[0] != "ok":
        ob.fail(nm + ".unexpected_refusal", "%s: %s" % (outcome[1], outcome[2]))
        return
    d = outcome[1]
    ob.true(nm + ".type", d["type"] == exp["type"])
    if np.shape(d["points"]) != np.shape(exp["points"]):
        ob.fail(nm + ".points.count", "%s points, expected %s" % (np.shape(d["points"]), np.shape(exp["points"])))
    else:
        ob.same(nm + ".points", d["points"], exp["points"])
    ob.true(nm + ".edges", np.shape(d["adj"]) == exp["adj"].shape and bool(np.array_equal(np.asarray(d["adj"]), exp["adj"])))
    if exp["labels"] is None:
        ob.true(nm + ".unlabelled_type", "labels" not in d)
        return
    if "labels" not in d:
        ob.fail(nm + ".labels", "result has no labels")
        return
    ob.true(nm + ".labels.same_set", sorted(d["labels"]) == sorted(exp["labels"]) and d["labels"] == d["keys"])
    ob.true(nm + ".labels.original_order", d["labels"] == exp["labels"])
    m = len(exp["points"])
    tot = np.zeros(m, dtype=int)
    for l, want in zip(exp["labels"], exp["masks"]):
        if l not in d["keys"]:
            continue
        got = d["masks"][d["keys"].index(l)]
        ob.true(nm + ".mask[%s]" % l, got.shape == want.shape and bool(np.array_equal(got, want)))
    for got in d["masks"]:
        if got.shape == (m,):
            tot += got.astype(int)
    ob.true(nm + ".every_point_labelled", bool(np.all(tot > 0)))


def _expect_group(P, A, masks, kept, why):
    """oracle: the sub-group spanned by the labels `kept` (given in original order)"""
    n = len(P)
    keep = np.zeros(n, dtype=bool)
    for l in kept:
        keep |= masks[l]
    idx = np.nonzero(keep)[0]
    if len(kept) == 0 or len(idx) == 0:
        return {"raise": "any", "why": why + ": nothing is selected, a labelled group cannot be empty"}
    return {"raise": None, "type": "LabelledPointUndirectedGraph", "points": P[idx], "adj": A[np.ix_(idx, idx)],
            "labels": list(kept), "masks": [masks[l][idx] for l in kept]}


def _mask_inputs(F, n, assume_cover):
    sb = OrderedDict((l, [F.symbool("m_%s_%d" % (l, i)) for i in range(n)]) for l in LABELS)
    if assume_cover:
        # "any overlapping label masks that cover all points"
        F.assume(F.and_(*[F.or_(*[sb[l][i] for l in LABELS]) for i in range(n)]))
    return OrderedDict((l, np.array([bool(b) for b in sb[l]], dtype=bool)) for l in LABELS)


def _graph_inputs(F, ob, cfg):
    """an arbitrary labelled graph of n points: symbolic coordinates, forked masks that cover all points"""
    n = cfg["n"]
    edges = EDGESETS[n][cfg["edges"]]
    P = F.reals("p", (n, 2))
    masks = _mask_inputs(F, n, True)
    g = _build(P, edges, list(masks.items()))
    return g, P, _adjacency(n, edges), masks, edges


def constructor(F, ob, cfg):
    """every point always carries a label: the constructor accepts exactly the covering mask patterns and stores
    points, edges, labels (in the given order) and masks as given"""
    _mutate_select(F, cfg)
    n = cfg["n"]
    edges = EDGESETS[n][cfg["edges"]]
    P = F.reals("p", (n, 2))
    masks = _mask_inputs(F, n, False)
    covered = np.zeros(n, dtype=bool)
    for l in LABELS:
        covered |= masks[l]
    try:
        g = _build(P, edges, list(masks.items()))
    except ValueError:
        ob.true("constructor.refuses_only_uncovered", not covered.all())
        return
    ob.true("constructor.accepts_only_covered", bool(covered.all()))
    exp = {"raise": None, "type": "LabelledPointUndirectedGraph", "points": P, "adj": _adjacency(n, edges),
           "labels": list(LABELS), "masks": [masks[l] for l in LABELS]}
    _check(F, ob, "constructor", ("ok", _res_digest(g)), exp)
    ob.true("constructor.n_labels", g.n_labels == len(LABELS))
    c = g.copy()
    _check(F, ob, "copy", ("ok", _res_digest(c)), exp)


def _run_and_check(F, ob, g, P, edges, masks, op, arg, exp, arg_array=False):
    """perform the call in this process and check it; in replay mode, when this process's hash seed shows nothing,
    repeat the real call under other hash seeds"""
    before = K.freeze(K.digest(g))
    o = _perform(g, op, arg)
    live = o[1] if o[0] == "ok" else None
    _check(F, ob, op, ("ok", _res_digest(live)) if live is not None else o, exp)
    K.eq_digest(F, ob, op + ".receiver_unchanged", K.digest(g), before)
    if live is not None:
        ob.true(op + ".new_object", live is not g)
        # the result must not alias the receiver: scribble over it
        try:
            if live.n_points:
                live.points[0, 0] = live.points[0, 0] + 1
            for k in list(getattr(live, "_labels_to_masks", {})):
                live._labels_to_masks[k][...] = ~live._labels_to_masks[k]
            if hasattr(live, "_labels_to_masks"):
                live._labels_to_masks["scribble"] = np.zeros(live.n_points, dtype=bool)
        except Exception as e:
            ob.fail(op + ".result_writable", "%s: %s" % (type(e).__name__, e))
        K.eq_digest(F, ob, op + ".result_independent_of_receiver", K.digest(g), before)
    if F.sym or any(not ok for (_, ok, _) in ob.items):
        return
    job = {"points": np.asarray(P, dtype=float).tolist(), "edges": [list(map(int, e)) for e in edges],
           "masks": [(l, [bool(b) for b in masks[l]]) for l in masks], "op": op,
           "arg": [a.tolist() if isinstance(a, np.ndarray) else a for a in arg], "arg_array": arg_array,
           "selftest_mutant": F.cfg.get("selftest_mutant")}
    from symx import factory

    for seed, oc in _other_seeds(job):
        scratch = factory.ConcOb()
        _check(F, scratch, op, oc, exp)
        bad = [(nm, ok, det) for (nm, ok, det) in scratch.items if not ok]
        if bad:
            for nm, ok, det in bad:
                ob.items.append((nm, False, (det + " " if det else "") + "[under PYTHONHASHSEED=%d]" % seed))
            return


def select(F, ob, cfg):
    op = cfg["op"]
    if F.sym:
        _install_permset(F)
    _mutate_select(F, cfg)
    g, P, A, masks, edges = _graph_inputs(F, ob, cfg)
    n = cfg["n"]
    if op in ("with_labels", "without_labels"):
        if "req" in cfg:
            req = [l for k, l in enumerate(LABELS) if (cfg["req"] >> k) & 1]
        else:
            req = [l for l in LABELS if F.bool("req_" + l)]
        arg = req
        if len(req) == 1 and F.bool("as_str"):
            arg = req[0]
        kept = req if op == "with_labels" else [l for l in LABELS if l not in req]
        exp = _expect_group(P, A, masks, kept, "%s(%r)" % (op, req))
        _run_and_check(F, ob, g, P, edges, masks, op, [arg], exp)
    elif op == "get_label":
        l = LABELS[cfg["label"]] if "label" in cfg else F.choice("label", LABELS)
        idx = np.nonzero(masks[l])[0]
        if len(idx) == 0:
            exp = {"raise": "any", "why": "get_label(%r): the label covers no point" % l}
        else:
            exp = {"raise": None, "type": "PointUndirectedGraph", "points": P[idx], "adj": A[np.ix_(idx, idx)],
                   "labels": None}
        _run_and_check(F, ob, g, P, edges, masks, op, [l], exp)
    elif op == "remove_label":
        l = LABELS[cfg["label"]] if "label" in cfg else F.choice("label", LABELS)
        kept = [k for k in LABELS if k != l]
        rest = np.zeros(n, dtype=bool)
        for k in kept:
            rest |= masks[k]
        if not rest.all():
            exp = {"raise": "ValueError", "why": "remove_label(%r) leaves points %s without a label" % (l, np.nonzero(~rest)[0])}
        else:
            exp = {"raise": None, "type": "LabelledPointUndirectedGraph", "points": P, "adj": A, "labels": kept,
                   "masks": [masks[k] for k in kept]}
        _run_and_check(F, ob, g, P, edges, masks, op, [l], exp)
    elif op == "add_label":
        if "idx" in cfg:
            idx = [i for i in range(n) if (cfg["idx"] >> i) & 1]
        else:
            idx = [i for i in range(n) if F.bool("idx_%d" % i)]
        as_array = F.bool("as_array")
        new = np.zeros(n, dtype=bool)
        new[idx] = True
        exp = {"raise": None, "type": "LabelledPointUndirectedGraph", "points": P, "adj": A,
               "labels": LABELS + [NEW_LABEL], "masks": [masks[k] for k in LABELS] + [new]}
        a = np.array(idx, dtype=int) if as_array else list(idx)
        _run_and_check(F, ob, g, P, edges, masks, op, [NEW_LABEL, a], exp, arg_array=as_array)
    else:
        raise KeyError(op)


def add_label_existing(F, ob, cfg):
    """add_label with the name of an existing label re-defines that label: the group must stay fully labelled (or the
    call must be refused with ValueError), the label keeps its position"""
    if F.sym:
        _install_permset(F)
    _mutate_select(F, cfg)
    g, P, A, masks, edges = _graph_inputs(F, ob, cfg)
    n = cfg["n"]
    l = F.choice("label", LABELS)
    idx = [i for i in range(n) if F.bool("idx_%d" % i)]
    new = np.zeros(n, dtype=bool)
    new[idx] = True
    after = OrderedDict((k, (new if k == l else masks[k])) for k in LABELS)
    tot = np.zeros(n, dtype=bool)
    for k in LABELS:
        tot |= after[k]
    if not tot.all():
        exp = {"raise": "ValueError", "why": "add_label(%r, %r) re-defines the label and leaves points %s without any label"
               % (l, idx, np.nonzero(~tot)[0].tolist())}
    else:
        exp = {"raise": None, "type": "LabelledPointUndirectedGraph", "points": P, "adj": A, "labels": list(LABELS),
               "masks": [after[k] for k in LABELS]}
    _run_and_check(F, ob, g, P, edges, masks, "add_label", [l, list(idx)], exp)
