"""C13 -- crops and patches are pixel-exact and honour their boundary contract."""
import numpy as np

from harness import common as K
from harness import imgsym
from symx import core

META = {
    "explanation": "C13: Image.crop runs for real on symbolic real-valued bounds against small images whose pixels are "
    "distinct symbolic variables (the sampler is replaced by a differentially validated model of map_coordinates whose "
    "indices are concretised by forking, so results are the very source pixel terms). An independent oracle (floor/"
    "ceil/clip written in the harness) decides per path: ValueError iff some ceil(max) <= floor(min); ImageBoundaryError "
    "iff the request reaches outside and constraining is off; otherwise shape = hi - lo, every pixel is the source pixel "
    "at lo + index, landmarks are shifted by lo, the returned transform maps result to source indices, masks are "
    "cropped identically; a concrete-dtype variant checks bit-exactness and dtype. crop_to_pointcloud / "
    "crop_to_landmarks(_proportion) reduce to the same oracle with bounds derived from symbolic points. Patches: the "
    "real extract_patches_with_slice and extract_patches_by_sampling on C x 4 x 5 images (C=1..5) with symbolic "
    "centres, offsets and fill value against a per-pixel oracle; shape law for every channel count; equality of the "
    "slicing and sampling paths at integer centres; set_patches of extracted interior patches restores the image.",
    "bounds": ["images (3,4) [quick], (2,5), (2,3,2) [thorough]; 1-2 channels", "crop bounds in [-3, size+3] per axis",
               "patches: image Cx4x5, C in 1..5, one or two centres in [-2, size+2], patch shapes (2,2),(3,3),(3,2),(1,4), 0 or 2 offsets"],
    "stubs": ["scipy_interpolation -> sampler_model (harness/imgsym.py), validated against scipy.ndimage.map_coordinates on random inputs at every run"],
    "assumptions": ["floats are exact reals", "crop requests intersect the image in at least one pixel per axis (a request wholly outside has an empty intersection)",
                    "fractional patch centres stay away from rounding ties by 1e-6"],
    "not_covered": ["images larger than stated", "interpolation orders > 1", "cv2 fast path (not installed)"],
    "trusted": ["sampler model", "floor/ceil/clip oracle in harness/c13.py"],
}

PATCH_SHAPES = [(2, 2), (3, 3), (3, 2), (1, 4)]


def instances(tier):
    out = []
    shapes = [[3, 4]] if tier == "quick" else [[3, 4], [2, 5], [2, 3, 2]]
    big = {"max_paths": 60000, "max_s": 3000}
    for shp in shapes:
        for cls in ("Image", "MaskedImage", "BooleanImage"):
            for ch in ((1,) if (tier == "quick" or cls == "BooleanImage") else (1, 2)):
                # bounds symbolic on one axis at a time (the others fixed inside the image) ...
                for ax in range(len(shp)):
                    out.append(("crop", {"cls": cls, "shape": shp, "ch": ch, "symaxes": [ax]}, big))
                # ... and on all axes at once in the thorough tier
                if tier != "quick" and cls == "Image" and ch == 1 and len(shp) == 2:
                    out.append(("crop", {"cls": cls, "shape": shp, "ch": ch, "symaxes": list(range(len(shp)))}, big))
    for dt in ("uint8", "float32"):
        for ax in (0, 1):
            out.append(("crop", {"cls": "Image", "shape": [3, 4], "ch": 1, "dtype": dt, "symaxes": [ax]}, big))
    for fn in ("crop_to_pointcloud", "crop_to_landmarks", "crop_to_pointcloud_proportion", "crop_to_landmarks_proportion"):
        for ax in (0, 1):
            out.append(("crop_points", {"fn": fn, "shape": [3, 4], "symaxis": ax}, big))
    out.append(("crop_true_mask", {"shape": [3, 4]}))
    chans = (1, 3) if tier == "quick" else (1, 2, 3, 4, 5)
    for C in chans:
        for ps in (PATCH_SHAPES[:2] if tier == "quick" else PATCH_SHAPES):
            for off in (False, True):
                if tier == "quick" and off and C != 1:
                    continue
                out.append(("patches_slice", {"C": C, "ps": list(ps), "offsets": off}, {"max_paths": 60000, "max_s": 3000}))
    for C in (1, 2, 3, 5):
        for order in (0, 1):
            for mode in ("constant", "nearest"):
                out.append(("patches_sampling_shape", {"C": C, "order": order, "mode": mode, "ps": [2, 3]}))
    for ps in (PATCH_SHAPES[:2] if tier == "quick" else PATCH_SHAPES):
        if tier != "quick" or ps == PATCH_SHAPES[0]:
            out.append(("patches_paths_agree", {"C": 2, "ps": list(ps)}, {"max_paths": 60000, "max_s": 3000}))
        out.append(("patches_set_restores", {"C": 2, "ps": list(ps)}))
    out.append(("sampler_validation", {}))
    return out


def as_int(F, x):
    if F.sym and isinstance(x, core.Sym):
        return core.concretize_int(x)
    return int(round(float(x)))


def _image(F, cfg):
    from menpo.image import BooleanImage, Image, MaskedImage

    shp, ch = tuple(cfg["shape"]), cfg["ch"]
    if cfg.get("dtype"):
        px = (np.arange(ch * int(np.prod(shp))).reshape((ch,) + shp) * 7 % 251).astype(cfg["dtype"])
        return Image(px), px
    if cfg["cls"] == "BooleanImage":
        pat = (np.arange(int(np.prod(shp))).reshape(shp) % 3) != 0
        img = BooleanImage(pat)
        return img, img.pixels
    px = F.reals("px", (ch,) + shp, 0, 1)
    if cfg["cls"] == "Image":
        return Image(px, copy=False), px
    m = (np.arange(int(np.prod(shp))).reshape(shp) % 4) != 1
    return MaskedImage(px, mask=m, copy=False), px


def _crop_oracle(F, ob, img, px, mn, mx, cons, call):
    """run `call()` (a crop returning (image, transform)) and compare with the floor/ceil/clip oracle"""
    from menpo.image import ImageBoundaryError, MaskedImage

    shp = img.shape
    nd = len(shp)
    fl = [F.floor(mn[k]) for k in range(nd)]
    ce = [F.ceil(mx[k]) for k in range(nd)]
    lo = [F.max(F.min(fl[k], shp[k]), 0) for k in range(nd)]
    hi = [F.max(F.min(ce[k], shp[k]), 0) for k in range(nd)]
    bad_order = F.or_(*[ce[k] <= fl[k] for k in range(nd)])
    outside = F.or_(*[F.or_(fl[k] < 0, ce[k] > shp[k]) for k in range(nd)])
    try:
        out, tr = call()
    except ImageBoundaryError:
        ob.true("refused.iff_outside_and_not_constrained", F.and_(F.not_(bad_order), outside, not cons))
        return
    except ValueError:
        ob.true("valueerror.iff_max_not_above_min", bad_order)
        return
    ob.true("accepted.order_ok", F.not_(bad_order))
    ob.true("accepted.inside_or_constrained", F.or_(F.not_(outside), cons))
    ob.true("class", type(out) is type(img))
    ob.true("channels", out.n_channels == img.n_channels)
    ob.eq("shape", np.array(out.shape, dtype=object if F.sym else float), np.array([hi[k] - lo[k] for k in range(nd)], dtype=object if F.sym else float))
    lo_i = [as_int(F, lo[k]) for k in range(nd)]
    # every pixel is the source pixel at lo + index (no fill value can appear)
    for c in range(out.n_channels):
        for idx in np.ndindex(*out.shape):
            src = tuple(lo_i[k] + idx[k] for k in range(nd))
            inb = all(0 <= src[k] < shp[k] for k in range(nd))
            ob.true("pixel.inside_source[%d]%s" % (c, list(idx)), inb)
            if inb:
                ob.same("pixel[%d]%s" % (c, list(idx)), out.pixels[(c,) + idx], px[(c,) + src])
    ob.true("dtype", out.pixels.dtype == img.pixels.dtype or (F.sym and out.pixels.dtype == object))
    if isinstance(img, MaskedImage):
        for idx in np.ndindex(*out.shape):
            src = tuple(lo_i[k] + idx[k] for k in range(nd))
            if all(0 <= src[k] < shp[k] for k in range(nd)):
                ob.true("mask%s" % list(idx), bool(out.mask.pixels[(0,) + idx]) == bool(img.mask.pixels[(0,) + src]))
    if img.has_landmarks:
        lo_arr = np.array(lo, dtype=object if F.sym else float)
        for g in img.landmarks.keys():
            ob.eq("landmarks[%s]=lm-lo" % g, out.landmarks[g].points, img.landmarks[g].points - lo_arr)
        ob.true("landmarks.groups", list(out.landmarks.keys()) == list(img.landmarks.keys()))
    q = F.reals("q", (1, nd), -2, 6)
    ob.eq("transform:result->source", tr.apply(q), q + np.array(lo, dtype=object if F.sym else float))


def crop(F, ob, cfg):
    import menpo.image.base as ib
    from menpo.shape import PointCloud

    if F.sym:
        imgsym.install_sampler_model(F, ib)
    img, px = _image(F, cfg)
    nd = len(cfg["shape"])
    img.landmarks["lm"] = PointCloud(F.reals("lm", (2, nd), 0, 3), copy=False)
    sa = cfg.get("symaxes", list(range(nd)))
    mn = np.array([F.real("mn%d" % k, -3, cfg["shape"][k] + 3) if k in sa else 1 for k in range(nd)], dtype=object if F.sym else float)
    mx = np.array([F.real("mx%d" % k, -3, cfg["shape"][k] + 3) if k in sa else 2 for k in range(nd)], dtype=object if F.sym else float)
    cons = F.bool("constrain")
    # non-empty intersection with the image on every axis
    for k in range(nd):
        F.assume(F.and_(F.ceil(mx[k]) >= 1, F.floor(mn[k]) <= cfg["shape"][k] - 1))
    before = K.freeze(K.digest(img))
    _crop_oracle(F, ob, img, px, mn, mx, cons,
                 lambda: img.crop(mn.copy(), mx.copy(), constrain_to_boundary=cons, return_transform=True))
    K.eq_digest(F, ob, "input.unchanged", K.digest(img), before)


def crop_points(F, ob, cfg):
    """the point-driven crops reduce to crop(min - boundary, max + boundary)"""
    import menpo.image.base as ib
    from menpo.image import Image
    from menpo.shape import PointCloud

    if F.sym:
        imgsym.install_sampler_model(F, ib)
    shp = tuple(cfg["shape"])
    px = F.reals("px", (1,) + shp, 0, 1)
    img = Image(px, copy=False)
    # point coordinates symbolic along one axis, fixed inside the image along the other
    ax = cfg["symaxis"]
    pts = K.arr(F, [[1.0, 1.0], [2.0, 2.0]])
    pts[:, ax] = F.reals("p", (2,), -2, 6)
    F.assume(F.or_(pts[0, ax] - pts[1, ax] >= 0.25, pts[1, ax] - pts[0, ax] >= 0.25))
    pc = PointCloud(pts, copy=False)
    img.landmarks["lm"] = pc
    cons = F.bool("constrain")
    fn = cfg["fn"]
    pmin = np.array([F.min(pts[0, k], pts[1, k]) for k in range(2)], dtype=object if F.sym else float)
    pmax = np.array([F.max(pts[0, k], pts[1, k]) for k in range(2)], dtype=object if F.sym else float)
    if fn.endswith("proportion"):
        prop = F.choice("prop", [0.0, 0.5])
        b = (pmax - pmin) * prop  # boundary_proportion is relative to the range of the points (minimum=False: max)
        rng = pmax - pmin
        bnd = F.max(rng[0], rng[1]) * prop
        mn, mx = pmin - bnd, pmax + bnd
        if fn == "crop_to_pointcloud_proportion":
            call = lambda: img.crop_to_pointcloud_proportion(pc, prop, minimum=False, constrain_to_boundary=cons, return_transform=True)
        else:
            call = lambda: img.crop_to_landmarks_proportion(prop, group="lm", minimum=False, constrain_to_boundary=cons, return_transform=True)
    else:
        bd = F.choice("boundary", [0, 1])
        mn, mx = pmin - bd, pmax + bd
        if fn == "crop_to_pointcloud":
            call = lambda: img.crop_to_pointcloud(pc, boundary=bd, constrain_to_boundary=cons, return_transform=True)
        else:
            call = lambda: img.crop_to_landmarks(group="lm", boundary=bd, constrain_to_boundary=cons, return_transform=True)
    for k in range(2):
        F.assume(F.and_(F.ceil(mx[k]) >= 1, F.floor(mn[k]) <= shp[k] - 1))
    _crop_oracle(F, ob, img, px, mn, mx, cons, call)


def crop_true_mask(F, ob, cfg):
    """MaskedImage.crop_to_true_mask: the bounding box of the true pixels (plus boundary), clipped"""
    import menpo.image.base as ib
    from menpo.image import MaskedImage

    if F.sym:
        imgsym.install_sampler_model(F, ib)
    shp = tuple(cfg["shape"])
    px = F.reals("px", (1,) + shp, 0, 1)
    pat = F.choice("mask", ["corner", "middle", "row", "single"])
    m = np.zeros(shp, dtype=bool)
    if pat == "corner":
        m[0, 0] = m[1, 1] = True
    elif pat == "middle":
        m[1, 1:3] = True
    elif pat == "row":
        m[2, :] = True
    else:
        m[1, 2] = True
    img = MaskedImage(px, mask=m, copy=False)
    bd = F.choice("boundary", [0, 1])
    ys, xs = np.nonzero(m)
    mn = np.array([ys.min() - bd, xs.min() - bd], dtype=float)
    mx = np.array([ys.max() + 1 + bd, xs.max() + 1 + bd], dtype=float)
    _crop_oracle(F, ob, img, px, mn, mx, True,
                 lambda: img.crop_to_true_mask(boundary=bd, constrain_to_boundary=True, return_transform=True))


def _patch_image(F, C):
    from menpo.image import Image

    px = F.reals("px", (C, 4, 5), 0, 1)
    return Image(px, copy=False), px


def _patch_oracle(F, ob, name, out, px, centres, ps, offsets, cval):
    C, H, W = px.shape
    n_off = 1 if offsets is None else offsets.shape[0]
    ob.true(name + ".shape", np.shape(out) == (centres.shape[0], n_off, C, ps[0], ps[1]))
    if np.shape(out) != (centres.shape[0], n_off, C, ps[0], ps[1]):
        return
    half_pixel = [(ps[0] % 2) / 2.0, (ps[1] % 2) / 2.0]
    for i in range(centres.shape[0]):
        for o in range(n_off):
            off = [0, 0] if offsets is None else [offsets[o, 0], offsets[o, 1]]
            r0 = as_int(F, F.rint(centres[i, 0] + off[0] + half_pixel[0] - ps[0] / 2.0))
            k0 = as_int(F, F.rint(centres[i, 1] + off[1] + half_pixel[1] - ps[1] / 2.0))
            for c in range(C):
                for r in range(ps[0]):
                    for k in range(ps[1]):
                        y, x = r0 + r, k0 + k
                        want = px[c, y, x] if (0 <= y < H and 0 <= x < W) else cval
                        ob.same("%s[%d,%d,%d,%d,%d]" % (name, i, o, c, r, k), out[i, o, c, r, k], want)


def _away_from_ties(F, v):
    """|frac(v) - 1/2| >= 1e-6 : the value is not within 1e-6 of a rounding tie"""
    fr = v - F.floor(v)
    F.assume(F.or_(fr <= 0.5 - 1e-6, fr >= 0.5 + 1e-6))


def patches_slice(F, ob, cfg):
    from menpo.shape import PointCloud

    C, ps = cfg["C"], tuple(cfg["ps"])
    img, px = _patch_image(F, C)
    centres = F.reals("c", (1, 2), -2, 7)
    offsets = np.array([[0, 0], [1, -2]]) if cfg["offsets"] else None
    cval = F.real("cval", -1, 1)
    half_pixel = [(ps[0] % 2) / 2.0, (ps[1] % 2) / 2.0]
    for d in range(2):
        _away_from_ties(F, centres[0, d] + half_pixel[d] - ps[d] / 2.0)
    before = K.snapshot(img.pixels)
    out = img.extract_patches(PointCloud(centres, copy=False), patch_shape=ps, sample_offsets=offsets,
                              as_single_array=True, order=0, mode="constant", cval=cval)
    _patch_oracle(F, ob, "slice", out, px, centres, ps, offsets, cval)
    K.same_terms(F, ob, "image.unchanged", before, img.pixels)
    lst = img.extract_patches(PointCloud(centres, copy=False), patch_shape=ps, sample_offsets=offsets,
                              as_single_array=False, order=0, mode="constant", cval=cval)
    ob.true("as_list.len", len(lst) == (1 if offsets is None else 2))
    ob.true("as_list.shape", all(p.pixels.shape == (C,) + ps for p in lst))


def patches_sampling_shape(F, ob, cfg):
    """the resampling path returns (centres, offsets, channels, h, w) for ANY channel count, values per oracle"""
    import menpo.image.patches as mp
    from menpo.shape import PointCloud

    if F.sym:
        imgsym.install_sampler_model(F, mp)
    C, ps = cfg["C"], tuple(cfg["ps"])
    img, px = _patch_image(F, C)
    centres = np.array([[1.0, 2.0], [3.0, 1.0]])
    offsets = np.array([[0, 0], [1, 1]])
    cval = F.real("cval", -1, 1)
    out = img.extract_patches(PointCloud(centres), patch_shape=ps, sample_offsets=offsets, as_single_array=True,
                              order=cfg["order"], mode=cfg["mode"], cval=cval)
    ob.true("sampling.shape", np.shape(out) == (2, 2, C, ps[0], ps[1]))
    if cfg["order"] == 0 and cfg["mode"] == "nearest" and np.shape(out) == (2, 2, C, ps[0], ps[1]):
        # nearest-neighbour with border replication at integer positions: clamp the index
        half_pixel = [(ps[0] % 2) / 2.0, (ps[1] % 2) / 2.0]
        for i in range(2):
            for o in range(2):
                r0 = int(round(centres[i, 0] + offsets[o, 0] + half_pixel[0] - ps[0] / 2.0))
                k0 = int(round(centres[i, 1] + offsets[o, 1] + half_pixel[1] - ps[1] / 2.0))
                for c in range(C):
                    for r in range(ps[0]):
                        for k in range(ps[1]):
                            y, x = min(max(r0 + r, 0), 3), min(max(k0 + k, 0), 4)
                            ob.same("sampling.nearest[%d,%d,%d,%d,%d]" % (i, o, c, r, k), out[i, o, c, r, k], px[c, y, x])


def patches_paths_agree(F, ob, cfg):
    """at integer centres and offsets the slicing path and the sampling path (order 0, constant) agree"""
    import menpo.image.patches as mp

    if F.sym:
        imgsym.install_sampler_model(F, mp)
    C, ps = cfg["C"], tuple(cfg["ps"])
    img, px = _patch_image(F, C)
    cy = F.symint("cy", -2, 6)
    cx = F.symint("cx", -2, 7)
    centres = K.arr(F, [[cy, cx]])
    offsets = np.array([[0, 0], [-1, 2]])
    cval = F.real("cval", -1, 1)
    a = mp.extract_patches_with_slice(img.pixels, centres, ps, offsets=offsets, cval=cval)
    b = mp.extract_patches_by_sampling(img.pixels, centres, ps, offsets=offsets, order=0, mode="constant", cval=cval)
    ob.true("same_shape", np.shape(a) == np.shape(b))
    if np.shape(a) == np.shape(b):
        ob.same("slice=sampling", a, b)
    _patch_oracle(F, ob, "slice", a, px, centres, ps, offsets, cval)


def patches_set_restores(F, ob, cfg):
    """writing extracted interior patches back restores the image"""
    from menpo.shape import PointCloud

    C, ps = cfg["C"], tuple(cfg["ps"])
    img, px = _patch_image(F, C)
    # interior integer centre: the whole patch lies inside the 4x5 image
    lo = [ps[0] // 2, ps[1] // 2]
    hi = [4 - (ps[0] - ps[0] // 2), 5 - (ps[1] - ps[1] // 2)]
    cy = F.choice("cy", list(range(lo[0], hi[0] + 1)))
    cx = F.choice("cx", list(range(lo[1], hi[1] + 1)))
    pc = PointCloud(np.array([[cy, cx]], dtype=float))
    px_snap = K.snapshot(px)
    patches = img.extract_patches(pc, patch_shape=ps, as_single_array=True)
    # overwrite the region, then restore it from the patches
    scr = img.copy()
    scr.pixels[:, max(cy - 2, 0):cy + 3, max(cx - 2, 0):cx + 3] = 0
    restored_other = scr.set_patches(patches, pc)
    back = img.set_patches(patches, pc)
    ob.same("restored", back.pixels, px)
    K.same_terms(F, ob, "extract_and_set.source_image_untouched", px_snap, img.pixels)
    # the written block is exactly the patch block
    r0, k0 = cy - ps[0] // 2, cx - ps[1] // 2
    ob.same("block", restored_other.pixels[:, r0:r0 + ps[0], k0:k0 + ps[1]], px[:, r0:r0 + ps[0], k0:k0 + ps[1]])


def sampler_validation(F, ob, cfg):
    """the sampler model agrees with scipy.ndimage.map_coordinates on random concrete inputs (run every time)"""
    ok, info = imgsym.validate(seed=1, n=200)
    ob.true("sampler_model=scipy", ok)
