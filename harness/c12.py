"""C12 -- GMRF precision is storage-independent, graph-sparse, symmetric PSD, exact.

The real `menpo.model.gmrf.GMRFVectorModel` / `GMRFModel` constructors (hence `_create_dense_precision`,
`_create_sparse_precision`, the two `*_diagonal_precision` routines and `_covariance_matrix_inverse`) and the real
`mahalanobis_distance` run on SYMBOLIC training data (and symbolic query vectors) for a catalogue of concrete
graphs.  The oracle `sum_e E_e^T inv(cov(X_e)) E_e` (vertex blocks for an edgeless graph) is written from scratch
in this file (own covariance, own adjugate inverse, own scatter) and uses the edge list of the catalogue, not
menpo's `graph.edges`.

`scipy.sparse.bsr_matrix` cannot hold terms: in symbolic mode the name `bsr_matrix` inside menpo/model/gmrf.py is
replaced by a 30-line dense model of the BSR format (`BSRModel`: block k of block row i, `indptr[i] <= k <
indptr[i+1]`, is ADDED at block column `indices[k]`).  Every time menpo builds one, the model is cross-validated
against the real scipy class on exactly the index arrays menpo produced (float-typed, as menpo passes them), with
concrete surrogate blocks: `todense()` and `dot()` of both must agree, otherwise the obligation
`bsr_model.validated` fails.  The concrete replay runs the unpatched menpo with the real scipy class.

PSD / non-negativity is decided twice: directly (`psd`, route "direct": the real Mahalanobis value `d(x) >= 0` for
every query x under positive definite block covariances) and compositionally (`psd`, route "split": the real value
equals termwise the sum over blocks of `y_e^T inv(C_e) y_e`, and each summand is >= 0 -- one small query per
block; a sum of non-negative reals is non-negative).  `sqrt` is never applied to a distance in the `psd` harness
(the engine would record `d >= 0` as a side condition of the square root and make the obligation vacuous).

The engine's inverse is adjugate/det as a fraction; sums over several blocks multiply the denominators without ever
cancelling, so x^T P x of a graph with more than one block explodes in the term algebra.  The Mahalanobis
harnesses therefore run menpo with a reciprocal-variable model of numpy.linalg.inv (`Recip`: 1/det(C_e) is ONE
solver variable t_e with t_e*det(C_e) = 1, shared with the oracle through the canonical determinant polynomial);
that the blocks written this way are the plain inverses is an obligation of its own.  `precision` uses the
engine's plain fraction inverse.  History: the first run of this module found that one feature per vertex raised
LinAlgError (0-d covariance handed to linalg.inv); repaired in /repo ("fix: GMRF models with one feature per
vertex ...").

Developer self test: `C12_SELFTEST=1 ./check C12 --no-evidence` replaces the instance list by mutants (a plausible
bug is patched into menpo behind cfg flag "selftest_mutant"); each must be reported as a VIOLATION.
"""
import inspect
import os

import numpy as np

from harness import common as K
from symx import core, npproxy
from symx.core import Sym

META = {
    "explanation": "C12: training data X (n samples x V*k features) are symbolic reals, graphs are concrete (every "
    "undirected graph on 2 and 3 labelled vertices, 4-chain, 4-star, graphs with isolated vertices, edgeless graphs, "
    "directed graphs without antiparallel pairs incl. edges listed against the vertex order, trees with root 0 and "
    "root != 0), both edge modes, both bias conventions, both storages. (precision) the real dense and sparse "
    "constructors are run on the same X: sparse.todense() = dense termwise; both equal the independent oracle "
    "sum_e E_e^T inv(cov(X_e)) E_e (vertex blocks when the graph has no edge); P = P^T; every block (u,v), u != v, of "
    "non-adjacent vertices is the zero term; rows/columns of isolated vertices of a graph with edges are zero; "
    "storage type and shape are as requested; mean() is the sample mean; the caller's data are untouched. "
    "(mahalanobis) with symbolic queries: d(mean) = 0, d = (x-m)^T P_oracle (x-m), subtract_mean=False gives x^T P x, "
    "sparse = dense, batched (2-D array and list) = stacked singles, a one-row batch = the single value, "
    "square_root=True is >= 0 and squares back. (psd) d(x) >= 0 for all x and all data with positive definite block "
    "covariances, directly and by the per-block decomposition. (vectorizable) the same through GMRFModel on PointCloud "
    "samples (mean() is the mean shape). (dtype) float32/float64 storage and n_components truncation on concrete "
    "well-conditioned data through the real LAPACK/scipy: sparse = dense, symmetric, graph-sparse, PSD (eigenvalues), "
    "equal to the eigh-based truncated pseudo-inverse oracle, Mahalanobis non-negative / zero at the mean / sparse = "
    "dense / batched = singles, all within a float tolerance. (bsr_model) the BSR model against scipy on concrete "
    "blocks for hand-written index arrays incl. duplicates, empty rows and unsorted columns.",
    "bounds": ["graphs: 2-4 vertices (catalogue GRAPHS in harness/c12.py, 22 graphs)",
               "features per vertex: 1 (all graphs), 2 (graphs on <= 3 vertices; concatenation with 2 features: 5 samples "
               "of which 1-2 rows symbolic, the rest exact constants)",
               "samples: n = 3 or 4 fully symbolic rows in [-4,4] (k=1), queries in [-4,4]",
               "block covariances assumed well conditioned: det(C_e) >= 0.05 (1x1: variance >= 0.05)",
               "mahalanobis_sqrt: exact-constant training data (4-6 samples), symbolic queries",
               "increment: 3 symbolic samples, then 1-2 more",
               "dtype/n_components: 1-3 features per vertex, n_components in {None, 1, 2, block size, block size + 2}, "
               "3 (quick) / 6 concrete data sets of 8 samples per configuration, bias alternating"],
    "stubs": ["scipy.sparse.bsr_matrix (name imported into menpo/model/gmrf.py) -> dense BSR model in this file, "
              "cross-validated against scipy on menpo's own index arrays at every construction",
              "numpy.cov / numpy.linalg.inv -> engine models (exact covariance; adjugate inverse)",
              "mahalanobis / psd(split) / vectorizable: numpy.linalg.inv -> adjugate times a reciprocal variable t with "
              "t*det = 1 (class Recip); obligation block[e].reciprocal_model=inverse ties it to the plain inverse",
              "mahalanobis_sqrt: numpy.sqrt -> engine model (fresh r >= 0 with r*r = d)"],
    "assumptions": ["floats are modelled as exact reals (symbolic part); replay compares floats with a 1e-6 margin",
                    "block covariances are positive definite with det >= 0.05 ('well-conditioned data sets')",
                    "PSD by decomposition relies on: a finite sum of non-negative reals is non-negative"],
    "not_covered": ["float32 rounding and n_components truncation on SYMBOLIC data (SVD of a symbolic covariance): both are "
                    "covered on concrete data only (harness `dtype`)",
                    "principal_components_analysis (eigsh of the precision)", "GMRFModel.increment (Vectorizable samples); repeated increments",
                    "graphs on more than 4 vertices, more than 2 features per vertex",
                    "directed graphs WITH antiparallel edge pairs (excluded by the property: dense overwrites, sparse adds)"],
    "trusted": ["oracle (own covariance, adjugate inverse, scatter) in harness/c12.py",
                "BSR model in harness/c12.py (validated against scipy at every use)",
                "numpy.linalg.eigh as the definition of the truncated pseudo-inverse in the concrete dtype harness"],
}

# ====================================================================== graph catalogue
# name -> (kind, n_vertices, edges, root)   kind: U undirected, D directed, T tree
GRAPHS = {
    "e2": ("U", 2, [], None),
    "k2": ("U", 2, [(0, 1)], None),
    "e3": ("U", 3, [], None),
    "u3_01": ("U", 3, [(0, 1)], None),
    "u3_02": ("U", 3, [(0, 2)], None),
    "u3_12": ("U", 3, [(1, 2)], None),
    "u3_01_12": ("U", 3, [(0, 1), (1, 2)], None),
    "u3_01_02": ("U", 3, [(0, 1), (0, 2)], None),
    "u3_02_12": ("U", 3, [(0, 2), (1, 2)], None),
    "tri": ("U", 3, [(0, 1), (1, 2), (0, 2)], None),
    "e4": ("U", 4, [], None),
    "chain4": ("U", 4, [(0, 1), (1, 2), (2, 3)], None),
    "star4": ("U", 4, [(2, 0), (2, 1), (2, 3)], None),
    "iso4": ("U", 4, [(1, 3)], None),
    "iso4b": ("U", 4, [(3, 1), (1, 2)], None),
    "iso4c": ("U", 4, [(0, 1)], None),
    "d2": ("D", 2, [(1, 0)], None),
    "d3": ("D", 3, [(0, 1), (2, 1), (0, 2)], None),
    "d4": ("D", 4, [(3, 0), (1, 0), (1, 2)], None),
    "ed3": ("D", 3, [], None),
    "tree4": ("T", 4, [(0, 1), (0, 2), (2, 3)], 0),
    "tree3r": ("T", 3, [(2, 0), (2, 1)], 2),
}

# exact constants for the non-symbolic sample rows (dyadic rationals, generic, well conditioned)
BASE = [[0.5, -1.25, 2.0, 0.75, -0.5, 1.5, -2.25, 0.25],
        [-1.5, 0.75, 0.25, -2.0, 1.25, -0.75, 0.5, 2.5],
        [2.25, 1.5, -1.0, 0.5, -2.5, 0.25, 1.75, -1.25],
        [-0.75, -2.0, -1.75, 1.25, 0.75, 2.0, -0.25, 0.5],
        [1.0, 0.25, 1.5, -1.5, 2.0, -1.75, -1.0, -2.0],
        [-2.0, 2.25, -0.5, 2.5, 0.25, 0.75, 1.25, 1.0]]

MARGIN = 0.05


def _mk_graph(name):
    from menpo.shape import DirectedGraph, Tree, UndirectedGraph

    kind, V, edges, root = GRAPHS[name]
    e = np.array(edges, dtype=int) if edges else None
    if kind == "U":
        g = UndirectedGraph.init_from_edges(e, V)
    elif kind == "D":
        g = DirectedGraph.init_from_edges(e, V)
    else:
        g = Tree.init_from_edges(e, V, root)
    return g, V, list(edges)


# ====================================================================== instances
def _selftest_instances():
    return [("precision", {"graph": "u3_01_12", "mode": "concatenation", "bias": 0, "n": 3, "k": 1, "selftest_mutant": "dense_offdiag_sign"}),
            ("precision", {"graph": "chain4", "mode": "subtraction", "bias": 0, "n": 3, "k": 1, "selftest_mutant": "dense_diag_overwrite"}),
            ("precision", {"graph": "iso4c", "mode": "concatenation", "bias": 0, "n": 3, "k": 1, "selftest_mutant": "indptr"}),
            ("precision", {"graph": "k2", "mode": "concatenation", "bias": 1, "n": 3, "k": 1, "selftest_mutant": "bias"}),
            ("precision", {"graph": "d3", "mode": "concatenation", "bias": 0, "n": 3, "k": 1, "selftest_mutant": "sparse_swap"}),
            ("precision", {"graph": "e3", "mode": "concatenation", "bias": 0, "n": 3, "k": 2, "selftest_mutant": "diag_shift"}),
            ("precision", {"graph": "k2", "mode": "concatenation", "bias": 0, "n": 3, "k": 1, "selftest_mutant": "mean"}),
            ("mahalanobis", {"graph": "u3_01_12", "mode": "concatenation", "bias": 0, "n": 3, "k": 1, "selftest_mutant": "maha_no_mean"}),
            ("mahalanobis", {"graph": "k2", "mode": "concatenation", "bias": 0, "n": 3, "k": 1, "selftest_mutant": "maha_sparse_T"}),
            ("psd", {"graph": "k2", "mode": "concatenation", "bias": 0, "n": 3, "k": 1, "route": "direct", "sparse": False, "selftest_mutant": "dense_offdiag_double"}),
            ("psd", {"graph": "u3_01_12", "mode": "concatenation", "bias": 0, "n": 3, "k": 1, "route": "split", "sparse": False, "selftest_mutant": "dense_offdiag_double"}),
            ("increment", {"graph": "u3_01_12", "mode": "subtraction", "bias": 0, "n": 3, "n_new": 1, "k": 1, "selftest_mutant": "inc_norm"}),
            ("increment", {"graph": "e3", "mode": "concatenation", "bias": 1, "n": 3, "n_new": 2, "k": 1, "selftest_mutant": "inc_mean"}),
            ("dtype", {"graph": "u3_01_12", "mode": "concatenation", "dtype": "float32", "ks": [2], "seeds": 2, "selftest_mutant": "sparse_swap"}),
            ("dtype", {"graph": "k2", "mode": "concatenation", "dtype": "float64", "ks": [2], "seeds": 2, "selftest_mutant": "svd_no_invert"})]


def instances(tier):
    """bias (and, in `psd`, the storage) are forked inside an instance (F.choice / F.bool) unless fixed by the cfg"""
    if os.environ.get("C12_SELFTEST"):
        return _selftest_instances()
    quick = tier == "quick"
    out = []
    modes = ("concatenation", "subtraction")

    def gm(names):
        for g in names:
            for mode in (modes if GRAPHS[g][2] else ("concatenation",)):
                yield g, mode

    # ---- precision, 1 feature per vertex, fully symbolic data
    for g, mode in gm(GRAPHS):
        out.append(("precision", {"graph": g, "mode": mode, "n": 3, "k": 1}))
        if not quick or g in ("k2", "tri", "iso4", "d3", "e3"):
            out.append(("precision", {"graph": g, "mode": mode, "n": 4, "k": 1}))
    # ---- precision, 2 features per vertex
    for g in ("e2", "k2", "e3", "d2") if quick else ("e2", "k2", "e3", "u3_01", "u3_01_12", "tri", "d2", "d3", "tree3r"):
        if not GRAPHS[g][2]:
            out.append(("precision", {"graph": g, "mode": "concatenation", "n": 3, "k": 2}))
            continue
        out.append(("precision", {"graph": g, "mode": "subtraction", "n": 3, "k": 2}))
        if not quick and len(GRAPHS[g][2]) == 1:
            out.append(("precision", {"graph": g, "mode": "subtraction", "n": 4, "k": 2}))
        out.append(("precision", {"graph": g, "mode": "concatenation", "n": 5, "k": 2, "sym_rows": 1}))
        if not quick and GRAPHS[g][1] == 2:
            out.append(("precision", {"graph": g, "mode": "concatenation", "n": 5, "k": 2, "sym_rows": 2}))
    # ---- incremental update
    for g, mode in gm(("k2", "e3", "u3_01_12", "iso4c", "d3") if quick else tuple(GRAPHS)):
        out.append(("increment", {"graph": g, "mode": mode, "n": 3, "n_new": 1, "k": 1}))
        if not quick or g in ("k2", "e3"):
            out.append(("increment", {"graph": g, "mode": mode, "n": 3, "n_new": 2, "k": 1, "as_list": True}))
    out.append(("increment", {"graph": "k2", "mode": "subtraction", "n": 3, "n_new": 1, "k": 2}))
    out.append(("increment", {"graph": "e2", "mode": "concatenation", "n": 3, "n_new": 2, "k": 2}))
    # ---- Mahalanobis identities
    mg = ("k2", "e3", "u3_01_12", "tri", "iso4", "iso4c", "d3", "tree4") if quick else tuple(GRAPHS)
    for g, mode in gm(mg):
        for bias in ((0,) if quick else (0, 1)):
            out.append(("mahalanobis", {"graph": g, "mode": mode, "bias": bias, "n": 3, "k": 1}))
    for g in ("k2", "e2") if quick else ("k2", "e2", "u3_01_12", "e3"):
        out.append(("mahalanobis", {"graph": g, "mode": "subtraction" if GRAPHS[g][2] else "concatenation", "bias": 0, "n": 3, "k": 2}))
    out.append(("mahalanobis", {"graph": "k2", "mode": "concatenation", "bias": 1, "n": 3, "k": 1, "native_inv": True}))
    for i, (g, mode) in enumerate(gm(mg)):
        for sparse in (False, True):
            out.append(("mahalanobis_sqrt", {"graph": g, "mode": mode, "bias": (i + sparse) % 2, "n": 4, "k": 1, "sparse": sparse}))
    out.append(("mahalanobis_sqrt", {"graph": "u3_01_12", "mode": "concatenation", "bias": 0, "n": 6, "k": 2, "sparse": True}))
    out.append(("mahalanobis_sqrt", {"graph": "k2", "mode": "subtraction", "bias": 1, "n": 5, "k": 2, "sparse": False}))
    # ---- PSD (bias and storage fixed per instance: an integer/boolean fork variable in the path condition
    #      takes the queries out of z3's pure nonlinear-real fragment and they stop being decided)
    for i, (g, mode) in enumerate(gm(mg)):
        for sparse in (False, True):
            out.append(("psd", {"graph": g, "mode": mode, "bias": 0 if quick else (i + sparse) % 2, "n": 3, "k": 1, "route": "split", "sparse": sparse}))
    for g, mode in gm(("k2", "e2", "u3_01", "iso4", "d2")):
        for bias in (0, 1):
            out.append(("psd", {"graph": g, "mode": mode, "bias": bias, "n": 3, "k": 1, "route": "direct", "sparse": bias == 1}))
            if not quick:
                out.append(("psd", {"graph": g, "mode": mode, "bias": bias, "n": 3, "k": 1, "route": "direct", "sparse": bias == 0}))
    out.append(("psd", {"graph": "k2", "mode": "subtraction", "bias": 0, "n": 3, "k": 2, "route": "split", "sparse": True}))
    out.append(("psd", {"graph": "e2", "mode": "concatenation", "bias": 0, "n": 3, "k": 2, "route": "split", "sparse": False}))
    if not quick:
        out.append(("psd", {"graph": "k2", "mode": "subtraction", "bias": 1, "n": 3, "k": 2, "route": "split", "sparse": False}))
        out.append(("psd", {"graph": "e3", "mode": "concatenation", "bias": 1, "n": 3, "k": 2, "route": "split", "sparse": True}))
    # ---- GMRFModel on PointClouds
    out.append(("vectorizable", {"graph": "k2", "mode": "subtraction", "bias": 0, "n": 3}))
    out.append(("vectorizable", {"graph": "e2", "mode": "concatenation", "bias": 1, "n": 3}))
    if not quick:
        out.append(("vectorizable", {"graph": "u3_01_12", "mode": "subtraction", "bias": 0, "n": 3}))
    # ---- float32 / float64 / rank truncation on concrete data (real LAPACK and scipy)
    for g, mode in gm(("k2", "e3", "u3_01_12", "iso4", "iso4c", "d3", "tree4") if quick else tuple(GRAPHS)):
        for dt in ("float32", "float64"):
            out.append(("dtype", {"graph": g, "mode": mode, "dtype": dt, "ks": [1, 2] if quick else [1, 2, 3], "seeds": 3 if quick else 6}))
    out.append(("bsr_model", {}))
    return out


# ====================================================================== BSR model
class BSRModel:
    """dense model of scipy.sparse.bsr_matrix((data, indices, indptr), shape=...): block k of block row i
    (indptr[i] <= k < indptr[i+1]) is added at block column indices[k]"""

    checks = []  # (ok, detail) of the cross-validations against scipy, drained by the harness

    def __init__(self, arg, shape=None, dtype=None):
        data, indices, indptr = arg
        data = np.asarray(data, dtype=object)
        R, C = data.shape[1], data.shape[2]
        self.shape = tuple(shape)
        self.dtype = np.dtype(dtype) if dtype is not None else np.dtype(float)
        self.D = self._assemble(data, indices, indptr, self.shape, R, C)
        self._validate(data, indices, indptr, dtype)

    @staticmethod
    def _assemble(data, indices, indptr, shape, R, C):
        D = np.zeros(shape).astype(object)
        for i in range(len(indptr) - 1):
            for kk in range(int(indptr[i]), int(indptr[i + 1])):
                j = int(indices[kk])
                for a in range(R):
                    for b in range(C):
                        D[i * R + a, j * C + b] = D[i * R + a, j * C + b] + data[kk][a, b]
        return D

    def _validate(self, data, indices, indptr, dtype):
        """same index arrays, concrete surrogate blocks: the model must agree with the real scipy class"""
        import scipy.sparse as sp

        try:
            nb, R, C = data.shape
            rs = np.random.RandomState(nb * 7 + R)
            surr = np.round(rs.uniform(-4, 4, size=(nb, R, C)) * 16) / 16
            real = sp.bsr_matrix((surr.copy(), np.asarray(indices, dtype=float), np.asarray(indptr, dtype=float)),
                                 shape=self.shape, dtype=dtype)
            mine = self._assemble(surr.astype(object), indices, indptr, self.shape, R, C).astype(float)
            v = np.round(rs.uniform(-2, 2, size=(self.shape[1], 2)) * 8) / 8
            ok = bool(np.allclose(np.asarray(real.todense()), mine, rtol=0, atol=1e-12)) and \
                bool(np.allclose(real.dot(v), mine.dot(v), rtol=0, atol=1e-10)) and real.shape == self.shape
            BSRModel.checks.append((ok, "" if ok else "scipy:\n%s\nmodel:\n%s" % (real.todense(), mine)))
        except Exception as e:  # scipy refuses arrays the model accepted
            BSRModel.checks.append((False, "scipy raised %s: %s" % (type(e).__name__, e)))

    def todense(self):
        return self.D.copy()

    toarray = todense

    def dot(self, x):
        return self.D.dot(x)


def _dense_of(P):
    """precision (ndarray | scipy sparse | BSRModel) -> 2-D array"""
    if isinstance(P, BSRModel):
        return P.todense()
    if isinstance(P, np.ndarray):
        return P
    return np.asarray(P.todense())


def _is_sparse(P):
    import scipy.sparse as sp

    if isinstance(P, BSRModel):
        return True
    return bool(sp.issparse(P)) and P.format == "bsr"


def _install(F, cfg):
    """symbolic mode: BSR model in place of scipy's class; optional developer mutants"""
    import menpo.model.gmrf as G

    BSRModel.checks = []
    if F.sym and not cfg.get("real_bsr"):
        F.patch(G, "bsr_matrix", BSRModel)
    mutant = cfg.get("selftest_mutant") or os.environ.get("C12_MUTANT_ALL")  # the latter: developer timing aid only
    if mutant:
        _mutate(F, mutant)


def _bsr_validated(F, ob, expected=True):
    if F.sym:
        ob.true("bsr_model.validated", all(ok for ok, _ in BSRModel.checks))
        ob.true("bsr_model.used", (len(BSRModel.checks) > 0) == bool(expected))


# ====================================================================== reciprocal-variable model of inv
class Recip:
    """1/p for a polynomial p as ONE named solver variable t with the side condition t*p = 1.

    The engine's own `inv` returns adjugate/det as fractions; adding entries of different blocks then multiplies the
    denominators (det_1 * det_2 * ...) without ever cancelling, and the quadratic form x^T P x of a graph with more
    than one block explodes.  With t_e standing for 1/det(C_e) every entry of the precision is a POLYNOMIAL in the
    data and the t_e, and the Mahalanobis identities are recognised as polynomial identities.  The same table is
    used by the model of numpy.linalg.inv and by the harness oracle (looked up by the canonical determinant
    polynomial), so both speak about the same t_e.  Only the Mahalanobis harnesses use it; `precision` runs on the
    engine's plain fraction inverse."""

    def __init__(self):
        self.table = []  # (numerator Poly, denominator Poly | None, Sym t)

    def __call__(self, d):
        if not isinstance(d, Sym):
            return 1 / d
        if d.is_const():
            return 1 / d
        for (n0, d0, t) in self.table:
            if n0 == d.n and ((d0 is None and d.d is None) or (d0 is not None and d.d is not None and d0 == d.d)):
                return t
        c = core.ctx()
        v = c.fresh_real("rdet")
        if d.d is None:
            c.defined.append(v * d.n.z3() == 1)
        else:
            c.defined.append(v * d.n.z3() == d.d.z3())
        t = Sym.var(v)
        self.table.append((d.n, d.d, t))
        return t

    def inv(self, a):
        """model of numpy.linalg.inv: adjugate times the reciprocal variable of the determinant"""
        if not core.has_sym(a):
            r = np.linalg.inv(npproxy._defloat(a))
            return npproxy._reobject(r) if npproxy._was_object((a,)) else r
        a = core.O(a)
        if a.ndim != 2 or a.shape[0] != a.shape[1]:
            raise np.linalg.LinAlgError("Last 2 dimensions of the array must be square")
        return _adjugate_inverse(a, self)


def _use_recip(F, cfg):
    """symbolic mode only: numpy.linalg.inv (as seen by menpo) becomes the reciprocal-variable model"""
    if not F.sym or cfg.get("native_inv"):
        return None
    rc = Recip()
    F.patch(npproxy.NP.linalg, "inv", rc.inv)
    return rc


# ====================================================================== developer mutants
def _rewrite(F, owner, name, *pairs):
    """patch `owner.name` with its own source after textual replacements (old, new, old, new, ...): plausible one-line bugs"""
    import textwrap

    fn = getattr(owner, name)
    src = textwrap.dedent(inspect.getsource(fn))
    for old, new in zip(pairs[0::2], pairs[1::2]):
        assert src.count(old) >= 1, (name, old)
        src = src.replace(old, new, 1)
    glob = fn.__globals__
    ns = {}
    exec(compile(src, "<c12 mutant %s>" % name, "exec"), glob, ns)
    F.patch(owner, name, ns[name])


def _mutate(F, m):
    import menpo.model.gmrf as G

    if m == "dense_offdiag_sign":
        _rewrite(F, G, "_create_dense_precision", "precision[v2_from:v2_to, v1_from:v1_to] = covmat[",
                 "precision[v2_from:v2_to, v1_from:v1_to] = -covmat[")
    elif m == "dense_offdiag_double":
        _rewrite(F, G, "_create_dense_precision", "precision[v1_from:v1_to, v2_from:v2_to] = covmat[",
                 "precision[v1_from:v1_to, v2_from:v2_to] = 3 * covmat[",
                 "precision[v2_from:v2_to, v1_from:v1_to] = covmat[",
                 "precision[v2_from:v2_to, v1_from:v1_to] = 3 * covmat[")
        _rewrite(F, G, "_create_sparse_precision", "all_blocks[count] = covmat[:n_features_per_vertex, n_features_per_vertex::]",
                 "all_blocks[count] = 3 * covmat[:n_features_per_vertex, n_features_per_vertex::]",
                 "all_blocks[count] = covmat[n_features_per_vertex::, :n_features_per_vertex]",
                 "all_blocks[count] = 3 * covmat[n_features_per_vertex::, :n_features_per_vertex]")
    elif m == "dense_diag_overwrite":
        _rewrite(F, G, "_create_dense_precision", "precision[v1_from:v1_to, v1_from:v1_to] += covmat\n",
                 "precision[v1_from:v1_to, v1_from:v1_to] = covmat\n")
    elif m == "indptr":
        _rewrite(F, G, "_create_sparse_precision", "indptr[i + 1] = indptr[i]", "indptr[i + 1] = 0")
    elif m == "bias":
        _rewrite(F, G, "_create_sparse_precision", "np.cov(edge_data, rowvar=0, bias=bias)", "np.cov(edge_data, rowvar=0)")
    elif m == "sparse_swap":
        _rewrite(F, G, "_create_sparse_precision", "rows[count] = v1\n            columns[count] = v2",
                 "rows[count] = v1\n            columns[count] = v1")
    elif m == "diag_shift":
        _rewrite(F, G, "_create_dense_diagonal_precision", "precision[i_from:i_to, i_from:i_to] = covmat",
                 "precision[i_from:i_to, i_from:i_to] = covmat.T[::-1, ::-1]")
    elif m == "mean":
        _rewrite(F, G.GMRFVectorModel, "__init__", "self.mean_vector = np.mean(data, axis=0)",
                 "self.mean_vector = np.sum(data, axis=0) / (data.shape[0] - 1)")
    elif m == "maha_no_mean":
        _rewrite(F, G.GMRFVectorModel, "_mahalanobis_distance", "if subtract_mean:", "if subtract_mean and not self.sparse:")
    elif m == "maha_sparse_T":
        _rewrite(F, G.GMRFVectorModel, "_mahalanobis_distance", "d = np.diag(d)", "d = d[0]")
    elif m == "inc_norm":
        _rewrite(F, G, "_increment_multivariate_gaussian_cov", "k = n - 1", "k = n")
    elif m == "inc_mean":
        _rewrite(F, G.GMRFVectorModel, "_increment", "self.n_samples += data.shape[0]", "self.n_samples += 1")
    elif m == "svd_no_invert":
        _rewrite(F, G, "_covariance_matrix_inverse", "np.diag(1 / v)", "np.diag(v)")
    else:
        raise KeyError(m)


# ====================================================================== oracle (independent of menpo)
def _blk(v, k):
    return list(range(v * k, (v + 1) * k))


def _own_cov(Z, bias):
    """covariance of the rows of Z (n x p): centred sums divided by n-1 (bias 0) or n (bias 1)"""
    n, p = Z.shape
    m = [sum(Z[i, a] for i in range(n)) / n for a in range(p)]
    C = np.empty((p, p), dtype=Z.dtype)
    for a in range(p):
        for b in range(p):
            C[a, b] = sum((Z[i, a] - m[a]) * (Z[i, b] - m[b]) for i in range(n)) / (n if bias else n - 1)
    return C


def _adjugate_inverse(C, recip=None):
    """adjugate times 1/det (1/det through `recip` when given)"""
    p = C.shape[0]
    d = K.det(C)
    r = recip(d) if recip is not None else 1 / d
    out = np.empty((p, p), dtype=C.dtype)
    if p == 1:
        out[0, 0] = r
        return out
    for i in range(p):
        for j in range(p):
            minor = np.delete(np.delete(C, j, 0), i, 1)
            out[i, j] = ((-1) ** (i + j)) * K.det(minor) * r
    return out


_own_inv = _adjugate_inverse


def _selectors(V, k, edges, mode):
    """per block: the (p x N) selection matrix E_e as a list of {column: coefficient} rows"""
    sel = []
    if not edges:
        for v in range(V):
            sel.append([{c: 1} for c in _blk(v, k)])
    elif mode == "concatenation":
        for (u, v) in edges:
            sel.append([{c: 1} for c in _blk(u, k) + _blk(v, k)])
    else:
        for (u, v) in edges:
            sel.append([{cu: 1, cv: -1} for cu, cv in zip(_blk(u, k), _blk(v, k))])
    return sel


def _apply_sel(rows, M):
    """E_e applied to the columns of M (n x N) -> n x p"""
    out = np.empty((M.shape[0], len(rows)), dtype=M.dtype)
    for i in range(M.shape[0]):
        for a, r in enumerate(rows):
            out[i, a] = sum(coef * M[i, c] for c, coef in r.items())
    return out


def _oracle(F, X, V, k, edges, mode, bias, assume=True, recip=None):
    """-> (P, [(rows_e, Cinv_e, C_e)], mean): P = sum_e E_e^T inv(cov(E_e X)) E_e"""
    N = V * k
    P = K.zeros(F, (N, N))
    parts = []
    for rows in _selectors(V, k, edges, mode):
        Z = _apply_sel(rows, X)
        C = _own_cov(Z, bias)
        if assume:
            _well_conditioned(F, C)
        Ci = _own_inv(C, recip)
        parts.append((rows, Ci, C))
        for a, ra in enumerate(rows):
            for b, rb in enumerate(rows):
                for ca, fa in ra.items():
                    for cb, fb in rb.items():
                        P[ca, cb] = P[ca, cb] + fa * fb * Ci[a, b]
    n = X.shape[0]
    mean = np.array([sum(X[i, c] for i in range(n)) / n for c in range(N)], dtype=X.dtype)
    return P, parts, mean


def _well_conditioned(F, C):
    """positive definite with a margin: every leading principal minor >= MARGIN"""
    for r in range(1, C.shape[0] + 1):
        F.assume(K.det(C[:r, :r]) >= MARGIN)


def _recip_is_inverse(ob, rc, parts):
    """the blocks written with reciprocal variables are the plain inverses (t_e * det_e = 1)"""
    if rc is None:
        return
    for e, (rows, Ci, C) in enumerate(parts):
        ob.eq("block[%d].reciprocal_model=inverse" % e, Ci, _own_inv(C))


def _quad(P, y):
    n = len(y)
    return sum(y[i] * P[i, j] * y[j] for i in range(n) for j in range(n))


def _data(F, cfg, V):
    n, k = cfg["n"], cfg.get("k", 1)
    N = V * k
    s = cfg.get("sym_rows", n)
    X = np.empty((n, N), dtype=object if F.sym else float)
    base = K.const(F, np.array(BASE)[:, :N])
    for i in range(n):
        if i < s:
            X[i] = F.reals("x%d" % i, (N,), -4, 4)
        else:
            X[i] = base[i]
    return X


def _bias(F, cfg):
    return cfg["bias"] if "bias" in cfg else F.choice("bias", [0, 1])


def _sparse(F, cfg):
    return cfg["sparse"] if "sparse" in cfg else F.bool("sparse")


def _adjacent(V, edges):
    A = np.zeros((V, V), dtype=bool)
    for (u, v) in edges:
        A[u, v] = A[v, u] = True
    return A


# ====================================================================== harnesses
def precision(F, ob, cfg):
    """dense and sparse precision of the same data: equal, equal to the oracle, symmetric, graph-sparse"""
    from menpo.model.gmrf import GMRFVectorModel

    graph, V, edges = _mk_graph(cfg["graph"])
    k, mode, bias = cfg.get("k", 1), cfg["mode"], _bias(F, cfg)
    N = V * k
    X = _data(F, cfg, V)
    Po, _, mean = _oracle(F, X, V, k, edges, mode, bias)
    _install(F, cfg)
    X0 = X.copy()
    md = GMRFVectorModel(X, graph, mode=mode, sparse=False, bias=bias, dtype=np.float64)
    ms = GMRFVectorModel(X, graph, mode=mode, sparse=True, bias=bias, dtype=np.float64)
    ob.true("dense.is_ndarray", isinstance(md.precision, np.ndarray) and md.precision.shape == (N, N))
    ob.true("sparse.is_bsr", _is_sparse(ms.precision) and tuple(ms.precision.shape) == (N, N))
    ob.true("dtype", np.dtype(ms.precision.dtype) == np.float64 and (F.sym or md.precision.dtype == np.float64))
    Pd, Ps = _dense_of(md.precision), _dense_of(ms.precision)
    ob.eq("sparse=dense", Ps, Pd)
    ob.eq("dense=oracle", Pd, Po)
    ob.eq("sparse=oracle", Ps, Po)
    ob.eq("dense.symmetric", Pd, Pd.T)
    ob.eq("sparse.symmetric", Ps, Ps.T)
    A = _adjacent(V, edges)
    zero = np.zeros((k, k))
    for u in range(V):
        for v in range(V):
            if u != v and not A[u, v]:
                ob.eq("dense.uncoupled[%d,%d]" % (u, v), Pd[np.ix_(_blk(u, k), _blk(v, k))], zero)
                ob.eq("sparse.uncoupled[%d,%d]" % (u, v), Ps[np.ix_(_blk(u, k), _blk(v, k))], zero)
        if edges and not A[u].any():
            # an isolated vertex of a graph with edges belongs to no block
            ob.eq("dense.isolated_row[%d]" % u, Pd[_blk(u, k), :], np.zeros((k, N)))
            ob.eq("sparse.isolated_row[%d]" % u, Ps[_blk(u, k), :], np.zeros((k, N)))
    ob.eq("dense.mean", md.mean(), mean)
    ob.eq("sparse.mean", ms.mean(), mean)
    ob.true("mean.shape", np.shape(md.mean()) == (N,))
    ob.true("n_samples", md.n_samples == cfg["n"] and md.n_features == N and md.n_features_per_vertex == k)
    ob.same("data_untouched", X, X0)
    _bsr_validated(F, ob)


def increment(F, ob, cfg):
    """incremental=True: after increment(B) a model trained on A is the model of A and B together (precision of both
    storages = oracle on all samples, mean = mean of all samples); a non-incremental model refuses"""
    from menpo.model.gmrf import GMRFVectorModel

    graph, V, edges = _mk_graph(cfg["graph"])
    k, mode, bias = cfg.get("k", 1), cfg["mode"], _bias(F, cfg)
    N = V * k
    n0, n1 = cfg["n"], cfg["n_new"]
    X = _data(F, dict(cfg, n=n0 + n1), V)
    A, B = X[:n0].copy(), X[n0:].copy()
    # both the initial and the final block covariances are well conditioned
    _oracle(F, A, V, k, edges, mode, bias)
    Po, _, mean = _oracle(F, X, V, k, edges, mode, bias)
    _install(F, cfg)
    for tag, sparse in (("dense", False), ("sparse", True)):
        m = GMRFVectorModel(A.copy(), graph, mode=mode, sparse=sparse, bias=bias, dtype=np.float64, incremental=True)
        as_list = cfg.get("as_list", False)
        m.increment([B[i].copy() for i in range(n1)] if as_list else B.copy())
        ob.true(tag + ".n_samples", m.n_samples == n0 + n1)
        ob.true(tag + ".storage", _is_sparse(m.precision) == sparse and tuple(m.precision.shape) == (N, N))
        P = _dense_of(m.precision)
        ob.eq(tag + ".precision=oracle_on_all_samples", P, Po)
        ob.eq(tag + ".mean=mean_of_all_samples", m.mean(), mean)
        one = GMRFVectorModel(X.copy(), graph, mode=mode, sparse=sparse, bias=bias, dtype=np.float64)
        ob.eq(tag + ".precision=one_shot_model", P, _dense_of(one.precision))
        try:
            one.increment(B.copy())
            ob.fail(tag + ".non_incremental_refuses", "increment() on incremental=False did not raise")
        except ValueError:
            ob.true(tag + ".non_incremental_refuses", True)
    _bsr_validated(F, ob)


def _queries(F, N, names=("q", "r")):
    return [F.reals(nm, (N,), -4, 4) for nm in names]


def mahalanobis(F, ob, cfg):
    """Mahalanobis identities with symbolic data and symbolic queries (never >= 0 here: see psd)"""
    from menpo.model.gmrf import GMRFVectorModel

    graph, V, edges = _mk_graph(cfg["graph"])
    k, mode, bias = cfg.get("k", 1), cfg["mode"], _bias(F, cfg)
    N = V * k
    X = _data(F, cfg, V)
    rc = _use_recip(F, cfg)
    Po, parts, mean = _oracle(F, X, V, k, edges, mode, bias, recip=rc)
    _recip_is_inverse(ob, rc, parts)
    q, r = _queries(F, N)
    _install(F, cfg)
    md = GMRFVectorModel(X, graph, mode=mode, sparse=False, bias=bias, dtype=np.float64)
    ms = GMRFVectorModel(X, graph, mode=mode, sparse=True, bias=bias, dtype=np.float64)
    want_q = _quad(Po, q - mean)
    want_r = _quad(Po, r - mean)
    q0, r0 = q.copy(), r.copy()
    for tag, m in (("dense", md), ("sparse", ms)):
        dq = m.mahalanobis_distance(q)
        dr = m.mahalanobis_distance(r)
        ob.true(tag + ".single.scalar", np.ndim(dq) == 0)
        ob.eq(tag + ".single=oracle", dq, want_q)
        ob.eq(tag + ".at_mean=0", m.mahalanobis_distance(m.mean()), 0.0)
        ob.eq(tag + ".at_sample_mean=0", m.mahalanobis_distance(mean.copy()), 0.0)
        ob.eq(tag + ".raw", m.mahalanobis_distance(q, subtract_mean=False), _quad(Po, q))
        B = m.mahalanobis_distance(np.vstack([q, r]))
        ob.true(tag + ".batch.shape", np.shape(B) == (2,))
        if np.shape(B) == (2,):
            ob.eq(tag + ".batch=singles", B, np.array([dq, dr], dtype=object if F.sym else float))
            ob.eq(tag + ".batch=oracle", B, np.array([want_q, want_r], dtype=object if F.sym else float))
        L = m.mahalanobis_distance([q, r, q])
        ob.true(tag + ".list.shape", np.shape(L) == (3,))
        if np.shape(L) == (3,):
            ob.eq(tag + ".list=singles", L, np.array([dq, dr, dq], dtype=object if F.sym else float))
        ob.eq(tag + ".one_row_batch", m.mahalanobis_distance(q[None, :]), dq)
        ob.same(tag + ".query_untouched", np.hstack([q, r]), np.hstack([q0, r0]))
    ob.eq("sparse=dense.single", ms.mahalanobis_distance(q), md.mahalanobis_distance(q))
    ob.eq("sparse=dense.batch", ms.mahalanobis_distance(np.vstack([r, q])), md.mahalanobis_distance(np.vstack([r, q])))
    _bsr_validated(F, ob)


def mahalanobis_sqrt(F, ob, cfg):
    """square_root=True on exact-constant training data and symbolic queries: >= 0, squares back, batched = singles.
    (The engine records d >= 0 as a side condition of the square root: non-negativity of d itself is `psd`'s job.)"""
    from menpo.model.gmrf import GMRFVectorModel

    graph, V, edges = _mk_graph(cfg["graph"])
    k, mode, bias = cfg.get("k", 1), cfg["mode"], _bias(F, cfg)
    N = V * k
    sparse = _sparse(F, cfg)
    X = _data(F, dict(cfg, sym_rows=0), V)
    q, r = _queries(F, N)
    _install(F, cfg)
    m = GMRFVectorModel(X, graph, mode=mode, sparse=sparse, bias=bias, dtype=np.float64)
    d = m.mahalanobis_distance(q)
    s = m.mahalanobis_distance(q, square_root=True)
    ob.true("sqrt.scalar", np.ndim(s) == 0)
    ob.eq("sqrt.squares_back", s * s, d)
    ob.le("sqrt.nonneg", 0.0, s)
    S = m.mahalanobis_distance(np.vstack([q, r]), square_root=True)
    ob.true("sqrt.batch.shape", np.shape(S) == (2,))
    if np.shape(S) == (2,):
        ob.eq("sqrt.batch[0]=single", S[0], s)
        ob.eq("sqrt.batch[1].squares_back", S[1] * S[1], m.mahalanobis_distance(r))
        ob.le("sqrt.batch[1].nonneg", 0.0, S[1])
    raw = m.mahalanobis_distance(q, subtract_mean=False, square_root=True)
    ob.eq("sqrt.raw.squares_back", raw * raw, m.mahalanobis_distance(q, subtract_mean=False))
    _bsr_validated(F, ob, sparse)


def psd(F, ob, cfg):
    """x^T P x >= 0 and d(x) >= 0 for every x, from the real Mahalanobis routine"""
    from menpo.model.gmrf import GMRFVectorModel

    graph, V, edges = _mk_graph(cfg["graph"])
    k, mode, bias = cfg.get("k", 1), cfg["mode"], _bias(F, cfg)
    N = V * k
    sparse = _sparse(F, cfg)
    X = _data(F, cfg, V)
    rc = _use_recip(F, cfg) if cfg["route"] == "split" else None
    _, parts, mean = _oracle(F, X, V, k, edges, mode, bias, recip=rc)
    # two queries: q anywhere (raw form x^T P x), and c = sample mean + z for an arbitrary offset z (distance d(c)):
    # every query point is such a c, and the centred vector c - mean is then the plain term z
    (q, z) = _queries(F, N, ("q", "z"))
    c = mean + z
    _install(F, cfg)
    m = GMRFVectorModel(X, graph, mode=mode, sparse=sparse, bias=bias, dtype=np.float64)
    raw = m.mahalanobis_distance(q, subtract_mean=False)
    d = m.mahalanobis_distance(c)
    if cfg["route"] == "direct":
        ob.le("xPx>=0", 0.0, raw)
        ob.le("d(x)>=0", 0.0, d)
    else:
        # the value is termwise the sum of the block forms, and each block form is non-negative
        terms_raw, terms_d = [], []
        for e, (rows, Ci, C) in enumerate(parts):
            y = _apply_sel(rows, q[None, :])[0]
            yc = _apply_sel(rows, z[None, :])[0]
            terms_raw.append(_quad(Ci, y))
            terms_d.append(_quad(Ci, yc))
            # non-negativity is stated on the plain fraction adj(C)/det(C) (no reciprocal variable involved)
            Cn = _own_inv(C) if rc is not None else Ci
            ob.le("block[%d].form>=0" % e, 0.0, _quad(Cn, y))
            ob.le("block[%d].centred_form>=0" % e, 0.0, _quad(Cn, yc))
        _recip_is_inverse(ob, rc, parts)
        ob.eq("xPx=sum_of_block_forms", raw, sum(terms_raw))
        ob.eq("d(x)=sum_of_block_forms", d, sum(terms_d))
        if not F.sym:
            ob.le("xPx>=0", 0.0, raw)
            ob.le("d(x)>=0", 0.0, d)
    _bsr_validated(F, ob, sparse)


def vectorizable(F, ob, cfg):
    """GMRFModel on PointCloud samples (2 features per vertex = the 2 coordinates of a point)"""
    from menpo.model.gmrf import GMRFModel
    from menpo.shape import PointCloud

    graph, V, edges = _mk_graph(cfg["graph"])
    mode, bias, n, k = cfg["mode"], _bias(F, cfg), cfg["n"], 2
    N = V * k
    X = _data(F, dict(cfg, k=2), V)
    rc = _use_recip(F, cfg)
    Po, parts, mean = _oracle(F, X, V, k, edges, mode, bias, recip=rc)
    _recip_is_inverse(ob, rc, parts)
    (q, r) = _queries(F, N)
    _install(F, cfg)
    clouds = [PointCloud(X[i].reshape(V, 2).copy(), copy=False) for i in range(n)]
    md = GMRFModel(clouds, graph, mode=mode, sparse=False, bias=bias)
    ms = GMRFModel(clouds, graph, mode=mode, sparse=True, bias=bias)
    Pd, Ps = _dense_of(md.precision), _dense_of(ms.precision)
    ob.eq("sparse=dense", Ps, Pd)
    ob.eq("dense=oracle", Pd, Po)
    ob.true("sparse.is_bsr", _is_sparse(ms.precision))
    mu = md.mean()
    ob.true("mean.is_pointcloud", type(mu).__name__ == "PointCloud" and mu.points.shape == (V, 2))
    ob.eq("mean=sample_mean", mu.points, mean.reshape(V, 2))
    ob.eq("sparse.mean", ms.mean().points, mean.reshape(V, 2))
    pq = PointCloud(q.reshape(V, 2).copy(), copy=False)
    pr = PointCloud(r.reshape(V, 2).copy(), copy=False)
    for tag, m in (("dense", md), ("sparse", ms)):
        dq = m.mahalanobis_distance(pq)
        ob.eq(tag + ".single=oracle", dq, _quad(Po, q - mean))
        ob.eq(tag + ".at_mean=0", m.mahalanobis_distance(m.mean()), 0.0)
        B = m.mahalanobis_distance([pq, pr])
        ob.true(tag + ".batch.shape", np.shape(B) == (2,))
        if np.shape(B) == (2,):
            ob.eq(tag + ".batch=singles", B, np.array([dq, m.mahalanobis_distance(pr)], dtype=object if F.sym else float))
    for i in range(n):
        ob.same("samples_untouched[%d]" % i, clouds[i].points, X[i].reshape(V, 2))
    _bsr_validated(F, ob)


# ---------------------------------------------------------------------- concrete data: float32 / n_components
def _concrete_data(seed, n, N):
    rs = np.random.RandomState(1000 + seed)
    A = rs.uniform(-1, 1, size=(N, N)) + 1.5 * np.eye(N)
    Z = rs.standard_normal(size=(n, N)).dot(A)
    return np.round(Z * 64) / 64


def _truncated_pinv(C, nc):
    """independent oracle: sum over the nc largest eigenpairs of v v^T / lambda (full inverse when nc >= p)"""
    C = np.atleast_2d(np.asarray(C, dtype=float))
    w, U = np.linalg.eigh(C)
    order = np.argsort(-w)
    if nc is None:
        nc = len(w)
    out = np.zeros_like(C)
    for i in order[:nc]:
        out += np.outer(U[:, i], U[:, i]) / w[i]
    return out


def dtype(F, ob, cfg):
    """float32 / float64 storage and rank truncation on concrete data through the real LAPACK and scipy
    (loops over features per vertex, n_components, bias and data sets inside one instance)"""
    graph, V, edges = _mk_graph(cfg["graph"])
    mode = cfg["mode"]
    _install(F, dict(cfg, real_bsr=True))
    for k in cfg["ks"]:
        blockdim = k if (not edges or mode == "subtraction") else 2 * k
        for nc in [None] + sorted(set([1, 2, blockdim, blockdim + 2])):
            if "only_ncomp" in cfg and nc != cfg["only_ncomp"]:
                continue
            for seed in range(cfg["seeds"]):
                _dtype_case(F, ob, cfg, graph, V, edges, k, mode, (k + seed + (nc or 0)) % 2, nc, seed)


def _dtype_case(F, ob, cfg, graph, V, edges, k, mode, bias, nc, seed):
    from menpo.model.gmrf import GMRFVectorModel

    dt = np.float32 if cfg["dtype"] == "float32" else np.float64
    N = V * k
    tol = 2e-4 if dt is np.float32 else 1e-8
    n = 8
    A = _adjacent(V, edges)
    X = _concrete_data(seed, n, N)
    # oracle on plain floats: own covariance, eigh-based (truncated) pseudo-inverse, own scatter
    Po = np.zeros((N, N))
    for rows in _selectors(V, k, edges, mode):
        C = _own_cov(_apply_sel(rows, X), bias)
        Ci = _truncated_pinv(C, nc)
        E = np.zeros((len(rows), N))
        for a, rw in enumerate(rows):
            for c, f in rw.items():
                E[a, c] = f
        Po += E.T.dot(Ci).dot(E)
    scale = float(np.abs(Po).max())
    X0 = X.copy()
    md = GMRFVectorModel(X, graph, mode=mode, sparse=False, bias=bias, dtype=dt, n_components=nc)
    ms = GMRFVectorModel(X, graph, mode=mode, sparse=True, bias=bias, dtype=dt, n_components=nc)
    t = "k%d.nc%s.b%d.s%d." % (k, nc, bias, seed)
    # (under the np proxy a float64 request is served by an object array of floats)
    ob.true(t + "dense.dtype", isinstance(md.precision, np.ndarray) and
            (md.precision.dtype == dt or (F.sym and dt is np.float64 and md.precision.dtype == object)))
    ob.true(t + "sparse.dtype", _is_sparse(ms.precision) and ms.precision.dtype == dt)
    Pd = np.asarray(md.precision, dtype=float)
    Ps = np.asarray(ms.precision.todense(), dtype=float)
    ob.true(t + "sparse=dense", bool(np.abs(Ps - Pd).max() <= tol * scale))
    ob.true(t + "dense=oracle", bool(np.abs(Pd - Po).max() <= tol * scale * 50))
    ob.true(t + "sparse=oracle", bool(np.abs(Ps - Po).max() <= tol * scale * 50))
    ob.true(t + "dense.symmetric", bool(np.abs(Pd - Pd.T).max() <= tol * scale))
    ob.true(t + "sparse.symmetric", bool(np.abs(Ps - Ps.T).max() <= tol * scale))
    ok = True
    for u in range(V):
        for v in range(V):
            if u != v and not A[u, v]:
                ok = ok and not Pd[np.ix_(_blk(u, k), _blk(v, k))].any() and not Ps[np.ix_(_blk(u, k), _blk(v, k))].any()
    ob.true(t + "uncoupled_blocks_zero", bool(ok))
    for tag, P in (("dense", Pd), ("sparse", Ps)):
        w = np.linalg.eigvalsh((P + P.T) / 2)
        ob.true(t + tag + ".psd", bool(w.min() >= -tol * scale * 10))
    mu = X0.mean(axis=0)
    ob.true(t + "mean", bool(np.allclose(np.asarray(md.mean(), dtype=float), mu, rtol=0, atol=1e-12)) and
            bool(np.allclose(np.asarray(ms.mean(), dtype=float), mu, rtol=0, atol=1e-12)))
    rs = np.random.RandomState(seed)
    Q = np.round(rs.uniform(-3, 3, size=(3, N)) * 32) / 32
    want = np.array([(x - mu).dot(Po).dot(x - mu) for x in Q])
    dscale = max(1.0, float(np.abs(want).max()))
    got = {}
    for tag, m in (("dense", md), ("sparse", ms)):
        B = np.asarray(m.mahalanobis_distance(Q), dtype=float)
        got[tag] = B
        singles = np.array([float(m.mahalanobis_distance(x)) for x in Q])
        ob.true(t + tag + ".maha.batch=singles", B.shape == (3,) and bool(np.abs(B - singles).max() <= tol * dscale))
        ob.true(t + tag + ".maha=oracle", bool(np.abs(singles - want).max() <= tol * dscale * 100))
        ob.true(t + tag + ".maha.nonneg", bool(singles.min() >= -tol * dscale))
        ob.true(t + tag + ".maha.at_mean=0", bool(abs(float(m.mahalanobis_distance(m.mean()))) <= tol * dscale))
        sq = np.asarray(m.mahalanobis_distance(Q, square_root=True), dtype=float)
        ob.true(t + tag + ".maha.sqrt", bool(np.abs(sq * sq - B).max() <= tol * dscale * 10))
    ob.true(t + "maha.sparse=dense", bool(np.abs(got["sparse"] - got["dense"]).max() <= tol * dscale * 10))
    ob.true(t + "data_untouched", bool(np.array_equal(X, X0)))


def bsr_model(F, ob, cfg):
    """the BSR model against scipy on hand-written index arrays with concrete blocks"""
    import scipy.sparse as sp

    cases = [
        ([0, 1], [0, 1, 2], 1, (2, 2)),
        ([0, 1, 0, 1], [0, 2, 4], 1, (2, 2)),
        ([1, 0, 1, 1, 2, 2, 1, 0], [0, 2, 6, 8, 8], 1, (4, 4)),       # menpo: chain 0-1-2 on 4 vertices, row 3 empty
        ([0, 0, 2, 2, 2, 0], [0, 0, 3, 6], 2, (6, 6)),                # first row empty, duplicates (summed)
        ([2, 1, 0], [0, 3, 3, 3], 2, (6, 6)),                          # unsorted columns
        ([1, 3, 3, 1], [0, 0, 2, 2, 4], 3, (12, 12)),
    ]
    for c, (ind, ptr, R, shape) in enumerate(cases):
        rs = np.random.RandomState(c)
        data = np.round(rs.uniform(-4, 4, size=(len(ind), R, R)) * 16) / 16
        real = sp.bsr_matrix((data.copy(), np.array(ind, dtype=float), np.array(ptr, dtype=float)), shape=shape, dtype=np.float64)
        BSRModel.checks = []
        mine = BSRModel((data.copy(), np.array(ind, dtype=float), np.array(ptr, dtype=float)), shape=shape, dtype=np.float64)
        v = np.round(rs.uniform(-2, 2, size=(shape[1], 3)) * 8) / 8
        ob.true("case%d.todense" % c, bool(np.array_equal(np.asarray(real.todense()), mine.todense().astype(float))))
        ob.true("case%d.dot" % c, bool(np.allclose(real.dot(v), mine.dot(v).astype(float), rtol=0, atol=1e-12)))
        ob.true("case%d.self_validation" % c, all(ok for ok, _ in BSRModel.checks) and len(BSRModel.checks) == 1)
