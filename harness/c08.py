"""C08 -- retargeting an alignment equals rebuilding it, whatever happened before."""
import numpy as np

from harness import common as K
from harness import lapack

META = {
    "explanation": "C08: for every alignment class and option combination an alignment is built from symbolic "
    "(source, target0), retargeted 1-3 times with fresh symbolic targets, optionally copied at a forked position "
    "(continuing on the copy), and compared term by term with a freshly constructed alignment (same options) to the "
    "last target: matrix / spline coefficients / triangle vectors, reported target, aligned source, and the map on a "
    "symbolic point. The rotation fit is an opaque function of its arguments (memoised arbitrary orthogonal matrix), "
    "so a lost option or stale state yields different terms and the solver supplies the points. Also: source and "
    "caller arrays untouched, the original unaffected by retargeting the copy, wrong-sized targets rejected without "
    "change. GPA: the constructor (no fixed target) with the iteration budget forced to 1-3 and the convergence test "
    "forked both ways; every returned transform must equal a fresh AlignmentSimilarity to the reported target.",
    "bounds": ["3 points (affine 4), 2-D (translation/scale/affine also 3-D)", "histories of 1-3 set_target calls, copy at any position",
               "TPS: concrete sources (5 points), both kernels, two singular-value floors", "PWA: 2 concrete triangles",
               "GPA: 2-3 shapes of 3 points, iteration budget 1-3"],
    "stubs": ["optimal_rotation_matrix -> arbitrary orthogonal matrix, a function of (source, target, allow_mirror) terms",
              "sqrt -> fresh variable with solver-decided congruence", "numpy.linalg.solve -> cofactors",
              "TPS SVD on concrete system matrix in real LAPACK"],
    "assumptions": ["floats are exact reals", "non-degenerate point sets"],
    "not_covered": ["3-D rotation/similarity", "retargeting the pseudoinverse of a 3-D AlignmentAffine (via=pinv is 2-D for that class)", "histories longer than 3 (state after set_target depends only on source and last target if the one-step obligations hold)"],
    "trusted": [],
}

GPA_SHAPES = [
    [[[0, 0], [2, 0], [0, 1]], [[1, 1], [1, 3], [0, 1]], [[0.5, 0], [3, 1], [1, 2]]],
    [[[0, 0], [1, 0], [0, 1]], [[0, 0], [0, 2], [-2, 0]], [[1, 1], [2, 2], [0, 2]]],
]
TPS_SRC = [[0, 0], [1, 0.1], [0.2, 1], [1.3, 1.2], [0.5, 0.4]]
TRI_S = [[0.0, 0.0], [2.0, 0.5], [0.5, 2.0], [2.5, 2.5]]


def instances(tier):
    out = []
    ks = [1, 2] if tier == "quick" else [1, 2, 3]
    for k in ks:
        for n in ((2,) if (tier == "quick" and k > 1) else (2, 3)):
            for cls in ("AlignmentTranslation", "AlignmentUniformScale", "AlignmentAffine"):
                out.append(("retarget", {"cls": cls, "n": n, "k": k}))
        for mirror in (False, True):
            out.append(("retarget", {"cls": "AlignmentRotation", "n": 2, "k": k, "mirror": mirror}))
            for rotation in (True, False):
                out.append(("retarget", {"cls": "AlignmentSimilarity", "n": 2, "k": k, "mirror": mirror, "rotation": rotation}))
        if k == 1:
            # alignments obtained from pseudoinverse() and then retargeted
            for cls in ("AlignmentTranslation", "AlignmentUniformScale", "AlignmentAffine"):
                # (AlignmentAffine in 3-D: the inverse of a symbolic 4x4 fit did not finish its polynomial arithmetic)
                for n in (2, 3) if cls != "AlignmentAffine" else (2,):
                    out.append(("retarget", {"cls": cls, "n": n, "k": 1, "via": "pinv"}))
            for mirror in (False, True):
                out.append(("retarget", {"cls": "AlignmentRotation", "n": 2, "k": 1, "mirror": mirror, "via": "pinv"}))
                for rotation in (True, False):
                    out.append(("retarget", {"cls": "AlignmentSimilarity", "n": 2, "k": 1, "mirror": mirror, "rotation": rotation, "via": "pinv"}))
        out.append(("retarget", {"cls": "PWA", "n": 2, "k": k}))
        for kern in ("R2LogR2RBF", "R2LogRRBF"):
            for msv in ((1e-4,) if tier == "quick" else (1e-4, 0.5)):
                out.append(("retarget", {"cls": "TPS", "n": 2, "k": k, "kernel": kern, "msv": msv}))
    for cls in ("AlignmentTranslation", "AlignmentAffine", "AlignmentSimilarity", "AlignmentRotation",
                "AlignmentUniformScale", "PWA", "TPS"):
        out.append(("reject", {"cls": cls}))
    for shapes in (2, 3):
        for mirror in (False, True):
            for budget in (1, 2) if (tier == "quick" or (shapes == 3 and mirror)) else (1, 2, 3):
                for st in ((0,) if tier == "quick" else (0, 1)):
                    out.append(("gpa", {"shapes": shapes, "mirror": mirror, "budget": budget, "set": st}))
    return out


def _n_pts(cfg):
    if cfg["cls"] == "TPS":
        return 5
    if cfg["cls"] == "PWA":
        return 4
    return 4 if cfg["cls"] == "AlignmentAffine" and cfg["n"] == 3 else 3


def _source(F, cfg):
    from menpo.shape import PointCloud, TriMesh

    n = cfg["n"]
    if cfg["cls"] == "TPS":
        return PointCloud(np.array(TPS_SRC, dtype=float))
    if cfg["cls"] == "PWA":
        return TriMesh(K.const(F, TRI_S), np.array([[0, 1, 2], [1, 3, 2]]), copy=False)
    pts = _n_pts(cfg) + (1 if cfg["cls"] == "AlignmentAffine" else 0)
    s = F.reals("s", (pts, n), -4, 4)
    S = PointCloud(s, copy=False)
    sc = s - S.centre()
    F.assume((sc * sc).sum() >= 0.05)
    if cfg["cls"] == "AlignmentAffine":
        a = S.h_points()
        nd = K.det(a.dot(a.T))
        F.assume(F.or_(nd >= 0.05, nd <= -0.05))
    return S


def _target(F, cfg, tag, npts):
    from menpo.shape import PointCloud

    t = F.reals(tag, (npts, cfg["n"]), -4, 4)
    T = PointCloud(t, copy=False)
    if cfg["cls"] in ("AlignmentSimilarity", "AlignmentUniformScale"):
        tc = t - T.centre()
        F.assume((tc * tc).sum() >= 0.05)
    return T


def _build(F, cfg, S, T):
    import menpo.transform as mt

    c = cfg["cls"]
    if c == "TPS":
        return mt.ThinPlateSplines(S, T, kernel=getattr(mt, cfg["kernel"])(S.points), min_singular_val=cfg["msv"])
    if c == "PWA":
        return mt.PiecewiseAffine(S, T)
    if c == "AlignmentRotation":
        return mt.AlignmentRotation(S, T, allow_mirror=cfg["mirror"])
    if c == "AlignmentSimilarity":
        return mt.AlignmentSimilarity(S, T, rotation=cfg["rotation"], allow_mirror=cfg["mirror"])
    return getattr(mt, c)(S, T)


def _state(al, cfg):
    """observable fitted state as a dict of arrays"""
    c = cfg["cls"]
    if c == "TPS":
        return {"coefficients": al.coefficients}
    if c == "PWA":
        return {"ti": al.ti, "tij": al.tij, "tik": al.tik}
    return {"h_matrix": al.h_matrix}


def _query(F, cfg):
    if cfg["cls"] == "PWA":
        S = K.const(F, TRI_S)
        u = F.real("qu", 0, 1)
        v = F.real("qv", 0, 1)
        F.assume(F.and_(u > 0, v > 0, u + v < 1))
        q = S[0] + (S[1] - S[0]) * u + (S[2] - S[0]) * v
        return np.array([list(q)], dtype=object if F.sym else float)
    if cfg["cls"] == "TPS":
        return np.array([[0.3, 0.7]])
    return F.reals("q", (1, cfg["n"]), -4, 4)


def retarget(F, ob, cfg):
    log = []
    if cfg["cls"] in ("AlignmentRotation", "AlignmentSimilarity"):
        lapack.install_rotation_oracle(F, log)
    S = _source(F, cfg)
    npts = S.n_points
    src_snap = K.snapshot(S.points)
    T = [_target(F, cfg, "t%d" % i, npts) for i in range(cfg["k"] + 1)]
    t_snaps = [K.snapshot(t.points) for t in T]
    al = _build(F, cfg, S, T[0])
    if cfg.get("via") == "pinv":
        # "whatever happened before": the alignment under test is the one handed out by pseudoinverse()
        # (target -> source); from here on its source is T[0], which must be non-degenerate like a source
        t0 = T[0].points
        tc = t0 - T[0].centre()
        F.assume((tc * tc).sum() >= 0.05)
        if cfg["cls"] == "AlignmentAffine":
            a = T[0].h_points()
            nd = K.det(a.dot(a.T))
            F.assume(F.or_(nd >= 0.05, nd <= -0.05))
        base = al
        base_state = {k_: K.snapshot(v) for k_, v in _state(base, cfg).items()}
        base_target = K.snapshot(base.target.points)
        al = al.pseudoinverse()
        ob.true("pinv.class", type(al).__name__ == cfg["cls"])
        ob.eq("pinv.source", al.source.points, T[0].points)
        ob.eq("pinv.target", al.target.points, S.points)
        S = T[0]
        src_snap = t_snaps[0]
    copy_at = F.choice("copy_at", [None] + list(range(1, cfg["k"] + 1)))
    original = None
    for i in range(1, cfg["k"] + 1):
        if copy_at == i:
            original = al
            orig_state = {k_: K.snapshot(v) for k_, v in _state(al, cfg).items()}
            orig_target = K.snapshot(al.target.points)
            al = al.copy()
        al.set_target(T[i])
    fresh = _build(F, cfg, S, T[-1])
    tol = 1e-9 if cfg["cls"] == "TPS" else None
    for name, v in _state(al, cfg).items():
        ob.eq("state." + name, v, _state(fresh, cfg)[name], tol=tol)
    ob.eq("target=last", al.target.points, T[-1].points)
    ob.eq("target=fresh.target", al.target.points, fresh.target.points, tol=tol)
    ob.eq("aligned_source", al.aligned_source().points, fresh.aligned_source().points, tol=tol)
    q = _query(F, cfg)
    ob.eq("map", al.apply(q), fresh.apply(q), tol=tol)
    for opt in ("allow_mirror", "rotation", "min_singular_val"):
        if hasattr(fresh, opt):
            ob.true("option." + opt, getattr(al, opt, None) == getattr(fresh, opt))
    # nothing the caller passed was altered
    K.same_terms(F, ob, "source.unchanged", src_snap, al.source.points)
    for i, t in enumerate(T):
        K.same_terms(F, ob, "passed_target%d.unchanged" % i, t_snaps[i], t.points)
    if cfg.get("via") == "pinv":
        # the alignment the pseudoinverse was taken from is a different object: retargeting one must not
        # reach the other (both directions)
        for name, v in _state(base, cfg).items():
            K.same_terms(F, ob, "pinv.base.state." + name, base_state[name], v)
        K.same_terms(F, ob, "pinv.base.target", base_target, base.target.points)
        keep = {k_: K.snapshot(v) for k_, v in _state(al, cfg).items()}
        base.set_target(T[-1])
        for name, v in _state(al, cfg).items():
            K.same_terms(F, ob, "pinv.derived.state_after_base_retarget." + name, keep[name], v)
    if original is not None:
        for name, v in _state(original, cfg).items():
            K.same_terms(F, ob, "original.state." + name, orig_state[name], v)
        K.same_terms(F, ob, "original.target_kept", orig_target, original.target.points)


def reject(F, ob, cfg):
    """a target with a different number of points or dimensions is refused and changes nothing"""
    from menpo.shape import PointCloud

    cfg = dict(cfg, n=2, k=1, mirror=False, rotation=True, kernel="R2LogR2RBF", msv=1e-4)
    log = []
    if cfg["cls"] in ("AlignmentRotation", "AlignmentSimilarity"):
        lapack.install_rotation_oracle(F, log)
    S = _source(F, cfg)
    npts = S.n_points
    T0 = _target(F, cfg, "t0", npts)
    al = _build(F, cfg, S, T0)
    before = {k_: K.snapshot(v) for k_, v in _state(al, cfg).items()}
    tgt_before = al.target
    kind = F.choice("bad", ["more_points", "fewer_points", "more_dims", "fewer_dims"])
    shape = {"more_points": (npts + 1, 2), "fewer_points": (npts - 1, 2), "more_dims": (npts, 3), "fewer_dims": (npts, 1)}[kind]
    bad = PointCloud(F.reals("bad", shape, -4, 4), copy=False)
    try:
        al.set_target(bad)
        ob.fail("rejected", "set_target accepted a target of shape %s" % (shape,))
    except ValueError:
        ob.true("rejected", True)
    for name, v in _state(al, cfg).items():
        K.same_terms(F, ob, "unchanged." + name, before[name], v)
    ob.true("target.unchanged", al.target is tgt_before)


def gpa(F, ob, cfg):
    """GPA without a fixed target: the returned transforms are the alignments of each input to the reported target"""
    import menpo.transform.groupalign.procrustes as gp
    from menpo.shape import PointCloud
    from menpo.transform import AlignmentSimilarity, GeneralizedProcrustesAnalysis

    log = []
    lapack.install_rotation_oracle(F, log, rational=True)
    if F.sym:
        # the convergence measure |target - new mean| is over-approximated by an unconstrained non-negative
        # value, so that "converged" and "not converged" are both explored at every iteration
        from symx import npproxy

        class _LA:
            def __getattr__(self, k):
                return getattr(npproxy.NP.linalg, k)

            def norm(self, a, **kw):
                from symx import core
                from symx.core import Sym

                return Sym.var(core.ctx().fresh_free_real("gpa_delta", 0, 1))

        class _NP:
            linalg = _LA()

            def __getattr__(self, k):
                return getattr(npproxy.NP, k)

        F.patch(gp, "np", _NP())
        # the mean shape of an iteration is over-approximated by an ARBITRARY point cloud (fresh coordinates):
        # whatever the new target is, every transform must be re-fitted to it.  This also stops the terms of
        # one iteration from nesting into the next.
        import menpo.shape as msh
        from symx import core
        from symx.core import Sym

        def any_mean(pcs):
            c = core.ctx()
            p = np.empty((3, 2), dtype=object)
            for i in np.ndindex(3, 2):
                p[i] = Sym.var(c.fresh_free_real("gpa_mean", -4, 4))
            pc = p - p.sum(axis=0) * (1.0 / 3)
            c.defined.append(Sym.of((pc * pc).sum() - 0.05).sign_term("ge"))
            return PointCloud(p, copy=False)

        F.patch(msh, "mean_pointcloud", any_mean)
    # shapes are exact constants from a stated list; what stays symbolic is every rotation the fit may return
    # (one free parameter per call) and the convergence measure of every iteration
    if cfg.get("set") is None:
        shapes = []
        for i in range(cfg["shapes"]):
            p = F.reals("p%d" % i, (3, 2), -4, 4)
            P = PointCloud(p, copy=False)
            pc = p - P.centre()
            F.assume((pc * pc).sum() >= 0.05)
            shapes.append(P)
        mean0 = sum([s_.points for s_ in shapes]) * (1.0 / len(shapes))
        m0 = mean0 - mean0.sum(axis=0) * (1.0 / 3)
        F.assume((m0 * m0).sum() >= 0.05)
    else:
        shapes = [PointCloud(K.const(F, GPA_SHAPES[cfg["set"]][i]), copy=False) for i in range(cfg["shapes"])]
    # iteration budget: class attribute read by _recursive_procrustes through self.max_iterations,
    # which __init__ sets to 100 -- intercept the attribute write
    budget = cfg["budget"]

    class Budgeted(GeneralizedProcrustesAnalysis):
        def __setattr__(self, k, v):
            if k == "max_iterations":
                v = budget
            object.__setattr__(self, k, v)

    g = Budgeted(shapes, allow_mirror=cfg["mirror"])
    ob.true("n_transforms", len(g.transforms) == len(shapes))
    for i, (t, s) in enumerate(zip(g.transforms, shapes)):
        fresh = AlignmentSimilarity(s, g.target, allow_mirror=cfg["mirror"])
        ob.eq("t%d.h_matrix" % i, t.h_matrix, fresh.h_matrix)
        ob.eq("t%d.target" % i, t.target.points, g.target.points)
        ob.true("t%d.source" % i, t.source is s)
        ob.eq("t%d.aligned" % i, t.aligned_source().points, fresh.aligned_source().points)
