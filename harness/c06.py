"""C06 -- copies are equal and fully independent; attached landmarks are owned copies."""
from collections import OrderedDict

import numpy as np

from harness import common as K

META = {
    "explanation": "C06: (copy independence by symbolic write taint) for every Copyable class an instance is built "
    "with symbolic payload, copied, and then EVERY buffer reachable from one side (numeric arrays, boolean masks, index "
    "arrays, sparse data/indices/indptr, containers) is overwritten -- numeric cells by adding one symbolic non-zero "
    "value, booleans by negation, integers by +1 -- and the complete reachable state of the other side must be termwise "
    "unchanged for every written value, in both directions; no two buffers of the two object graphs may share memory. "
    "Documented sharing (the point sets an alignment was fitted to, the members of a chain) is excluded by an explicit "
    "whitelist. The same through public mutators (landmark set/delete, in-place composition, n_active_components, "
    "trim_components, set_target). (landmark manager protocol, one step from an arbitrary valid state) 0-3 groups with "
    "names from a 4-name alphabet incl. a non-ASCII one, 2-D/3-D, values of different shape classes with symbolic "
    "points; one operation with forked arguments (set incl. None key / wrong dimensionality / non-PointCloud, get "
    "incl. None, delete, iterate, copy, assign-to-owner, transform owner): insertion order, single dimensionality, None "
    "resolution iff exactly one group, stored value is an independent copy, documented errors leave the state unchanged.",
    "bounds": ["shapes 4 points, images 2x3 with 1-2 channels, models 2-3 components x 4 features", "managers with 0-3 groups", "one operation per manager state (induction) plus all 2-step histories in the thorough tier"],
    "stubs": [],
    "assumptions": ["floats are exact reals", "whitelist of documented sharing: Alignment._source/_target, TransformChain members, "
                    "template instances of object-backed models"],
    "not_covered": ["C-level buffers inside scipy sparse matrices beyond data/indices/indptr", "objects not in the catalogue"],
    "trusted": ["object-graph walker in harness/c06.py"],
}

CATALOGUE = (
    [("shape", c) for c in K.SHAPES]
    + [("image", c) for c in ("Image", "MaskedImage", "BooleanImage")]
    + [("manager", "LandmarkManager")]
    + [("transform", k) for k in K.FAMILY + ["Chain", "TPS", "PWA", "WithDims"]]
    + [("model", m) for m in ("LinearVectorModel", "MeanLinearVectorModel", "PCAVectorModel", "PCAModel")]
    + [("lazylist", "LazyList")]
)
NAMES = ["a", "PTS", "z-9", "αβ"]


def instances(tier):
    out = []
    for fam, cls in CATALOGUE:
        out.append(("copy_independent", {"fam": fam, "cls": cls}))
    for cls in ("PointCloud", "TriMesh", "Image", "MaskedImage"):
        out.append(("mutator_landmarks", {"cls": cls}))
    for k in ("Affine", "Similarity", "Translation", "AlignmentAffine", "Chain"):
        out.append(("mutator_compose", {"kind": k}))
    out.append(("mutator_pca", {}))
    for n_groups in (0, 1, 2, 3):
        for op in ("set", "get", "del", "iter", "copy", "assign_owner", "transform_owner"):
            out.append(("manager_step", {"groups": n_groups, "op": op}))
    if tier != "quick":
        out.append(("manager_history", {"steps": 2}))
    return out


# ---------------------------------------------------------------- object graph walker
SHARED_BY_DESIGN = {"_source", "_target", "template_instance"}


def walk(o, path="", seen=None, skip_shared=True):
    """yield (path, leaf) for every reachable leaf: ndarray, sparse matrix part, or plain value"""
    import scipy.sparse as sp

    if seen is None:
        seen = set()
    if isinstance(o, np.ndarray):
        yield path, o
        return
    if sp.issparse(o):
        for part in ("data", "indices", "indptr"):
            if hasattr(o, part):
                yield path + "." + part, getattr(o, part)
        return
    if isinstance(o, (str, bytes, int, float, bool, type(None), np.generic)) or callable(o) and not hasattr(o, "__dict__"):
        yield path, o
        return
    if id(o) in seen:
        return
    seen.add(id(o))
    if isinstance(o, dict):
        yield path + ".keys", list(o.keys())
        for k, v in o.items():
            yield from walk(v, "%s[%r]" % (path, k), seen, skip_shared)
        return
    if isinstance(o, (list, tuple)):
        yield path + ".len", len(o)
        for i, v in enumerate(o):
            yield from walk(v, "%s[%d]" % (path, i), seen, skip_shared)
        return
    d = getattr(o, "__dict__", None)
    if d is None:
        yield path, repr(type(o))
        return
    from menpo.transform import TransformChain

    yield path + ".type", type(o).__name__
    for k in sorted(d):
        if skip_shared and k in SHARED_BY_DESIGN:
            continue
        if skip_shared and isinstance(o, TransformChain) and k == "transforms":
            yield path + ".transforms.len", len(d[k])
            continue
        yield from walk(d[k], path + "." + k, seen, skip_shared)


def state(o):
    """frozen reachable state: list of (path, snapshot)"""
    out = []
    for p, leaf in walk(o):
        if isinstance(leaf, np.ndarray):
            out.append((p, ("arr", K.snapshot(leaf), str(leaf.dtype.kind))))
        elif callable(leaf):
            out.append((p, ("callable", id(leaf))))
        else:
            out.append((p, ("val", leaf)))
    return out


def same_state(F, ob, name, o, frozen):
    live = list(walk(o))
    ob.true(name + ".paths", [p for p, _ in live] == [p for p, _ in frozen])
    if [p for p, _ in live] != [p for p, _ in frozen]:
        return
    for (p, leaf), (_, fz) in zip(live, frozen):
        if fz[0] == "arr":
            (els, shp), kind = fz[1], fz[2]
            if not isinstance(leaf, np.ndarray) or leaf.shape != shp:
                ob.fail("%s%s.shape" % (name, p))
                continue
            if kind in "biu":
                ob.true("%s%s" % (name, p), list(leaf.ravel()) == els)
            else:
                K.same_terms(F, ob, "%s%s" % (name, p), (els, shp), leaf)
        elif fz[0] == "callable":
            ob.true("%s%s" % (name, p), id(leaf) == fz[1])
        else:
            ob.true("%s%s" % (name, p), leaf == fz[1] if not isinstance(leaf, float) else leaf == fz[1])


def equal_state(F, ob, name, a, b):
    la, lb = list(walk(a)), list(walk(b))
    ob.true(name + ".paths", [p for p, _ in la] == [p for p, _ in lb])
    if [p for p, _ in la] != [p for p, _ in lb]:
        return
    for (p, x), (_, y) in zip(la, lb):
        if isinstance(x, np.ndarray):
            if x.dtype.kind in "biu":
                ob.true("%s%s" % (name, p), isinstance(y, np.ndarray) and x.shape == y.shape and bool(np.array_equal(x, y)))
            else:
                ob.eq("%s%s" % (name, p), x, y)
        elif callable(x):
            continue
        else:
            ob.true("%s%s" % (name, p), x == y)


def taint(F, o, tag):
    """overwrite every reachable buffer of `o` in place"""
    d = F.real(tag, -3, 3)
    F.assume(F.or_(d >= 0.5, d <= -0.5))
    n = 0
    for p, leaf in walk(o):
        if isinstance(leaf, np.ndarray) and leaf.size and leaf.flags.writeable:
            if leaf.dtype == bool:
                leaf[...] = ~leaf
            elif leaf.dtype.kind in "iu":
                leaf[...] = leaf + 1
            elif leaf.dtype == object:
                leaf[...] = leaf + d
            elif leaf.dtype.kind == "f":
                leaf[...] = leaf + 1.5  # concrete float buffers cannot hold a symbol
            n += 1
    return n


def identities(o):
    """identity of every reachable array buffer (copying must not swap the original's own parts: references the
    caller took earlier have to stay attached to the original)"""
    return [(p, id(l)) for p, l in walk(o) if isinstance(l, np.ndarray)]


def no_shared_memory(ob, name, a, b):
    bufs_a = [(p, l) for p, l in walk(a) if isinstance(l, np.ndarray) and l.size]
    bufs_b = [(p, l) for p, l in walk(b) if isinstance(l, np.ndarray) and l.size]
    for pa, x in bufs_a:
        for pb, y in bufs_b:
            if x is y or (x.dtype != object and y.dtype != object and np.shares_memory(x, y)):
                ob.fail("%s.shared%s|%s" % (name, pa, pb), "buffers alias")
                return
    ob.true(name + ".no_shared_buffers", True)


# ---------------------------------------------------------------- catalogue
def make(F, fam, cls, tag="o"):
    import menpo.transform as mt
    from menpo.base import LazyList
    from menpo.landmark import LandmarkManager
    from menpo.model import LinearVectorModel, MeanLinearVectorModel, PCAModel, PCAVectorModel
    from menpo.shape import PointCloud, TriMesh

    if fam == "shape":
        return K.mk_shape(F, cls, tag, 2, npts=4, landmarks=2)
    if fam == "image":
        m = (np.arange(6).reshape(2, 3) % 2) == 0
        return K.mk_image(F, cls, tag, (2, 3), 2, mask=m, landmarks=1)
    if fam == "manager":
        lm = LandmarkManager()
        lm["one"] = K.mk_shape(F, "PointCloud", tag + "1", 2, npts=3)
        lm["two"] = K.mk_shape(F, "LabelledPointUndirectedGraph", tag + "2", 2, npts=3)
        return lm
    if fam == "transform":
        if cls == "Chain":
            return mt.TransformChain([K.mk_transform(F, "Affine", tag + "0", 2), K.mk_transform(F, "Translation", tag + "1", 2)])
        if cls == "WithDims":
            return mt.WithDims(np.array([1, 0]))
        if cls == "TPS":
            src = np.array([[0, 0], [1, 0.1], [0.2, 1], [1.3, 1.2]], dtype=float)
            return mt.ThinPlateSplines(PointCloud(src), PointCloud(F.reals(tag + "t", (4, 2), -3, 3), copy=False))
        if cls == "PWA":
            src = K.const(F, [[0.0, 0.0], [2.0, 0.5], [0.5, 2.0]])
            return mt.PiecewiseAffine(TriMesh(src, np.array([[0, 1, 2]]), copy=False),
                                      PointCloud(F.reals(tag + "t", (3, 2), -3, 3), copy=False))
        return K.mk_transform(F, cls, tag, 2)
    if fam == "model":
        comps = F.reals(tag + "c", (2, 4), -1, 1)
        mean = F.reals(tag + "m", (4,), -1, 1)
        if cls == "LinearVectorModel":
            return LinearVectorModel(comps)
        if cls == "MeanLinearVectorModel":
            return MeanLinearVectorModel(comps, mean)
        ev = F.reals(tag + "e", (2,), 0.1, 4)
        if cls == "PCAVectorModel":
            return PCAVectorModel.init_from_components(comps, ev, mean, 5, True)
        tmpl = PointCloud(mean.reshape(2, 2).copy(), copy=False)
        return PCAModel.init_from_components(comps, ev, tmpl, 5, True)
    if fam == "lazylist":
        vals = F.reals(tag + "v", (3,))
        return LazyList([(lambda v=v: v) for v in vals])
    raise KeyError((fam, cls))


def copy_independent(F, ob, cfg):
    a = make(F, cfg["fam"], cfg["cls"])
    ids = identities(a)
    b = a.copy()
    ob.true("copy.original_keeps_its_buffers", identities(a) == ids)
    ob.true("type", type(b) is type(a))
    ob.true("new_object", b is not a)
    equal_state(F, ob, "equal", b, a)
    no_shared_memory(ob, "a|b", a, b)
    fa, fb = state(a), state(b)
    # write through every reachable buffer of a: b must not notice
    n = taint(F, a, "da")
    same_state(F, ob, "write_a.b_unchanged", b, fb)
    # ... and the other way round (a is now a's tainted state)
    fa2 = state(a)
    taint(F, b, "db")
    same_state(F, ob, "write_b.a_unchanged", a, fa2)
    ob.true("buffers_found", n > 0 or cfg["fam"] in ("lazylist",) or cfg["cls"] in ("WithDims", "Chain"))
    if cfg["cls"] == "Chain":
        # the member list itself is copied (members are shared by documented design)
        ob.true("chain.list_copied", b.transforms is not a.transforms and len(b.transforms) == len(a.transforms))
        a.transforms.append(a.transforms[0])
        ob.true("chain.list_independent", len(b.transforms) == 2)
    if cfg["fam"] == "lazylist":
        # list-level independence: replacing / appending callables on one side
        a._callables.append(lambda: 0)
        ob.true("lazylist.len_independent", len(b) == 3 and len(a) == 4)


def mutator_landmarks(F, ob, cfg):
    fam = "image" if "Image" in cfg["cls"] else "shape"
    a = make(F, fam, cfg["cls"])
    b = a.copy()
    fb, fa = state(b), state(a)
    new = K.mk_shape(F, "PointCloud", "new", 2, npts=3)
    b.landmarks["extra"] = new
    same_state(F, ob, "set_on_copy.original_unchanged", a, fa)
    del b.landmarks[b.landmarks.group_labels[0]]
    same_state(F, ob, "del_on_copy.original_unchanged", a, fa)
    # assigned value is stored as a copy: editing it later does not reach the stored landmarks
    stored_before = state(b.landmarks["extra"])
    new.points[...] = new.points + 1
    same_state(F, ob, "assigned_value_edit.not_visible", b.landmarks["extra"], stored_before)
    ob.true("stored_is_copy", b.landmarks["extra"] is not new)
    # the other direction: mutate the original's landmarks, the copy keeps its own
    fb2 = state(b)
    a.landmarks["more"] = K.mk_shape(F, "PointCloud", "more", 2, npts=3)
    same_state(F, ob, "set_on_original.copy_unchanged", b, fb2)


def mutator_compose(F, ob, cfg):
    a = make(F, "transform", cfg["kind"])
    b = a.copy()
    fa = state(a)
    other = K.mk_transform(F, "Translation" if cfg["kind"] == "Translation" else "Affine", "x", 2)
    b.compose_before_inplace(other)
    same_state(F, ob, "compose_before_inplace_on_copy.original_unchanged", a, fa)
    b.compose_after_inplace(other)
    same_state(F, ob, "compose_after_inplace_on_copy.original_unchanged", a, fa)
    fb = state(b)
    a.compose_before_inplace(other)
    same_state(F, ob, "compose_on_original.copy_unchanged", b, fb)


def mutator_pca(F, ob, cfg):
    a = make(F, "model", "PCAVectorModel")
    b = a.copy()
    fa = state(a)
    b.n_active_components = 1
    same_state(F, ob, "n_active_on_copy.original_unchanged", a, fa)
    b.trim_components(1)
    same_state(F, ob, "trim_on_copy.original_unchanged", a, fa)
    ob.true("copy.trimmed", b.n_components == 1 and a.n_components == 2)
    fb = state(b)
    a.n_active_components = 1
    same_state(F, ob, "n_active_on_original.copy_unchanged", b, fb)
    a.components = a._components * 2
    same_state(F, ob, "components_setter_on_original.copy_unchanged", b, fb)


# ---------------------------------------------------------------- landmark manager protocol
LM_CLASSES = ["PointCloud", "LabelledPointUndirectedGraph", "PointUndirectedGraph"]


def _manager(F, n_groups, dims):
    from menpo.landmark import LandmarkManager

    lm = LandmarkManager()
    names = []
    for i in range(n_groups):
        nm = F.choice("name%d" % i, [x for x in NAMES if x not in names])
        names.append(nm)
        lm[nm] = K.mk_shape(F, LM_CLASSES[i % 3], "g%d" % i, dims, npts=3)
    return lm, names


def _manager_invariants(F, ob, name, lm, names):
    ob.true(name + ".order", lm.group_labels == names and list(lm) == names and list(lm.keys()) == names)
    ob.true(name + ".len", len(lm) == len(names) and lm.n_groups == len(names))
    dims = set(g.n_dims for g in lm.values())
    ob.true(name + ".one_dimensionality", len(dims) <= 1)
    ob.true(name + ".n_dims", lm.n_dims == (None if not names else list(dims)[0]))
    try:
        g = lm[None]
        ob.true(name + ".none_resolves_iff_single", len(names) == 1 and g is lm[names[0]])
    except ValueError:
        ob.true(name + ".none_resolves_iff_single", len(names) != 1)
    ob.true(name + ".has_landmarks", lm.has_landmarks == (len(names) > 0))


def manager_step(F, ob, cfg):
    from menpo.image import Image
    from menpo.shape import PointCloud
    from menpo.transform import Translation

    dims = F.choice("dims", [2, 3])
    lm, names = _manager(F, cfg["groups"], dims)
    _manager_invariants(F, ob, "pre", lm, names)
    before = state(lm)
    op = cfg["op"]
    if op == "set":
        case = F.choice("case", ["new", "existing", "none_key", "wrong_dims", "not_pointcloud", "existing_wrong_dims"])
        if case in ("existing", "existing_wrong_dims") and not names:
            case = "new"
        key = {"new": [x for x in NAMES if x not in names][0] if len(names) < 4 else names[0],
               "existing": names[0] if names else None, "none_key": None,
               "wrong_dims": "w", "not_pointcloud": "q"}.get(case)
        if case == "existing_wrong_dims":
            # replacing ANY existing group (first, middle, last) by a value of the other dimensionality
            key = names[F.choice("which", list(range(len(names))))]
        vdims = dims if case not in ("wrong_dims", "existing_wrong_dims") else 5 - dims
        val = K.mk_shape(F, LM_CLASSES[F.choice("vcls", [0, 1, 2])], "v", vdims, npts=3) if case != "not_pointcloud" else np.zeros((3, dims))
        try:
            lm[key] = val
        except (ValueError, AttributeError, TypeError) as e:
            if not isinstance(e, ValueError):
                # only a value that is no shape at all may be refused with another exception type
                ob.true("set.refusal_type", case == "not_pointcloud")
            must_fail = (case in ("none_key", "not_pointcloud") or (case == "wrong_dims" and len(names) > 0)
                         or case == "existing_wrong_dims")
            ob.true("set.refused_only_when_documented", must_fail)
            same_state(F, ob, "set.refused.unchanged", lm, before)
            return
        # (replacing the ONLY group by a value of another dimensionality keeps the manager uniform: the property
        # allows accepting it; with other groups present it must be refused)
        ob.true("set.accepted_when_valid", case in ("new", "existing") or (case == "wrong_dims" and not names)
                or (case == "existing_wrong_dims" and len(names) == 1))
        exp = names if key in names else names + [key]
        _manager_invariants(F, ob, "set.post", lm, exp)
        ob.true("set.stored_is_copy", lm[key] is not val)
        equal_state(F, ob, "set.stored_equals_value", lm[key], val)
        no_shared_memory(ob, "set.stored|value", lm[key], val)
        st = state(lm[key])
        taint(F, val, "dv")
        same_state(F, ob, "set.later_edit_not_visible", lm[key], st)
        for nm in names:
            if nm != key:
                pass
    elif op == "get":
        key = F.choice("key", names + ["missing"])
        try:
            g = lm[key]
            ob.true("get.present", key in names)
        except KeyError:
            ob.true("get.missing_raises_keyerror", key not in names)
        same_state(F, ob, "get.unchanged", lm, before)
    elif op == "del":
        key = F.choice("key", names + ["missing"])
        try:
            del lm[key]
            ob.true("del.present", key in names)
            _manager_invariants(F, ob, "del.post", lm, [n for n in names if n != key])
        except KeyError:
            ob.true("del.missing_raises_keyerror", key not in names)
            same_state(F, ob, "del.refused.unchanged", lm, before)
    elif op == "iter":
        ob.true("iter.order", [k for k in lm] == names and [k for k, _ in lm.items()] == names)
        ob.true("iter.values", all(v is lm[k] for k, v in lm.items()))
        same_state(F, ob, "iter.unchanged", lm, before)
    elif op == "copy":
        ids = identities(lm)
        c = lm.copy()
        ob.true("copy.original_keeps_its_buffers", identities(lm) == ids)
        equal_state(F, ob, "copy.equal", c, lm)
        _manager_invariants(F, ob, "copy.post", c, names)
        no_shared_memory(ob, "copy", c, lm)
        fc = state(c)
        taint(F, lm, "dl")
        same_state(F, ob, "copy.independent", c, fc)
        if names:
            del c[names[0]]
            ob.true("copy.delete_independent", len(lm) == len(names))
    elif op == "assign_owner":
        owner_k = F.choice("owner", ["pointcloud", "image", "wrong_dims"])
        if owner_k == "image":
            owner = Image(np.zeros((1,) + (2,) * dims))
        else:
            od = dims if owner_k == "pointcloud" else 5 - dims
            owner = PointCloud(np.zeros((2, od)))
        ids = identities(lm)
        try:
            owner.landmarks = lm
            ob.true("assign.source_keeps_its_buffers", identities(lm) == ids)
        except ValueError:
            ob.true("assign.refused_only_on_dim_mismatch", owner_k == "wrong_dims" and len(names) > 0)
            same_state(F, ob, "assign.refused.unchanged", lm, before)
            return
        ob.true("assign.accepted", owner_k != "wrong_dims" or not names)
        ob.true("assign.is_copy", owner.landmarks is not lm)
        equal_state(F, ob, "assign.equal", owner.landmarks, lm)
        no_shared_memory(ob, "assign", owner.landmarks, lm)
        fo = state(owner.landmarks)
        taint(F, lm, "dl")
        same_state(F, ob, "assign.later_edit_not_visible", owner.landmarks, fo)
    elif op == "transform_owner":
        owner = PointCloud(F.reals("op", (2, dims)), copy=False)
        owner.landmarks = lm
        fo = state(owner)
        ids = identities(owner)
        tr = F.reals("tr", (dims,))
        moved = Translation(tr).apply(owner)
        ob.true("transform.owner_keeps_its_buffers", identities(owner) == ids)
        same_state(F, ob, "transform.owner_unchanged", owner, fo)
        same_state(F, ob, "transform.manager_unchanged", lm, before)
        _manager_invariants(F, ob, "transform.post", moved.landmarks, names)
        for nm in names:
            ob.eq("transform.moved[%s]" % nm, moved.landmarks[nm].points, lm[nm].points + tr)
        no_shared_memory(ob, "transform", moved, owner)


def manager_history(F, ob, cfg):
    """bounded cross-check of the induction: every history of 2 operations on a 2-D manager"""
    from menpo.landmark import LandmarkManager
    from menpo.shape import PointCloud

    lm = LandmarkManager()
    names = []
    for step in range(cfg["steps"] + 1):
        op = F.choice("op%d" % step, ["set", "del", "copy"])
        if op == "set":
            key = F.choice("k%d" % step, NAMES[:3])
            lm[key] = PointCloud(F.reals("h%d" % step, (2, 2)), copy=False)
            if key not in names:
                names.append(key)
        elif op == "del" and names:
            key = F.choice("k%d" % step, list(names))
            del lm[key]
            names.remove(key)
        elif op == "copy":
            lm = lm.copy()
        _manager_invariants(F, ob, "step%d" % step, lm, names)
