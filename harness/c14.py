"""C14 -- graphs, trees and their queries agree with the edges they were built from.

Degenerate use of the technique (see DESIGN.md, C14): there is no numeric input, only structure.  Every potential
edge e_ij of K_V is a symbolic boolean; the harness forks on each of them, so every solver path is exactly one
graph, and the real menpo objects (scipy.sparse inside) are built per path.  What menpo answers on that path is
compared with ORACLE FORMULAS over the e_ij (finite disjunctions over the simple cycles / simple paths / spanning
trees of K_V, reachability closures, pseudo-boolean edge counts) which z3 evaluates under the path condition.
`exhaustive = true` therefore means: all 2^|E| edge assignments (times masks, roots, start/end pairs) were explored;
the solver contributes completeness of the case split and the evaluation of the oracle formulas, not generalisation
over values.  One harness (`oracle_consistency`) leaves the edges un-forked and lets z3 prove that independent
formulations of the oracles agree on all graphs at once.

Obligation layout: per path the many per-vertex / per-pair items of one object are discharged as ONE conjunction
(one solver query); the concrete replay splits the conjunction into families ("abstract.edges", "masked.neighbours",
...) and names the failing items.  Checks that a recorded menpo finding may touch are kept in obligations (and
instances, cfg "part") of their own so that a known finding can never mask a new one.
"""
import itertools

import numpy as np
import z3

from harness import common as K
from symx.core import SymB

META = {
    "explanation": "C14: the potential edges e_ij of K_V are symbolic booleans and the harness forks on each, so every "
    "solver path is one graph (undirected V<=5: 10 booleans, directed V<=4: 12 booleans, optionally self-loops, plus a "
    "symbolic vertex mask; every root and every start/end pair is looped over inside the path). The real "
    "UndirectedGraph/DirectedGraph/Tree and their Point* variants are built on each path with real scipy.sparse and "
    "every answer is compared with a z3 formula over the e_ij that the solver evaluates under the path condition: "
    "adjacency pattern and symmetry, edges (each once, canonical), n_edges (pseudo-boolean count), is_edge, "
    "neighbours/children/parents and their counts, isolated vertices, adjacency lists, rejection of out-of-range "
    "vertices, _has_cycles in both modes (disjunction over the simple cycles of K_V; called directly on adjacency "
    "lists in both neighbour orders and through the objects), is_tree (acyclic and |E|=V-1; for directed graphs also "
    "the textbook polytree test), from_mask (induced subgraph, order-preserving renumbering, symbolic point "
    "coordinates carried termwise, result independent of and original untouched; PointTree: exactly what stays "
    "connected to the root, root renumbered), Tree/PointTree acceptance (accepted iff the edges form an arborescence "
    "from the given root) and the mutual consistency of parent/parents/children/depth/maximum_depth/"
    "vertices_at_depth/is_leaf/leaves for every arborescence on V<=5 vertices and every root, find_all_paths/n_paths "
    "(exactly the present simple paths of K_V), find_path bfs/dfs (wellformed present route, empty only if "
    "unreachable, bfs with fewest hops), find_shortest_path on unit weights and on concrete distinct integer weights "
    "(route present and of minimal weight among the present simple paths; reported cost = weight of the route) and "
    "minimum_spanning_tree (a present spanning tree of K_V of minimal total weight, weights kept, oriented away "
    "from the requested root, consistent as a Tree; refused iff no spanning tree exists), and the "
    "empty/star/complete/chain generators of graph_predefined for every class they accept. exhaustive=true means that "
    "all 2^E edge assignments within the bounds were explored: the solver's contribution is the completeness of the "
    "case split and the evaluation of the formula oracles, not generalisation over values; `oracle_consistency` "
    "additionally proves on un-forked edges (all graphs in one query) that the cycle / tree / connectivity / "
    "arborescence / simple-path oracles agree with independent formulations.",
    "bounds": ["undirected graphs: every graph on V<=5 vertices", "directed graphs: every graph on V<=4 vertices",
               "self-loops: directed V=3 (9 booleans), undirected V=3 (thorough: undirected V=4)",
               "symbolic vertex mask: undirected V=4, directed V=3 (thorough: every proper concrete mask at undirected V=5 and directed V=4)",
               "trees: every arborescence on 4 and 5 vertices with every root; every mask at V=4 (thorough: V=5); "
               "acceptance over all 2^E edge sets for V<=3 and V=4 root 3 (thorough: every root, PointTree too)",
               "paths: all start/end pairs, undirected V=4, directed V=3 (thorough: undirected V=5, directed V=4)",
               "weights: two concrete weightings with distinct positive integers, edge presence symbolic, undirected V=4 and "
               "directed V=3 (thorough: V=5 / V=4)",
               "point coordinates: symbolic reals in [-8,8] (2-D) in the masking harnesses and selected query instances, exact constants elsewhere",
               "large instances are split over processes by fixing the first two potential edges per instance (cfg fix); their union is every graph"],
    "stubs": [],
    "assumptions": ["menpo can represent neither a graph without vertices nor a one-vertex tree: from_mask must raise "
                    "ValueError exactly when nothing (tree: nothing but the root) survives",
                    "a path from a vertex to itself is the trivial path [v] of cost 0 (textbook convention; cfg part=self)",
                    "a directed graph is a tree iff its underlying undirected graph is one (polytree: the weakest textbook reading)",
                    "a graph without a spanning tree (disconnected) must be refused by minimum_spanning_tree"],
    "not_covered": ["graphs beyond the vertex bounds; random graphs on ~40 vertices (no symbolic content: that is testing)",
                    "symbolic (real-valued) edge weights: scipy.sparse.csgraph runs on concrete numbers only",
                    "csgraph algorithm choices other than the default 'auto' (and unweighted=True); find_all_shortest_paths matrices as such",
                    "stencil_grid/delaunay_graph/init_2d_grid/init_from_depth_image/relative_locations (one concrete structure each / C17)",
                    "landmarks attached to point graphs under from_mask; LabelledPointUndirectedGraph (C15)",
                    "menpo/shape/adjacency.py (mask_adjacency_array/reindex_adjacency_array serve TriMesh.from_mask: C17)"],
    "trusted": ["oracle formulas in harness/c14.py (cycle / simple-path / spanning-tree enumerations of K_V; cross-checked by oracle_consistency)",
                "scipy.sparse / csgraph as executed (not modelled)"],
}


# ====================================================================== instances
def _split(func, cfg, bits, lim=None):
    """the same instance split over 2^bits processes by fixing the first `bits` potential edges (cfg "fix")"""
    out = []
    for m in range(2 ** bits):
        c = dict(cfg, fix=format(m, "0%db" % bits)) if bits else dict(cfg)
        out.append((func, c, lim) if lim else (func, c))
    return out


def _selftest_instances():
    """mutated menpo (see _mutants): every one of these must be reported as a VIOLATION.  Only reachable with
    C14_SELFTEST=1 in the environment; never part of a normal run."""
    return [("cycles_direct", {"V": 5, "directed": False, "order": "asc", "selftest_mutant": "cycles"}),
            ("tree_test", {"V": 3, "directed": False, "selftest_mutant": "cycles3"}),
            ("mask", {"V": 3, "directed": True, "selftest_mutant": "mask"}),
            ("mask", {"V": 4, "directed": False, "selftest_mutant": "maskpoints"}),
            ("graph_queries", {"V": 3, "directed": True, "selftest_mutant": "isolated"}),
            ("graph_queries", {"V": 3, "directed": False, "selftest_mutant": "sym"}),
            ("tree_relations", {"V": 5, "root": 1, "selftest_mutant": "depth"}),
            ("tree_mask", {"V": 4, "root": 2, "selftest_mutant": "root"}),
            ("paths", {"V": 4, "directed": False, "part": "clean", "selftest_mutant": "allpaths"}),
            ("paths", {"V": 4, "directed": False, "part": "clean", "selftest_mutant": "bfs"}),
            ("weighted", {"V": 4, "directed": False, "wseed": 1, "part": "mst", "selftest_mutant": "mst"}),
            ("weighted", {"V": 4, "directed": False, "wseed": 1, "part": "route", "selftest_mutant": "unweighted"})]


def instances(tier):
    import os

    if os.environ.get("C14_SELFTEST"):
        return _selftest_instances()
    q = tier == "quick"
    out = []
    big = {"max_paths": 70000, "max_s": 3000}
    for V in (2, 3, 4, 5):
        out.append(("oracle_consistency", {"V": V, "directed": False}))
        if V <= 4:
            out.append(("oracle_consistency", {"V": V, "directed": True}))
    # ---- the home-grown cycle detector, called directly on adjacency lists built per path
    for order in ("asc", "desc"):
        out.append(("cycles_direct", {"V": 5, "directed": False, "order": order}))
        out += _split("cycles_direct", {"V": 4, "directed": True, "order": order}, 2)
        if order == "asc" or not q:
            out.append(("cycles_direct", {"V": 3, "directed": True, "loops": True, "order": order}))
    if not q:
        out.append(("cycles_direct", {"V": 4, "directed": False, "loops": True, "order": "asc"}))
    # ---- cycle and tree tests of the real objects at the full bounds (textbook tree test of directed graphs)
    out.append(("tree_test", {"V": 4, "directed": True}, big))
    # ---- all queries on the real objects
    out.append(("graph_queries", {"V": 5, "directed": False, "variant": "abstract"}))
    out += _split("graph_queries", {"V": 4, "directed": True, "variant": "abstract", "textbook": False}, 2)
    out.append(("graph_queries", {"V": 3, "directed": False}))
    out.append(("graph_queries", {"V": 3, "directed": True}))
    out.append(("graph_queries", {"V": 3, "directed": True, "loops": True}))
    out.append(("graph_queries", {"V": 3, "directed": False, "loops": True}))
    out.append(("graph_queries", {"V": 4, "directed": False, "orient": "rev", "points": "sym"}))
    out.append(("graph_queries", {"V": 4, "directed": False, "orient": "both", "via": "dense"}))
    out.append(("graph_queries", {"V": 3, "directed": True, "orient": "dup", "via": "csr"}))
    if not q:
        for V in (1, 2):
            out.append(("graph_queries", {"V": V, "directed": False}))
            out.append(("graph_queries", {"V": V, "directed": True}))
        out.append(("graph_queries", {"V": 5, "directed": False, "orient": "mixed", "points": "sym"}))
        out.append(("graph_queries", {"V": 5, "directed": False, "orient": "dup", "via": "csr"}))
        out += _split("graph_queries", {"V": 4, "directed": True, "orient": "rev", "via": "dense", "points": "sym",
                                        "textbook": False}, 2)
        out.append(("graph_queries", {"V": 4, "directed": False, "loops": True}))
    # ---- masking
    out.append(("mask", {"V": 4, "directed": False}))
    out.append(("mask", {"V": 3, "directed": True}))
    if not q:
        out.append(("mask", {"V": 3, "directed": False, "loops": True}))
        for m in range(1, 2 ** 5 - 1):
            out.append(("mask", {"V": 5, "directed": False, "mask": [bool(m >> i & 1) for i in range(5)]}))
        for m in range(1, 2 ** 4 - 1):
            out.append(("mask", {"V": 4, "directed": True, "mask": [bool(m >> i & 1) for i in range(4)]}, big))
    # ---- trees
    for r in range(2):
        out.append(("tree_accept", {"V": 2, "root": r, "point": bool(r)}))
    for r in range(3):
        out.append(("tree_accept", {"V": 3, "root": r, "point": r == 1}))
    for r in ((3,) if q else range(4)):
        for pt in ((False,) if q else (False, True)):
            out.append(("tree_accept", {"V": 4, "root": r, "point": pt}, big))
    for V in (4, 5):
        for r in range(V):
            out.append(("tree_relations", {"V": V, "root": r}))
    if not q:
        out.append(("tree_relations", {"V": 5, "root": 2, "orient": "rev"}))
    for r in range(4):
        out.append(("tree_mask", {"V": 4, "root": r}))
    if not q:
        for r in range(5):
            out.append(("tree_mask", {"V": 5, "root": r}, big))
    # ---- paths (part: clean = enumeration and routes; cost = reported cost; self = start == end conventions)
    out.append(("paths", {"V": 4, "directed": False, "part": "clean"}))
    out.append(("paths", {"V": 3, "directed": True, "part": "clean"}))
    out.append(("paths", {"V": 3, "directed": True, "loops": True, "part": "clean"}))
    out.append(("paths", {"V": 4, "directed": False, "part": "cost"}))
    out.append(("paths", {"V": 3, "directed": True, "part": "self"}))
    if not q:
        out.append(("paths", {"V": 3, "directed": True, "part": "cost"}))
        out.append(("paths", {"V": 4, "directed": False, "part": "self"}))
        for part in ("clean", "cost", "self"):
            out.append(("paths", {"V": 5, "directed": False, "part": part}))
            out += _split("paths", {"V": 4, "directed": True, "part": part}, 2 if part == "clean" else 0, big)
    # ---- concrete weights, symbolic presence (part: route / cost / mst)
    for ws in (0, 1):
        out.append(("weighted", {"V": 4, "directed": False, "wseed": ws, "part": "route"}))
        out.append(("weighted", {"V": 3, "directed": True, "wseed": ws, "part": "route"}))
        out.append(("weighted", {"V": 4, "directed": False, "wseed": ws, "part": "mst"}))
        # the same with a float64 adjacency matrix (real-valued weights)
        out.append(("weighted", {"V": 4, "directed": False, "wseed": ws, "part": "mst", "wdtype": "float"}))
        out.append(("weighted", {"V": 3, "directed": True, "wseed": ws, "part": "route", "wdtype": "float"}))
        if ws == 1 or not q:
            out.append(("weighted", {"V": 4, "directed": False, "wseed": ws, "part": "cost"}))
        if not q:
            out.append(("weighted", {"V": 3, "directed": True, "wseed": ws, "part": "cost"}))
            for part in ("route", "cost", "mst"):
                out.append(("weighted", {"V": 5, "directed": False, "wseed": ws, "part": part}))
            out += _split("weighted", {"V": 4, "directed": True, "wseed": ws, "part": "route"}, 2)
            out.append(("weighted", {"V": 4, "directed": True, "wseed": ws, "part": "cost"}, big))
    out.append(("predefined", {}))
    return out


# ====================================================================== symbolic edges
def _keys(V, directed, loops=False):
    ks = []
    for i in range(V):
        for j in range(V):
            if i == j and not loops:
                continue
            if not directed and j < i:
                continue
            ks.append((i, j))
    return ks


class Edges:
    """the symbolic edge relation on vertices 0..V-1: S[(i,j)] is a SymB (python bool in replay); after fork()
    P[(i,j)] is its value on this path.  Calling it gives the formula "is (a,b) an edge"."""

    def __init__(self, F, V, directed, loops=False, fix=""):
        self.F, self.V, self.n, self.directed, self.loops = F, V, V, directed, loops
        self.keys = _keys(V, directed, loops)
        # cfg "fix": the first len(fix) potential edges are set by the instance ("1" present, "0" absent) instead of
        # being forked -- splits the 2^E graphs over several instances (processes); their union is every graph
        self.fixed = dict((k, ch == "1") for k, ch in zip(self.keys, fix or ""))
        self.S = dict((k, self.fixed[k] if k in self.fixed else F.symbool("e_%d_%d" % k)) for k in self.keys)
        self.P = None
        self.key = (V, directed, loops, fix or "", tuple(range(V)))

    def fork(self):
        self.P = dict((k, bool(self.S[k])) for k in self.keys)  # one fork per potential edge
        return self

    def __call__(self, i, j):
        if not self.directed and j < i:
            i, j = j, i
        return self.S.get((i, j), False)

    def present(self):
        return [k for k in self.keys if self.P[k]]


class View:
    """the edge relation seen through an order-preserving renumbering: View(E, kept)(a, b) = E(kept[a], kept[b])"""

    def __init__(self, E, kept):
        self.E, self.kept, self.n = E, tuple(kept), len(kept)
        self.key = E.key[:-1] + (self.kept,)

    def __call__(self, a, b):
        return self.E(self.kept[a], self.kept[b])


class Fixed:
    """a concrete edge set as an edge relation (no formulas involved)"""
    key = None

    def __init__(self, edges, n, symmetric=False):
        self.n = n
        self.set = set(edges) | (set((b, a) for (a, b) in edges) if symmetric else set())

    def __call__(self, a, b):
        return (a, b) in self.set


def _edge_list(E, orient="fwd"):
    """the path's edge list; undirected edges may be listed in either orientation, in both, twice, reordered"""
    pres = E.present()
    if orient == "rev" and not E.directed:
        el = [(j, i) for (i, j) in pres]
    elif orient == "mixed" and not E.directed:
        el = [((j, i) if (i + j) % 2 else (i, j)) for (i, j) in pres][::-1]
    elif orient == "both" and not E.directed:
        el = pres + [(j, i) for (i, j) in pres if i != j]
    elif orient == "dup":
        el = pres + pres
    elif orient in ("mixed", "rev"):
        el = pres[::-1]
    else:
        el = pres
    return np.array(el, dtype=int).reshape(-1, 2)


def _dense(E, weights=None):
    A = np.zeros((E.V, E.V), dtype=int)
    for (i, j) in E.present():
        w = 1 if weights is None else weights[(i, j)]
        A[i, j] = w
        if not E.directed:
            A[j, i] = w
    return A


# ====================================================================== oracle formulas (work on SymB and on bool)
_FC = {}   # formulas do not depend on the path: built once per process (symbolic mode only)
_NEG = {}


def _memo(F, Ef, tag, build):
    key = getattr(Ef, "key", None)
    if not F.sym or key is None:
        return build()
    k = (tag, key)
    if k not in _FC:
        _FC[k] = build()
    return _FC[k]


def _not(F, f):
    if isinstance(f, SymB):
        i = f.t.get_id()
        r = _NEG.get(i)
        if r is None:
            r = _NEG[i] = (f, SymB(z3.Not(f.t)))
        return r[1]
    return not f


def _iff(F, f, c):
    """formula f has the concrete truth value c"""
    return f if c else _not(F, f)


def f_count_eq(F, fs, k):
    """exactly k of the formulas hold (pseudo-boolean constraint; plain count in replay)"""
    syms = [f.t for f in fs if isinstance(f, SymB)]
    base = sum(1 for f in fs if not isinstance(f, SymB) and f)
    if not syms:
        return base == k
    if k - base < 0:
        return False
    return SymB(z3.PbEq([(t, 1) for t in syms], k - base))


def f_n_edges(F, Ef, keys, k):
    return _memo(F, Ef, ("cnt", len(keys), k), lambda: f_count_eq(F, [Ef(a, b) for (a, b) in keys], k))


_CYC = {}


def _cycles(n, directed, loops):
    """the simple cycles of K_n (as edge lists); a self-loop is a cycle of length one"""
    key = (n, directed, loops)
    if key not in _CYC:
        out = [[(v, v)] for v in range(n)] if loops else []
        for k in range(2 if directed else 3, n + 1):
            for sub in itertools.combinations(range(n), k):
                for perm in itertools.permutations(sub[1:]):
                    if not directed and perm[0] > perm[-1]:
                        continue
                    cyc = (sub[0],) + perm
                    out.append([(cyc[i], cyc[(i + 1) % k]) for i in range(k)])
        _CYC[key] = out
    return _CYC[key]


def f_has_cycle(F, Ef, n, directed, loops=False):
    return _memo(F, Ef, ("cyc", directed, loops), lambda: F.or_(*[
        F.and_(*[Ef(a, b) for (a, b) in cyc]) for cyc in _cycles(n, directed, loops)]))


_SP = {}


def _simple_paths(n, s, t):
    """all simple paths s -> t in K_n as vertex tuples, fewest hops first"""
    if (n, s, t) not in _SP:
        if s == t:
            out = [(s,)]
        else:
            rest = [v for v in range(n) if v not in (s, t)]
            out = []
            for k in range(0, len(rest) + 1):
                for mid in itertools.permutations(rest, k):
                    out.append((s,) + mid + (t,))
        _SP[(n, s, t)] = out
    return _SP[(n, s, t)]


def f_path(F, Ef, p):
    p = tuple(p)
    return _memo(F, Ef, ("path", p), lambda: F.and_(*[Ef(p[i], p[i + 1]) for i in range(len(p) - 1)]))


def f_some_path(F, Ef, n, s, t, pred=None, tag=None):
    """some simple path s -> t (satisfying pred) is present"""
    def build():
        return F.or_(*[f_path(F, Ef, p) for p in _simple_paths(n, s, t) if pred is None or pred(p)])
    return _memo(F, Ef, ("somepath", s, t, tag), build) if (pred is None or tag is not None) else build()


def f_reach(F, Ef, n, src, allowed=None):
    """R[v]: v is reachable from src along edges (closure by n-1 rounds); `allowed` restricts the vertices"""
    def ok(v):
        return True if allowed is None else allowed[v]

    def build():
        R = [(v == src) and ok(v) for v in range(n)]
        for _ in range(max(0, n - 1)):
            R = [F.or_(R[v], F.and_(ok(v), F.or_(*[F.and_(R[u], Ef(u, v)) for u in range(n) if u != v]))) for v in range(n)]
        return R
    return _memo(F, Ef, ("reach", src, None if allowed is None else tuple(allowed)), build)


class _Und:
    """Ef made symmetric"""

    def __init__(self, F, Ef):
        self.F, self.Ef, self.n = F, Ef, Ef.n
        k = getattr(Ef, "key", None)
        self.key = None if k is None else ("und",) + k

    def __call__(self, a, b):
        return self.F.or_(self.Ef(a, b), self.Ef(b, a))


def f_connected(F, Ef, n):
    """everything is reachable from vertex 0 (weak connectivity if Ef was made symmetric)"""
    return _memo(F, Ef, ("conn",), lambda: F.and_(*f_reach(F, Ef, n, 0)))


def f_is_tree_code(F, Ef, n, directed, loops, keys):
    """the design's oracle: acyclic and |E| = V-1"""
    return _memo(F, Ef, ("treecode", directed, loops), lambda: F.and_(
        _not(F, f_has_cycle(F, Ef, n, directed, loops)), f_n_edges(F, Ef, keys, n - 1)))


def f_is_polytree(F, Ef, n, keys):
    """textbook test for a directed graph: the underlying undirected graph is a tree, i.e. connected with n-1
    directed edges (which leaves no room for antiparallel pairs or loops)"""
    return _memo(F, Ef, ("polytree",), lambda: F.and_(f_connected(F, _Und(F, Ef), n), f_n_edges(F, Ef, keys, n - 1)))


def f_arborescence(F, Ef, n, root, keys):
    """every vertex but the root has exactly one parent, the root has none, everything is reachable from the root"""
    def build():
        cs = []
        for v in range(n):
            inc = [Ef(u, v) for u in range(n) if (u, v) in keys]
            cs.append(f_count_eq(F, inc, 0 if v == root else 1))
        return F.and_(F.and_(*cs), F.and_(*f_reach(F, Ef, n, root)))
    return _memo(F, Ef, ("arb", root), build)


def f_depths(F, Ef, n, root):
    """D[d][v]: v is at depth d below the root"""
    def build():
        D = [[v == root for v in range(n)]]
        for d in range(1, n):
            D.append([F.or_(*[F.and_(D[d - 1][u], Ef(u, v)) for u in range(n) if u != v]) for v in range(n)])
        return D
    return _memo(F, Ef, ("depths", root), build)


def f_isolated(F, Ef, n, a):
    return _memo(F, Ef, ("iso", a), lambda: _not(F, F.or_(*[F.or_(Ef(a, b), Ef(b, a)) for b in range(n)])))


def f_leaf(F, Ef, n, a):
    return _memo(F, Ef, ("leaf", a), lambda: _not(F, F.or_(*[Ef(a, w) for w in range(n)])))


_ST = {}


def _spanning_trees(n):
    """the spanning trees of K_n as sorted tuples of (small, large) edges (Cayley: n^(n-2) of them)"""
    if n not in _ST:
        pairs = [(a, b) for a in range(n) for b in range(a + 1, n)]
        out = []
        for sub in itertools.combinations(pairs, n - 1):
            comp = list(range(n))

            def find(x):
                while comp[x] != x:
                    x = comp[x]
                return x

            ok = True
            for (a, b) in sub:
                ra, rb = find(a), find(b)
                if ra == rb:
                    ok = False
                    break
                comp[ra] = rb
            if ok:
                out.append(sub)
        _ST[n] = out
    return _ST[n]


def f_some_spanning_tree(F, Ef, n, pred=None, tag=None):
    def build():
        return F.or_(*[F.and_(*[Ef(a, b) for (a, b) in T]) for T in _spanning_trees(n) if pred is None or pred(T)])
    return _memo(F, Ef, ("somest", tag), build) if (pred is None or tag is not None) else build()


# ====================================================================== obligation bundling
class Checks:
    """items (family, label, condition).  Symbolic mode: ONE obligation, the conjunction of all items (one solver
    query per path).  Replay: one obligation per family plus one failing entry per bad item, so that a violation
    names the query and the vertex/pair that is wrong."""

    def __init__(self, F, ob, name):
        self.F, self.ob, self.name, self.items = F, ob, name, []

    def add(self, fam, label, cond):
        self.items.append((fam, label, cond))

    def iff(self, fam, label, formula, concrete):
        self.items.append((fam, label, _iff(self.F, formula, bool(concrete))))

    def flush(self):
        F, ob = self.F, self.ob
        if not self.items:
            return
        if F.sym:
            ok, terms = True, []
            for _, _, c in self.items:
                if isinstance(c, SymB):
                    terms.append(c.t)
                elif not c:
                    ok = False
            if not ok:
                ob.true(self.name, False)
            elif not terms:
                ob.true(self.name, True)
            else:
                ob.true(self.name, SymB(_fast_and(terms)))
        else:
            fams = []
            for f, _, _ in self.items:
                if f not in fams:
                    fams.append(f)
            for f in fams:
                bad = [l for (ff, l, c) in self.items if ff == f and not bool(c)]
                nm = self.name if f is None else "%s.%s" % (self.name, f)
                ob.true(nm, not bad)
                for l in bad[:3]:
                    ob.fail("%s/%s" % (nm, l), "this item is wrong")
        self.items = []


def _fast_and(terms):
    """z3.And without the per-argument coercion of the python API; duplicates dropped"""
    seen, asts = set(), []
    for t in terms:
        i = t.get_id()
        if i not in seen:
            seen.add(i)
            asts.append(t.as_ast())
    if len(asts) == 1:
        return terms[0]
    ctx = terms[0].ctx
    return z3.BoolRef(z3.Z3_mk_and(ctx.ref(), len(asts), (z3.Ast * len(asts))(*asts)), ctx)


def _raises(fn, exc=ValueError):
    try:
        fn()
    except exc:
        return True
    return False


def _ints(xs):
    return [int(x) for x in xs]


def _nodup(xs):
    xs = list(xs)
    return len(set(xs)) == len(xs)


# ====================================================================== the relation checks on one object
def _answers(g, n, directed):
    """every structural answer of `g`, normalised to plain python"""
    a = {"n_vertices": int(g.n_vertices), "vertices": _ints(g.vertices)}
    A = np.asarray(g.adjacency_matrix.todense())
    a["A"] = A
    if a["n_vertices"] != n or A.shape != (n, n):
        return a
    ed = np.asarray(g.edges)
    a["edges.shape"] = bool(ed.ndim == 2 and ed.shape[1] == 2)
    a["edges"] = [tuple(_ints(r)) for r in ed]
    a["n_edges"] = int(g.n_edges)
    a["is_edge"] = [[bool(g.is_edge(x, y)) for y in range(n)] for x in range(n)]
    rel = [("children", g.children, g.n_children), ("parents", g.parents, g.n_parents)] if directed else \
          [("neighbours", g.neighbours, g.n_neighbours)]
    oor = [_raises(lambda: g.is_edge(-1, 0)), _raises(lambda: g.is_edge(0, n))]
    for (rn, fn, cnt) in rel:
        a[rn] = [_ints(fn(x)) for x in range(n)]
        a["n_" + rn] = [int(cnt(x)) for x in range(n)]
        oor += [_raises(lambda: fn(n)), _raises(lambda: fn(-1)), _raises(lambda: cnt(n))]
    a["out_of_range_rejected"] = all(oor)
    a["isolated"] = _ints(g.isolated_vertices())
    a["has_isolated"] = bool(g.has_isolated_vertices())
    a["adjacency_list"] = [_ints(l) for l in g.get_adjacency_list()]
    a["has_cycles"] = bool(g.has_cycles())
    a["is_tree"] = bool(g.is_tree())
    str(g)
    return a


def _same_answers(a, b):
    if set(a) != set(b):
        return False
    return all((np.array_equal(a[k], b[k]) if k == "A" else a[k] == b[k]) for k in a)


def _check_answers(F, c, sus, a, Ef, n, directed, loops=False):
    """the answers `a` of one graph against the edge formula Ef(x, y) on vertices 0..n-1; items go to the Checks
    `c`, the textbook tree test of directed graphs to `sus` (if given)"""
    keys = _keys(n, directed, loops)
    c.add("n_vertices", "n", a["n_vertices"] == n and a["vertices"] == list(range(n)))
    A = a["A"]
    c.add("adjacency", "shape", A.shape == (n, n))
    if "edges" not in a:
        return
    for x in range(n):
        for y in range(n):
            c.iff("adjacency", "%d,%d" % (x, y), Ef(x, y), A[x, y] != 0)
            if not directed and y > x:
                c.add("adjacency", "symmetric%d,%d" % (x, y), bool(A[x, y] == A[y, x]))
    # edges: each present edge exactly once (undirected: as (small, large))
    rows = a["edges"]
    c.add("edges", "shape", a["edges.shape"])
    c.add("edges", "each_once", _nodup(rows))
    c.add("edges", "canonical", all(r in keys for r in rows))
    for k in keys:
        c.iff("edges", "%d,%d" % k, Ef(*k), k in rows)
    c.add("edges", "n_edges=len", a["n_edges"] == len(rows))
    c.add("edges", "n_edges=count", f_n_edges(F, Ef, keys, a["n_edges"]))
    for x in range(n):
        for y in range(n):
            c.iff("is_edge", "%d,%d" % (x, y), Ef(x, y), a["is_edge"][x][y])
    rel = [("children", lambda x, y: Ef(x, y)), ("parents", lambda x, y: Ef(y, x))] if directed else \
          [("neighbours", lambda x, y: Ef(x, y))]
    for (rn, form) in rel:
        for x in range(n):
            lst = a[rn][x]
            c.add(rn, "%d.nodup" % x, _nodup(lst))
            c.add(rn, "%d.range" % x, all(0 <= y < n for y in lst))
            c.add(rn, "%d.count" % x, a["n_" + rn][x] == len(lst))
            for y in range(n):
                c.iff(rn, "%d,%d" % (x, y), form(x, y), y in lst)
    c.add("out_of_range", "rejected", a["out_of_range_rejected"])
    iso = a["isolated"]
    c.add("isolated", "nodup", _nodup(iso))
    for x in range(n):
        c.iff("isolated", "%d" % x, f_isolated(F, Ef, n, x), x in iso)
    c.add("isolated", "has", a["has_isolated"] == (len(iso) > 0))
    al = a["adjacency_list"]
    c.add("adjacency_list", "len", len(al) == n)
    if len(al) == n:
        for x in range(n):
            c.add("adjacency_list", "%d.nodup" % x, _nodup(al[x]))
            c.add("adjacency_list", "%d.same_as_query" % x, sorted(al[x]) == sorted(a["children" if directed else "neighbours"][x]))
            for y in range(n):
                c.iff("adjacency_list", "%d,%d" % (x, y), Ef(x, y), y in al[x])
    c.iff("has_cycles", "formula", f_has_cycle(F, Ef, n, directed, loops), a["has_cycles"])
    # undirected: acyclic and |E| = V-1 (which implies connected); directed: the underlying graph must be a tree
    # as well (polytree) -- "no directed cycle and V-1 edges" alone admits disconnected non-trees
    c.iff("is_tree", "tree", (f_is_polytree(F, Ef, n, keys) if directed else f_is_tree_code(F, Ef, n, directed, loops, keys)), a["is_tree"])
    if directed and sus is not None:
        sus.iff(None, "polytree", f_is_polytree(F, Ef, n, keys), a["is_tree"])


def _check_graph(F, ob, name, g, Ef, n, directed, loops=False, textbook=None):
    c = Checks(F, ob, name)
    _check_answers(F, c, textbook, _answers(g, n, directed), Ef, n, directed, loops)
    c.flush()


def _check_tree(F, c, t, Ef, n, root):
    """parent / depth / leaf / children relations of tree `t` against Ef and against each other"""
    c.add("root", "root_vertex", int(t.root_vertex) == root)
    D = f_depths(F, Ef, n, root)
    par = [t.parent(v) for v in range(n)]
    c.add("parent", "root_has_none", par[root] is None)
    for v in range(n):
        if v == root:
            continue
        p = par[v]
        okp = p is not None and 0 <= int(p) < n
        c.add("parent", "%d.defined" % v, okp)
        if okp:
            c.add("parent", "%d.edge" % v, Ef(int(p), v))
            c.add("parent", "%d.parents()" % v, _ints(t.parents(v)) == [int(p)])
            c.add("parent", "%d.in_children" % v, v in _ints(t.children(int(p))))
        else:
            return  # depth_of_vertex would not terminate
    c.add("parent", "parents(root)", _ints(t.parents(root)) == [])
    dep = [int(t.depth_of_vertex(v)) for v in range(n)]
    for v in range(n):
        d = dep[v]
        c.add("depth", "%d.range" % v, 0 <= d < n)
        if 0 <= d < n:
            c.add("depth", "%d.formula" % v, D[d][v])
        if v != root:
            c.add("depth", "%d=parent+1" % v, d == dep[int(par[v])] + 1)
    c.add("depth", "root=0", dep[root] == 0)
    c.add("depth", "max", int(t.maximum_depth) == max(dep))
    for d in range(n + 1):
        want = [v for v in range(n) if dep[v] == d]
        c.add("depth", "vertices_at_depth%d" % d, _ints(t.vertices_at_depth(d)) == want)
        c.add("depth", "n_vertices_at_depth%d" % d, int(t.n_vertices_at_depth(d)) == len(want))
    lv = _ints(t.leaves)
    for v in range(n):
        leaf = bool(t.is_leaf(v))
        c.iff("leaves", "%d.formula" % v, f_leaf(F, Ef, n, v), leaf)
        c.add("leaves", "%d.children" % v, leaf == (len(t.children(v)) == 0))
        c.add("leaves", "%d.listed" % v, leaf == (v in lv))
    c.add("leaves", "nodup", _nodup(lv))
    c.add("leaves", "n_leaves", int(t.n_leaves) == len(lv))
    c.add("out_of_range", "is_leaf(n)", _raises(lambda: t.is_leaf(n)))
    c.add("out_of_range", "parent(n)", _raises(lambda: t.parent(n)))
    c.add("out_of_range", "depth(-1)", _raises(lambda: t.depth_of_vertex(-1)))
    c.add("is_tree", "is_tree", bool(t.is_tree()) and not bool(t.has_cycles()))
    str(t)


def _points(F, cfg, V):
    if cfg.get("points", "const") == "sym":
        return F.reals("p", (V, 2))
    return K.const(F, [[0.5 * i * i - i, 1.0 + 2 * i] for i in range(V)])


def _same_points(F, ob, name, got, want, cfg):
    """coordinates carried over: termwise for symbolic coordinates, elementwise identity for exact constants"""
    if got.shape != want.shape:
        ob.fail(name + ".shape", "%s vs %s" % (got.shape, want.shape))
    elif cfg.get("points", "const") == "sym" or not F.sym:
        ob.eq(name, got, want)
    else:
        ob.true(name, all(x is y for x, y in zip(got.ravel(), want.ravel())))


# ====================================================================== self-test mutants (never in instances())
def _mutants(F, cfg):
    """plausible bugs injected into menpo behind cfg["selftest_mutant"] to confirm that the harness sees them"""
    m = cfg.get("selftest_mutant")
    if not m:
        return
    import menpo.shape.graph as G

    if m == "cycles":  # undirected mode forgets to exclude the tree edge back to the parent
        orig = G._has_cycles
        F.patch(G, "_has_cycles", lambda al, directed: orig(al, True) if not directed and len(al) == 5 else orig(al, directed))
    elif m == "mask":  # masking transposes the adjacency
        orig_m = G._mask_adjacency_matrix_and_points

        def bad_mask(mask, adjacency_matrix, points):
            a, p = orig_m(mask, adjacency_matrix, points)
            return a.T.tocsr(), p
        F.patch(G, "_mask_adjacency_matrix_and_points", bad_mask)
    elif m == "maskpoints":  # masking keeps the first k points instead of the selected ones
        orig_m = G._mask_adjacency_matrix_and_points

        def bad_mask(mask, adjacency_matrix, points):
            a, p = orig_m(mask, adjacency_matrix, points)
            return a, points[: p.shape[0]]
        F.patch(G, "_mask_adjacency_matrix_and_points", bad_mask)
    elif m == "isolated":  # only looks at out-edges
        def bad_iso(adjacency_matrix):
            allv = set(range(adjacency_matrix.shape[0]))
            return list(allv.difference(set(adjacency_matrix.nonzero()[0])))
        F.patch(G, "_isolated_vertices", bad_iso)
    elif m == "sym":  # undirected edge lists are not symmetrised
        F.patch(G, "_convert_edges_to_symmetric_adjacency_matrix", G._convert_edges_to_adjacency_matrix)
    elif m == "depth":
        orig_d = G.Tree.depth_of_vertex
        F.patch(G.Tree, "depth_of_vertex", lambda self, vertex, skip_checks=False: min(orig_d(self, vertex, skip_checks), 2))
    elif m == "root":  # PointTree.from_mask forgets to renumber the root
        real = G.np

        class NoSum:
            def __getattr__(self, k):
                return (lambda *a, **kw: 0) if k == "sum" else getattr(real, k)
        F.patch(G, "np", NoSum())
    elif m == "cycles3":  # triangles are missed
        orig = G._has_cycles
        F.patch(G, "_has_cycles", lambda al, directed: orig(al, directed) and sum(len(l) for l in al) != 6)
    elif m == "bfs":  # find_path uses depth-first order whatever was asked
        orig_f = G.Graph.find_path
        F.patch(G.Graph, "find_path", lambda self, s, e, method="bfs", skip_checks=False: orig_f(
            self, s, e, "dfs" if method == "bfs" else method, skip_checks))
    elif m == "mst":  # the spanning tree is taken from the unweighted graph
        real_cs = G.csgraph

        class CS:
            def __getattr__(self, k):
                return getattr(real_cs, k)

            @staticmethod
            def minimum_spanning_tree(a):
                b = a.copy()
                top = b.data.max() + 1
                b.data[:] = top - b.data
                t = real_cs.minimum_spanning_tree(b)
                t.data[:] = top - t.data
                return t
        F.patch(G, "csgraph", CS())
    elif m == "unweighted":  # weights are ignored by the shortest path search
        orig_s = G.Graph.find_all_shortest_paths
        F.patch(G.Graph, "find_all_shortest_paths", lambda self, algorithm="auto", unweighted=False: orig_s(self, algorithm, True))
    elif m == "allpaths":  # depth-limited enumeration
        orig_p = G.Graph.find_all_paths
        F.patch(G.Graph, "find_all_paths", lambda self, s, e, path=[]: [p for p in orig_p(self, s, e, path) if len(p) <= 3])
    else:
        raise KeyError(m)


# ====================================================================== harnesses
def oracle_consistency(F, ob, cfg):
    """edges stay symbolic (no fork): z3 proves for ALL graphs at once that the oracle formulas used by the other
    harnesses agree with independent formulations"""
    V, directed = cfg["V"], cfg["directed"]
    E = Edges(F, V, directed)
    keys = E.keys
    cyc = f_has_cycle(F, E, V, directed)
    for s in range(V):
        R = f_reach(F, E, V, s)
        for t in range(V):
            ob.eq("reach%d,%d=some_simple_path" % (s, t), R[t], f_some_path(F, E, V, s, t))
    if directed:
        # a directed cycle exists iff some edge (u,v) has v ->* u
        alt = F.or_(*[F.and_(E(u, v), f_reach(F, E, V, v)[u]) for (u, v) in keys])
        ob.eq("cycle=edge_closing_a_walk", cyc, alt)
        poly = f_is_polytree(F, E, V, keys)
        for r in range(V):
            arb = f_arborescence(F, E, V, r, keys)
            ob.true("arborescence%d=>polytree&acyclic" % r, F.implies(arb, F.and_(poly, F.not_(cyc))))
            alt = F.and_(f_n_edges(F, E, keys, V - 1), F.and_(*f_reach(F, E, V, r)))
            ob.eq("arborescence%d=reach&|E|=V-1" % r, arb, alt)
            D = f_depths(F, E, V, r)
            ob.true("arborescence%d=>one_depth_each" % r, F.implies(arb, F.and_(*[
                f_count_eq(F, [D[d][v] for d in range(V)], 1) for v in range(V)])))
        ob.true("polytree=>acyclic&|E|=V-1", F.implies(poly, f_is_tree_code(F, E, V, True, False, keys)))
        # the polytree test is the undirected tree test of the symmetrised relation without antiparallel pairs
        U = _Und(F, E)
        ucyc = F.or_(*[F.and_(*[U(a, b) for (a, b) in c]) for c in _cycles(V, False, False)])
        anti = F.or_(*[F.and_(E(a, b), E(b, a)) for (a, b) in keys if a < b])
        ob.eq("polytree=underlying_connected&acyclic&simple", poly,
              F.and_(f_connected(F, U, V), F.not_(ucyc), F.not_(anti)))
    else:
        # an undirected cycle exists iff the endpoints of some edge stay connected without it
        class Without:
            key = None
            n = V

            def __init__(self, u, v):
                self.uv = ((u, v), (v, u))

            def __call__(self, a, b):
                return False if (a, b) in self.uv else E(a, b)
        alt = F.or_(*[F.and_(E(u, v), f_reach(F, Without(u, v), V, u)[v]) for (u, v) in keys])
        ob.eq("cycle=edge_with_detour", cyc, alt)
        conn = f_connected(F, E, V)
        nm1 = f_n_edges(F, E, keys, V - 1)
        t1 = F.and_(F.not_(cyc), nm1)
        ob.eq("acyclic&|E|=V-1 = connected&|E|=V-1", t1, F.and_(conn, nm1))
        ob.eq("acyclic&|E|=V-1 = connected&acyclic", t1, F.and_(conn, F.not_(cyc)))
        if V > 1:
            ob.eq("connected=some_spanning_tree", conn, f_some_spanning_tree(F, E, V))


def cycles_direct(F, ob, cfg):
    """menpo.shape.graph._has_cycles called directly on the adjacency list of the path's graph"""
    import menpo.shape.graph as G

    V, directed, loops = cfg["V"], cfg["directed"], cfg.get("loops", False)
    _mutants(F, cfg)
    E = Edges(F, V, directed, loops, cfg.get("fix")).fork()
    al = [[] for _ in range(V)]
    for (i, j) in E.present():
        al[i].append(j)
        if not directed and i != j:
            al[j].append(i)
    for l in al:
        l.sort(reverse=(cfg.get("order") == "desc"))
    got = bool(G._has_cycles(al, directed))
    ob.true("has_cycles", _iff(F, f_has_cycle(F, E, V, directed, loops), got))


def tree_test(F, ob, cfg):
    """has_cycles and is_tree of the real object for every graph at the full bound: the cycle oracle, the design's
    tree oracle (acyclic and |E|=V-1) and, for directed graphs, the textbook polytree test"""
    V, directed, loops = cfg["V"], cfg["directed"], cfg.get("loops", False)
    _mutants(F, cfg)
    E = Edges(F, V, directed, loops, cfg.get("fix")).fork()
    g, _ = _build(F, cfg, E)
    hc, it = bool(g.has_cycles()), bool(g.is_tree())
    c = Checks(F, ob, "cycle_and_tree_tests")
    c.iff("has_cycles", "formula", f_has_cycle(F, E, V, directed, loops), hc)
    c.iff("is_tree", "tree", (f_is_polytree(F, E, V, E.keys) if directed else f_is_tree_code(F, E, V, directed, loops, E.keys)), it)
    c.flush()
    if directed:
        ob.true("is_tree.textbook", _iff(F, f_is_polytree(F, E, V, E.keys), it))


def _build(F, cfg, E, pts=None, weights=None):
    """(abstract graph, point graph) of the path, built the way cfg asks"""
    import menpo.shape as ms
    from scipy.sparse import csr_matrix

    V, directed = E.V, E.directed
    via = cfg.get("via", "edges")
    acls, pcls = (ms.DirectedGraph, ms.PointDirectedGraph) if directed else (ms.UndirectedGraph, ms.PointUndirectedGraph)
    if via == "edges" and weights is None:
        el = _edge_list(E, cfg.get("orient", "fwd"))
        if el.shape[0] == 0 and cfg.get("orient") == "rev":
            el = None
        g = acls.init_from_edges(el, V)
        pg = pcls.init_from_edges(pts, el) if pts is not None else None
    else:
        A = _dense(E, weights)
        if cfg.get("wdtype") == "float":
            A = A.astype(float)  # real-valued weights (edge lengths): scipy then works on the caller's buffers
        if via == "csr":
            A = csr_matrix(A)
        g = acls(A)
        pg = pcls(pts, A) if pts is not None else None
    return g, pg


def graph_queries(F, ob, cfg):
    """every structural query of the abstract and of the point-carrying graph built from the path's edges"""
    V, directed, loops = cfg["V"], cfg["directed"], cfg.get("loops", False)
    _mutants(F, cfg)
    pts = _points(F, cfg, V)
    E = Edges(F, V, directed, loops, cfg.get("fix")).fork()
    g, pg = _build(F, cfg, E, pts)
    c = Checks(F, ob, "abstract")
    sus = Checks(F, ob, "is_tree.textbook") if cfg.get("textbook", True) else None
    a = _answers(g, V, directed)
    _check_answers(F, c, sus, a, E, V, directed, loops)
    c.flush()
    if sus is not None:
        sus.flush()
    if cfg.get("variant", "both") == "both":
        c = Checks(F, ob, "point")
        c.add("same_answers", "as_abstract", _same_answers(_answers(pg, V, directed), a))
        c.add("n_points", "n", pg.n_points == V and pg.n_dims == 2)
        c.flush()
        _same_points(F, ob, "point.points", pg.points, pts, cfg)


def mask(F, ob, cfg):
    """from_mask keeps exactly the induced subgraph on the surviving vertices, renumbered in order, with their points"""
    V, directed, loops = cfg["V"], cfg["directed"], cfg.get("loops", False)
    _mutants(F, cfg)
    cfg = dict(cfg, points=cfg.get("points", "sym"))
    pts = _points(F, cfg, V)
    E = Edges(F, V, directed, loops, cfg.get("fix")).fork()
    if cfg.get("mask") is None:
        m = np.array([F.bool("m_%d" % v) for v in range(V)], dtype=bool)
    else:
        m = np.array(cfg["mask"], dtype=bool)
    g, pg = _build(F, cfg, E, pts)
    before = K.freeze(K.digest(pg))
    kept = [v for v in range(V) if m[v]]
    try:
        r = pg.from_mask(m.copy())
    except ValueError:
        r = None
    c = Checks(F, ob, "from_mask")
    c.add("outcome", "rejected_iff_nothing_survives", (r is None) == (len(kept) == 0))
    c.add("outcome", "wrong_length_rejected", _raises(lambda: pg.from_mask(np.ones(V + 1, dtype=bool))))
    if r is not None and kept:
        c.add("outcome", "class", type(r) is type(pg))
        _check_answers(F, c, None, _answers(r, len(kept), directed), View(E, kept), len(kept), directed, loops)
    c.flush()
    if r is not None and kept:
        _same_points(F, ob, "from_mask.points", r.points, pts[kept], cfg)
        # writing into the result must not reach the original
        r.points[0, 0] = r.points[0, 0] + 1
    K.eq_digest(F, ob, "self_unchanged", K.digest(pg), before)


def _tree_edges(F, cfg, assume_tree):
    V, root = cfg["V"], cfg["root"]
    E = Edges(F, V, True, False, cfg.get("fix"))
    arb = f_arborescence(F, E, V, root, E.keys)
    if assume_tree:
        F.assume(arb)
    E.fork()
    return E, arb


def tree_accept(F, ob, cfg):
    """Tree (cfg point: PointTree) accepts an edge list with a root iff the edges form an arborescence from that
    root; an accepted tree answers all queries consistently"""
    import menpo.shape as ms

    V, root = cfg["V"], cfg["root"]
    _mutants(F, cfg)
    E, arb = _tree_edges(F, cfg, False)
    el = _edge_list(E)
    pts = _points(F, cfg, V)
    try:
        t = ms.PointTree.init_from_edges(pts, el, root) if cfg.get("point") else ms.Tree.init_from_edges(el, V, root)
    except ValueError:
        t = None
    ob.true("accepted_iff_arborescence", _iff(F, arb, t is not None))
    # (the relations of something that was accepted without being a tree are not asked for: they do not terminate)
    if t is not None and f_arborescence(F, Fixed(E.present(), V), V, root, E.keys):
        c = Checks(F, ob, "tree")
        _check_answers(F, c, None, _answers(t, V, True), E, V, True)
        _check_tree(F, c, t, E, V, root)
        c.add("bad_root", "rejected", _raises(lambda: ms.Tree.init_from_edges(el, V, V)))
        c.flush()
        if cfg.get("point"):
            _same_points(F, ob, "points", t.points, pts, cfg)


def tree_relations(F, ob, cfg):
    """every arborescence (edges symbolic, constrained to be a tree from the root): parent, depth, leaves, children"""
    import menpo.shape as ms

    V, root = cfg["V"], cfg["root"]
    _mutants(F, cfg)
    E, arb = _tree_edges(F, cfg, True)
    el = _edge_list(E, cfg.get("orient", "fwd"))
    pts = _points(F, cfg, V)
    try:
        t = ms.Tree.init_from_edges(el, V, root)
        pt = ms.PointTree.init_from_edges(pts, el, root)
    except ValueError:
        # (whether the checking constructor accepts every valid tree is the subject of tree_accept)
        t = ms.Tree.init_from_edges(el, V, root, skip_checks=True)
        pt = ms.PointTree.init_from_edges(pts, el, root, skip_checks=True)
    c = Checks(F, ob, "tree")
    a = _answers(t, V, True)
    _check_answers(F, c, None, a, E, V, True)
    _check_tree(F, c, t, E, V, root)
    c.flush()
    c = Checks(F, ob, "point")
    c.add("same_answers", "as_abstract", _same_answers(_answers(pt, V, True), a))
    _check_tree(F, c, pt, E, V, root)
    c.flush()
    _same_points(F, ob, "point.points", pt.points, pts, cfg)


def tree_mask(F, ob, cfg):
    """PointTree.from_mask keeps the induced subtree on the surviving vertices that stay connected to the root"""
    import menpo.shape as ms

    V, root = cfg["V"], cfg["root"]
    _mutants(F, cfg)
    cfg = dict(cfg, points=cfg.get("points", "sym"))
    pts = _points(F, cfg, V)
    E, arb = _tree_edges(F, cfg, True)
    m = np.array([F.bool("m_%d" % v) for v in range(V)], dtype=bool)
    # (acceptance of valid trees by the checking constructor is the subject of tree_accept / tree_relations)
    pt = ms.PointTree.init_from_edges(pts, _edge_list(E), root, skip_checks=True)
    before = K.freeze(K.digest(pt))
    # survivors: reference closure on the path's concrete tree, confirmed against the reachability formula
    surv = f_reach(F, E, V, root, allowed=[bool(x) for x in m])
    kept = set([root]) if m[root] else set()
    grew = True
    while grew:
        grew = False
        for (a, b) in E.present():
            if a in kept and b not in kept and m[b]:
                kept.add(b)
                grew = True
    kept = sorted(kept)
    c = Checks(F, ob, "from_mask")
    for v in range(V):
        c.iff("survivors", "%d" % v, surv[v], v in kept)
    try:
        r = pt.from_mask(m.copy())
    except ValueError:
        r = None
    # no root, or a one-vertex tree (not representable in menpo), must be refused; anything else accepted
    ob.true("rejected_iff_no_root_or_alone", (r is None) == ((not m[root]) or len(kept) == 1))
    c.add("outcome", "wrong_length_rejected", _raises(lambda: pt.from_mask(np.ones(V + 1, dtype=bool))))
    good = r is not None and len(kept) >= 2 and r.n_vertices == len(kept)
    if r is not None:
        c.add("outcome", "class", type(r) is ms.PointTree)
        c.add("outcome", "n_vertices", r.n_vertices == len(kept))
    if good:
        Ef = View(E, kept)
        _check_answers(F, c, None, _answers(r, len(kept), True), Ef, len(kept), True)
        _check_tree(F, c, r, Ef, len(kept), kept.index(root))
    c.flush()
    if good:
        _same_points(F, ob, "from_mask.points", r.points, pts[kept], cfg)
        r.points[0, 0] = r.points[0, 0] + 1
    K.eq_digest(F, ob, "self_unchanged", K.digest(pt), before)


def _is_simple_walk(p, n):
    return len(p) > 0 and _nodup(p) and all(0 <= v < n for v in p)


def _route(F, c, fam, label, r, s, t, n, Ef, weight=None, wtag=None, minimal=True):
    """r is the route menpo returned for s -> t (empty = none): wellformed, present, empty iff unreachable, of
    minimal weight (hops if weight is None).  Returns the weight of the route (None if there is none)."""
    def w_of(p):
        return (len(p) - 1) if weight is None else sum(weight(p[i], p[i + 1]) for i in range(len(p) - 1))

    if len(r) == 0:
        c.add(fam, label + ".empty_only_if_unreachable", _not(F, f_some_path(F, Ef, n, s, t)))
        return None
    ok = _is_simple_walk(r, n) and r[0] == s and r[-1] == t
    c.add(fam, label + ".wellformed", ok)
    if not ok:
        return None
    c.add(fam, label + ".present", f_path(F, Ef, r))
    w = w_of(r)
    if minimal:
        c.add(fam, label + ".minimal", _not(F, f_some_path(F, Ef, n, s, t, pred=lambda p: w_of(p) < w, tag=("lighter", wtag, w))))
    return w


def paths(F, ob, cfg):
    """find_all_paths / n_paths / find_path / find_shortest_path (unit weights) for every start/end pair.
    cfg part: clean = enumeration, bfs/dfs routes, shortest routes; cost = the reported cost of the shortest route;
    self = the start == end conventions"""
    V, directed, loops, part = cfg["V"], cfg["directed"], cfg.get("loops", False), cfg.get("part", "clean")
    _mutants(F, cfg)
    E = Edges(F, V, directed, loops, cfg.get("fix")).fork()
    g, _ = _build(F, cfg, E)
    c = Checks(F, ob, "paths" if part == "clean" else "shortest.cost" if part == "cost" else "self_path")
    for s in range(V):
        for t in range(V):
            lab = "%d,%d" % (s, t)
            if part == "self":
                if s == t:
                    c.add(None, lab + ".find_path.bfs", _ints(g.find_path(s, t)) == [s])
                    c.add(None, lab + ".find_path.dfs", _ints(g.find_path(s, t, method="dfs")) == [s])
                    r, d = g.find_shortest_path(s, t)
                    c.add(None, lab + ".shortest.route", _ints(r) == [s])
                    c.add(None, lab + ".shortest.cost", float(d) == 0.0)
                continue
            if part == "clean":
                sp = _simple_paths(V, s, t)
                got = [tuple(_ints(p)) for p in g.find_all_paths(s, t)]
                c.add("find_all_paths", lab + ".nodup", _nodup(got))
                c.add("find_all_paths", lab + ".simple", all(p in sp for p in got))
                for p in sp:
                    c.iff("find_all_paths", lab + ".%s" % (p,), f_path(F, E, p), p in got)
                c.add("find_all_paths", lab + ".n_paths", g.n_paths(s, t) == len(got))
            if s == t:
                continue
            if part == "clean":
                _route(F, c, "find_path.bfs", lab, _ints(g.find_path(s, t)), s, t, V, E)
                _route(F, c, "find_path.dfs", lab, _ints(g.find_path(s, t, method="dfs")), s, t, V, E, minimal=False)
            for uw in (False, True):
                r, d = g.find_shortest_path(s, t, unweighted=uw)
                tmp = c if part == "clean" else Checks(F, ob, "unused")
                w = _route(F, tmp, "shortest.route", lab + (".uw" if uw else ""), _ints(r), s, t, V, E)
                if part == "cost":
                    if w is None:
                        c.add(None, lab + ".inf", len(r) == 0 and float(d) == float("inf"))
                    else:
                        c.add(None, lab + (".uw" if uw else ""), float(d) == float(w))
    if part == "clean":
        c.add("arguments", "bad_method", _raises(lambda: g.find_path(0, 0, method="x")))
        c.add("arguments", "out_of_range", _raises(lambda: g.find_path(0, V)) and _raises(lambda: g.find_shortest_path(-1, 0)))
    c.flush()


def _weights(V, directed, seed):
    """concrete distinct positive integer weights for every potential edge"""
    keys = _keys(V, directed)
    rng = np.random.RandomState(1000 + seed)
    vals = rng.permutation(len(keys)) + 1
    if seed == 1:
        vals = vals * vals  # far from uniform: long detours may beat direct edges
    return dict((k, int(v)) for k, v in zip(keys, vals))


def weighted(F, ob, cfg):
    """concrete distinct weights, symbolic presence.  cfg part: route = shortest paths are wellformed, present and of
    minimal weight; cost = the reported cost is the weight of the route; mst = minimum spanning trees have minimal
    total weight among the present spanning trees of K_V, are rooted where asked and consistent as trees"""
    import menpo.shape as ms

    V, directed, part = cfg["V"], cfg["directed"], cfg["part"]
    _mutants(F, cfg)
    W = _weights(V, directed, cfg["wseed"])
    wtag = cfg["wseed"]
    E = Edges(F, V, directed, False, cfg.get("fix")).fork()
    g, pg = _build(F, dict(cfg, via="dense"), E, _points(F, cfg, V), weights=W)

    def wt(a, b):
        return W[(a, b)] if directed or a < b else W[(b, a)]

    if part in ("route", "cost"):
        c = Checks(F, ob, "weighted" if part == "route" else "shortest.cost")
        if part == "route":
            c.add("weights", "kept", bool(np.array_equal(np.asarray(g.adjacency_matrix.todense()), _dense(E, W))))
            _check_answers(F, c, None, _answers(g, V, directed), E, V, directed)
        for s in range(V):
            for t in range(V):
                if s == t:
                    continue
                lab = "%d,%d" % (s, t)
                r, d = g.find_shortest_path(s, t)
                tmp = c if part == "route" else Checks(F, ob, "unused")
                w = _route(F, tmp, "shortest.route", lab, _ints(r), s, t, V, E, weight=wt, wtag=wtag)
                if part == "cost":
                    if w is None:
                        c.add(None, lab + ".inf", len(r) == 0 and float(d) == float("inf"))
                    else:
                        c.add(None, lab, float(d) == float(w))
                else:
                    r, d = g.find_shortest_path(s, t, unweighted=True)
                    _route(F, c, "shortest.route", lab + ".uw", _ints(r), s, t, V, E)
        c.add("graph_unchanged", "adjacency", bool(np.array_equal(np.asarray(g.adjacency_matrix.todense()), _dense(E, W))))
        c.flush()
        return
    # ---- minimum spanning trees
    sts = _spanning_trees(V)
    some_st = f_some_spanning_tree(F, E, V)

    def tw(T):
        return sum(wt(a, b) for (a, b) in T)

    c = Checks(F, ob, "mst")
    rej = Checks(F, ob, "mst.rejected_iff_no_spanning_tree")
    for gg, nm in ((g, "abstract"), (pg, "point")):
        for root in range(V):
            lab = "%s.root%d" % (nm, root)
            try:
                t = gg.minimum_spanning_tree(root)
            except ValueError:
                t = None
            # a disconnected graph has no spanning tree: a textbook algorithm says so
            rej.iff(None, lab, some_st, t is not None)
            if t is None:
                continue
            c.add("result", lab + ".type", type(t) is (ms.Tree if nm == "abstract" else ms.PointTree))
            c.add("result", lab + ".root", int(t.root_vertex) == root)
            c.add("result", lab + ".n_vertices", t.n_vertices == V)
            ed = [tuple(_ints(r)) for r in np.asarray(t.edges)]
            und = tuple(sorted(tuple(sorted(e)) for e in ed))
            c.add("result", lab + ".edges_present", F.and_(*[E(a, b) for (a, b) in und]))
            if und not in sts:
                # not a spanning tree of K_V: only acceptable where none exists (stated by `rej`)
                c.add("result", lab + ".spanning_tree_if_one_exists", _not(F, some_st))
                continue
            mine = tw(und)
            c.add("minimal", lab, _not(F, f_some_spanning_tree(F, E, V, pred=lambda T: tw(T) < mine, tag=("lighter", wtag, mine))))
            wa = np.asarray(t.adjacency_matrix.todense())
            c.add("result", lab + ".weights_kept", all(wa[a, b] == wt(a, b) for (a, b) in ed))
            # oriented away from the root, consistent as a tree
            Et = Fixed(ed, V)
            arb = f_arborescence(F, Et, V, root, _keys(V, True))
            c.add("result", lab + ".arborescence", arb)
            if arb:
                _check_tree(F, c, t, Et, V, root)
            if nm == "point":
                c.add("result", lab + ".points", t.points.shape == pg.points.shape and all(
                    (x is y) or (not F.sym and x == y) for x, y in zip(t.points.ravel(), pg.points.ravel())))
    # asking for spanning trees is a query: the graph still is what it was built from
    for gg, nm in ((g, "abstract"), (pg, "point")):
        c.add("graph_unchanged", nm + ".adjacency", bool(np.array_equal(np.asarray(gg.adjacency_matrix.todense()), _dense(E, W))))
        c.add("graph_unchanged", nm + ".n_edges", gg.n_edges == len(E.present()))
    c.flush()
    rej.flush()


def predefined(F, ob, cfg):
    """graph_predefined generators: empty/star/complete/chain graphs on n points, every class they accept"""
    import menpo.shape as ms
    from menpo.shape import graph_predefined as gp

    n = F.choice("n", [1, 2, 3, 4, 5])
    kind = F.choice("kind", ["empty", "star", "complete", "chain", "chain_closed"])
    pts = K.const(F, [[float(i), float(i * i)] for i in range(n)])
    pc = ms.PointCloud(pts)
    classes = {"empty": ["PointUndirectedGraph", "UndirectedGraph"],
               "star": ["Tree", "PointTree", "UndirectedGraph", "DirectedGraph", "PointUndirectedGraph", "PointDirectedGraph"],
               "complete": ["UndirectedGraph", "DirectedGraph", "PointUndirectedGraph", "PointDirectedGraph"],
               "chain": ["Tree", "PointTree", "UndirectedGraph", "DirectedGraph", "PointUndirectedGraph", "PointDirectedGraph"],
               "chain_closed": ["UndirectedGraph", "DirectedGraph", "PointUndirectedGraph", "PointDirectedGraph"]}[kind]
    cname = F.choice("cls_" + kind, classes)
    cls = getattr(ms, cname)
    root = 0
    if kind == "empty":
        g = gp.empty_graph(pc, return_pointgraph=cname.startswith("Point"))
        want = []
    elif kind == "star":
        root = F.choice("root", list(range(n)))
        g = gp.star_graph(pc, root, graph_cls=cls)
        want = [(root, v) for v in range(n) if v != root]
    elif kind == "complete":
        g = gp.complete_graph(pc, graph_cls=cls)
        want = [(a, b) for a in range(n) for b in range(a + 1, n)]
    else:
        closed = kind == "chain_closed"
        g = gp.chain_graph(pc, graph_cls=cls, closed=closed)
        want = [(a, a + 1) for a in range(n - 1)]
        if closed:
            want.append((n - 1, 0))
    c = Checks(F, ob, kind)
    c.add("class", "exact", type(g) is cls)
    directed = isinstance(g, ms.DirectedGraph)
    Ef = Fixed(want, n, symmetric=not directed)
    loops = any(a == b for (a, b) in want)
    _check_answers(F, c, None, _answers(g, n, directed), Ef, n, directed, loops)
    if isinstance(g, ms.Tree) and n >= 2:
        _check_tree(F, c, g, Ef, n, root)
    if isinstance(g, ms.PointCloud):
        c.add("points", "kept", g.points.shape == pts.shape and all(
            (x is y) or (not F.sym and x == y) for x, y in zip(g.points.ravel(), pts.ravel())))
    if kind == "chain_closed":
        c.add("arguments", "closed_tree_rejected", _raises(lambda: gp.chain_graph(pc, graph_cls=ms.Tree, closed=True))
              and _raises(lambda: gp.chain_graph(pc, graph_cls=ms.PointTree, closed=True)))
    c.add("arguments", "non_pointcloud_rejected", _raises(lambda: gp.complete_graph(pts)))
    c.flush()
