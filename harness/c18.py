"""C18 -- features agree on arrays and images and keep annotations attached.

Every exported menpo feature (and ndfeature / imgfeature / winitfeature compositions) is run twice on the same
symbolic data -- once on the raw pixel array, once on an Image / MaskedImage carrying symbolic landmarks and a
concrete mask -- and the wrapper / rebuild logic of menpo/feature/base.py is decided termwise.  Kernels that are
not algebraic (scipy gaussian filter, DAISY, angle/sin/cos, |.| of a complex gradient, median) are replaced in
symbolic mode by deterministic, shape-correct uninterpreted functions of *all* their inputs; numpy.gradient,
no_op and the normalisers run for real on object arrays.  The concrete replay runs the unpatched real kernels.

Developer self test: `C18_SELFTEST=1 ./check C18 --no-evidence` replaces the instance list by SELFTEST, where every
instance patches a plausible bug into menpo (cfg flag "selftest_mutant"); each must be reported as a VIOLATION.
"""
import fractions
import os

import numpy as np
import z3

from harness import common as K
from symx import core, npproxy
from symx.core import Sym

META = {
    "explanation": "C18: (wrapper) for gradient, gaussian_filter, igo, double_igo, es, daisy (several step/radius/"
    "rings), no_op, normalize and normalize_std/var/norm in both modes, and for compositions (igo o gaussian, "
    "normalize_std o gradient, daisy o no_op, es o igo, user kernels wrapped by ndfeature / imgfeature / winitfeature "
    "that keep or change the size), on Image and MaskedImage (masks all-true/sparse/single/none) with symbolic pixels "
    "and 0-2 symbolic landmark groups: f(image).pixels equals f(image.pixels) termwise; the raw array, the image "
    "pixels, the mask and every landmark group are termwise unchanged by the call; the result is an ndarray for an "
    "array and an image of exactly the input class for an image; when the spatial size is kept the mask and the "
    "complete landmark digest are carried unchanged; when the (stubbed) kernel changes the size every landmark "
    "coordinate is multiplied by new_size/old_size per axis and the mask equals the original mask resized to the new "
    "size; for window features with a grid of centres the mask is sampled at the centres and landmarks map to "
    "(p - first_centre)/step.  (dtype) the same on concrete float32/float64 pixel data with 1-4 channels through the "
    "REAL kernels (bit-for-bit agreement of array path and image path, dtype agreement, symbolic landmarks). "
    "(normaliser) normalize with no / constant / symbolic scale and normalize_std/var/norm, modes all and per_channel, "
    "1-2 channels, 2x2 and 1x3 symbolic pixels, Image and MaskedImage: result*scale = centred data, mean = 0 per group, "
    "variance = 1 (std), sum of squares = 1 (norm), result*variance = centred (var), a second application is the "
    "identity (std, norm), a zero scale raises ValueError iff error_on_divide_by_zero and is otherwise skipped: the "
    "affected group is returned centred, finite and unscaled and the other groups are still normalised; array path "
    "and image path agree in every one of these cases.",
    "bounds": ["images (2,3), (3,2), (2,2), (3,3), (3,4), (2,5), (4,4), (5,3), 3-D (2,2,2) [thorough]; DAISY on (4,4), (5,4), (4,5), "
               "(3,5), (5,6), (6,5), (6,6) with radius 1-2, step 1-3, rings 1-2, all four normalisations, explicit sigmas/ring_radii",
               "concrete dtype runs: (5,6) float32/float64, 1-4 channels",
               "1-4 channels (symbolic pixels: 1-2, thorough up to 3)", "0-2 landmark groups of 3 points, coordinates in [-8,8]",
               "normalisers: 1-2 channels x (2,2) / (1,3) symbolic pixels in [0,1]",
               "window grids: 1-3 rows/columns of centres, steps 1-3"],
    "stubs": ["scipy.ndimage.gaussian_filter -> uninterpreted function gauss(index, sigma, all input pixels)",
              "menpo.external.skimage._daisy._daisy -> uninterpreted function of (index, parameters, all input pixels) with the "
              "real output shape ((rings*histograms+1)*orientations, ceil((H-2r)/step), ceil((W-2r)/step))",
              "numpy.angle / sin / cos on the complex gradient -> uninterpreted sin_k(gy, gx), cos_k(gy, gx)",
              "numpy.abs of the complex gradient -> uninterpreted cabs(gx, gy); numpy.median -> uninterpreted median(all)",
              "numpy.gradient -> exact model (central differences inside, one-sided at the borders, edge_order=1)",
              "numpy.std / var / linalg.norm results wrapped as 0-d arrays (numpy scalar API: .ravel/.reshape)",
              "Image.resize of a concrete BooleanImage (the mask of a resized feature image) runs in real numpy "
              "(menpo's rescale relies on float inf when a side has length 1)"],
    "assumptions": ["floats are modelled as exact reals (symbolic part); replay compares the real kernels' floats",
                    "normalize() called directly on a MaskedImage normalises the masked pixels only (menpo's documented "
                    "limit-to-mask semantics): the reference is the raw array of the masked pixels; with an all-true "
                    "mask the reference is the whole pixel array"],
    "not_covered": ["numerical content of the stubbed kernels (gaussian, DAISY, angle/sin/cos, median)",
                    "float32 rounding of symbolic data (float32 is covered on concrete data through the real kernels only)",
                    "dsift / fast_dsift (cyvlfeat is not installed; winitfeature is exercised through a harness kernel)",
                    "images below the feature's minimum size", "BooleanImage inputs"],
    "trusted": ["state digest in harness/common.py", "BooleanImage.resize as the definition of 'the mask resized'"],
}


# ======================================================================================= symbolic models
_UFS = {}


def _uf(name, consts, terms):
    """k -> Sym: application of the uninterpreted function name/arity to (k, consts..., terms...)"""
    ar = 1 + len(consts) + len(terms)
    key = (name, ar)
    if key not in _UFS:
        _UFS[key] = z3.Function("%s_%d" % (name, ar), *([z3.RealSort()] * (ar + 1)))
    f = _UFS[key]
    args = [core.lift(float(c)) for c in consts] + [core.lift(t) for t in terms]
    return lambda k: Sym.var(f(core.lift(int(k)), *args))


def _uf_array(name, consts, inp, out_shape):
    mk = _uf(name, consts, list(core.O(inp).ravel()))
    out = np.empty(out_shape, dtype=object)
    for k, idx in enumerate(np.ndindex(*out_shape)):
        out[idx] = mk(k)
    return out


class CSym(Sym):
    """a real symbolic value that can be multiplied by a python complex (gradient components in igo/es)"""

    __slots__ = ()

    @staticmethod
    def wrap(v):
        s = Sym.of(v)
        return CSym(s.n, s.d)

    def __mul__(self, o):
        if isinstance(o, complex):
            return SymC(Sym.__mul__(self, o.real), Sym.__mul__(self, o.imag))
        return Sym.__mul__(self, o)

    __rmul__ = __mul__


class SymC:
    """re + i im with symbolic parts; only what igo/es do with it"""

    def __init__(self, re, im):
        self.re, self.im = re, im

    def __add__(self, o):
        if isinstance(o, SymC):
            return SymC(self.re + o.re, self.im + o.im)
        if isinstance(o, complex):
            return SymC(self.re + o.real, self.im + o.imag)
        return SymC(self.re + o, self.im)

    __radd__ = __add__

    def __abs__(self):
        return _uf("cabs", [], [self.re, self.im])(0)


class UAngle:
    """k * angle(x + i y), known only through uninterpreted sin/cos"""

    def __init__(self, y, x, k=1):
        self.y, self.x, self.k = y, x, k

    def __mul__(self, o):
        if isinstance(o, (int, np.integer)) and not isinstance(o, bool):
            return UAngle(self.y, self.x, self.k * int(o))
        raise core.Unsupported("angle * %r" % (o,))

    __rmul__ = __mul__

    def sin(self):
        return _uf("sin", [self.k], [self.y, self.x])(0)

    def cos(self):
        return _uf("cos", [self.k], [self.y, self.x])(0)


def _angle_model(z, deg=False):
    if isinstance(z, np.ndarray) and z.dtype != object:
        return np.angle(z, deg=deg)
    z = core.O(z)
    if not any(isinstance(v, SymC) for v in z.ravel()):
        if core.has_sym(z):
            raise core.Unsupported("numpy.angle of a real symbolic array")
        return np.angle(z.astype(complex), deg=deg).astype(object)
    if deg:
        raise core.Unsupported("numpy.angle(deg=True)")
    out = np.empty(z.shape, dtype=object)
    for i in np.ndindex(*z.shape):
        v = z[i]
        out[i] = UAngle(v.im, v.re) if isinstance(v, SymC) else UAngle(0, v)
    return out


_angle_model.always = True


def _gradient_model(f, *varargs, axis=None, edge_order=1):
    """numpy.gradient with unit spacing and edge_order=1, exactly"""
    if varargs or axis is not None or edge_order != 1:
        raise core.Unsupported("numpy.gradient with spacing/axis/edge_order=2 on symbolic input")
    f = core.O(f)
    outs = []
    for ax in range(f.ndim):
        if f.shape[ax] < 2:
            raise ValueError("Shape of array too small to calculate a numerical gradient, "
                             "at least (edge_order + 1) elements are required.")

        def sl(s, ax=ax):
            return tuple(s if a == ax else slice(None) for a in range(f.ndim))

        g = np.empty(f.shape, dtype=object)
        g[sl(slice(1, -1))] = (f[sl(slice(2, None))] - f[sl(slice(None, -2))]) / 2.0
        g[sl(0)] = f[sl(1)] - f[sl(0)]
        g[sl(-1)] = f[sl(-1)] - f[sl(-2)]
        for i in np.ndindex(*g.shape):
            g[i] = CSym.wrap(g[i])
        outs.append(g)
    return outs[0] if f.ndim == 1 else tuple(outs)


def _median_model(a, axis=None, **kw):
    if axis is not None or kw:
        raise core.Unsupported("numpy.median with axis on symbolic input")
    return _uf("median", [], list(core.O(a).ravel()))(0)


def _gauss_stub(real):
    def gaussian_filter(inp, sigma, order=0, output=None, mode="reflect", cval=0.0, truncate=4.0, **kw):
        if not core.has_sym(inp):
            x = npproxy._defloat(np.asarray(inp))
            if isinstance(output, np.ndarray) and output.dtype == object:
                output[...] = real(x, sigma, order=order, mode=mode, cval=cval, truncate=truncate, **kw)
                return output
            return real(x, sigma, order=order, output=output, mode=mode, cval=cval, truncate=truncate, **kw)
        if order != 0 or mode != "reflect" or kw:
            raise core.Unsupported("gaussian_filter options on symbolic input")
        sig = list(np.atleast_1d(np.asarray(sigma, dtype=float)).ravel())
        vals = _uf_array("gauss", sig + [cval, truncate], inp, np.shape(inp))
        if output is None:
            return vals
        output[...] = vals
        return output

    return gaussian_filter


def _concrete_resize(real):
    """the mask of a feature image is resized from a CONCRETE boolean mask: that computation runs in real numpy
    (real float semantics: menpo's rescale divides by shape-1 = 0 when a side has length 1 and relies on inf)"""
    def resize(self, shape, *a, **kw):
        from menpo.image import BooleanImage

        if type(self) is not BooleanImage or self.has_landmarks:
            return real(self, shape, *a, **kw)
        npproxy.unpatch_menpo()
        try:
            with np.errstate(all="ignore"):
                return real(self, shape, *a, **kw)
        finally:
            npproxy.patch_menpo()

    return resize


_NORMS = ["l1", "l2", "daisy", "off"]


def _daisy_stub(real, dmod):
    def _daisy(img, step=4, radius=15, rings=3, histograms=8, orientations=8, normalization="l1",
               sigmas=None, ring_radii=None):
        if not core.has_sym(img):
            saved = dmod.np
            dmod.np = np
            try:
                return real(npproxy._defloat(np.asarray(img)), step=step, radius=radius, rings=rings,
                            histograms=histograms, orientations=orientations, normalization=normalization,
                            sigmas=sigmas, ring_radii=ring_radii)
            finally:
                dmod.np = saved
        h, w = img.shape[1] - 2 * radius, img.shape[2] - 2 * radius
        if h <= 0 or w <= 0:
            raise core.Unsupported("DAISY on an image not larger than 2*radius")
        dims = (rings * histograms + 1) * orientations
        consts = [step, radius, rings, histograms, orientations, _NORMS.index(normalization)]
        consts += list(sigmas or []) + list(ring_radii or [])
        return _uf_array("daisy", consts, img, (dims, -(-h // step), -(-w // step)))

    return _daisy


def _zero_d(fn):
    """numpy returns numpy scalars (with .ravel/.reshape) where the proxy returns a bare Sym"""
    def w(*a, **k):
        r = fn(*a, **k)
        if isinstance(r, Sym):
            out = np.empty((), dtype=object)
            out[()] = r
            return out
        return r

    return w


def _install(F):
    """symbolic mode: install the models; concrete mode: nothing (the real kernels run)"""
    if not F.sym:
        return
    import scipy.ndimage as ndi

    import importlib

    dmod = importlib.import_module("menpo.external.skimage._daisy")
    NP = npproxy.NP
    NP.stubs["gradient"] = _gradient_model
    NP.stubs["angle"] = _angle_model
    NP.stubs["median"] = _median_model
    F.patch(ndi, "gaussian_filter", _gauss_stub(ndi.gaussian_filter))
    from menpo.image import Image

    F.patch(Image, "resize", _concrete_resize(Image.resize))
    F.patch(dmod, "_daisy", _daisy_stub(dmod._daisy, dmod))
    F.patch(NP, "std", _zero_d(NP.std))
    F.patch(NP, "var", _zero_d(NP.var))
    F.patch(NP.linalg, "norm", _zero_d(NP.linalg.norm))


# ======================================================================================= features under test
DAISY_KW = {"d1": dict(step=1, radius=1, rings=1, histograms=2, orientations=2),
            "d2": dict(step=2, radius=1, rings=2, histograms=1, orientations=2, normalization="l2"),
            "d3": dict(step=3, radius=2, rings=1, histograms=2, orientations=3, normalization="daisy"),
            "d4": dict(step=1, radius=1, rings=1, histograms=1, orientations=2, normalization=None),
            # explicit sigmas / ring radii override `rings` and `radius` (documented): effective rings=1, radius=1
            "d5": dict(step=1, radius=7, rings=3, histograms=2, orientations=2, sigmas=[1.0, 2.0], ring_radii=[1]),
            "d6": dict(step=2, radius=9, rings=4, histograms=1, orientations=2, ring_radii=[1, 2])}


def _daisy_effective(kw):
    """(rings, radius) after the documented overrides"""
    rings, radius = kw["rings"], kw["radius"]
    if kw.get("ring_radii") is not None:
        rings, radius = len(kw["ring_radii"]), kw["ring_radii"][-1]
    if kw.get("sigmas") is not None:
        rings = len(kw["sigmas"]) - 1
    return rings, radius


def _halve_kernel(pixels):
    """user kernel that changes the size: every second pixel along each spatial axis"""
    idx = (slice(None),) + (slice(None, None, 2),) * (pixels.ndim - 1)
    return pixels[idx] * 2.0 + 1.0


def _grow_kernel(pixels):
    """user kernel that doubles the first spatial axis"""
    return np.concatenate([pixels, pixels * 0.5], axis=1)


def _img_kernel(img):
    """user imgfeature: a new image of the same class (copy with new pixel values)"""
    new = img.copy()
    new.pixels = img.pixels * 3.0 - 1.0
    return new


def _resolve(name):
    """feature name -> callable(x)"""
    import menpo.feature as mf
    from menpo.feature.base import imgfeature, ndfeature

    if name in ("gradient", "igo", "double_igo", "es", "no_op"):
        return getattr(mf, name)
    if name == "igo_da":
        return lambda x: mf.igo(x, double_angles=True)
    if name == "gaussian_filter":
        return lambda x: mf.gaussian_filter(x, 1.5)
    if name == "gaussian_filter_aniso":
        return lambda x: mf.gaussian_filter(x, [0.5, 2.0])
    if name.startswith("daisy:"):
        kw = DAISY_KW[name.split(":")[1]]
        return lambda x: mf.daisy(x, **kw)
    if name.startswith("normalize"):
        base, _, mode = name.partition(":")
        fn = getattr(mf, base)
        return lambda x: fn(x, mode=mode or "all")
    if name == "igo.gauss":
        return lambda x: mf.igo(mf.gaussian_filter(x, 1.0))
    if name == "std.gradient":
        return lambda x: mf.normalize_std(mf.gradient(x), mode="per_channel")
    if name == "es.igo":
        return lambda x: mf.es(mf.igo(x))
    if name == "daisy.no_op":
        return lambda x: mf.daisy(mf.no_op(x), **DAISY_KW["d1"])
    if name == "gradient.daisy":
        return lambda x: mf.gradient(mf.daisy(x, **DAISY_KW["d1"]))
    if name == "nd_halve":
        return ndfeature(_halve_kernel)
    if name == "nd_grow":
        return ndfeature(_grow_kernel)
    if name == "nd_halve.gradient":
        h = ndfeature(_halve_kernel)
        return lambda x: h(mf.gradient(x))
    if name == "img_kernel":
        return imgfeature(_img_kernel)
    if name == "img_kernel.nd_halve":
        h, g = ndfeature(_halve_kernel), imgfeature(_img_kernel)
        return lambda x: g(h(x))
    raise KeyError(name)


def _expected(name, shape, ch):
    """(channels, spatial shape) the documentation promises, or None where it promises nothing simple"""
    nd = len(shape)
    if name in ("no_op", "gaussian_filter", "gaussian_filter_aniso", "img_kernel") or name.startswith("normalize"):
        return ch, shape
    if name == "gradient":
        return ch * nd, shape
    if name in ("igo", "es"):
        return 2 * ch, shape
    if name in ("double_igo", "igo_da"):
        return 4 * ch, shape
    if name == "igo.gauss":
        return 2 * ch, shape
    if name == "es.igo":
        return 4 * ch, shape
    if name == "std.gradient":
        return ch * nd, shape
    if name.startswith("daisy:") or name == "daisy.no_op":
        kw = DAISY_KW[name.split(":")[1]] if ":" in name else DAISY_KW["d1"]
        (rings, r), s = _daisy_effective(kw), kw["step"]
        return ((rings * kw["histograms"] + 1) * kw["orientations"],
                tuple(-(-(n - 2 * r) // s) for n in shape))
    if name in ("nd_halve", "img_kernel.nd_halve"):
        return ch, tuple(-(-n // 2) for n in shape)
    if name == "nd_halve.gradient":
        return ch * nd, tuple(-(-n // 2) for n in shape)
    if name == "nd_grow":
        return ch, (2 * shape[0],) + tuple(shape[1:])
    return None


MASKS = {
    "all": lambda shape: np.ones(shape, dtype=bool),
    "sparse": lambda shape: (np.arange(int(np.prod(shape))).reshape(shape) % 2) == 0,
    "single": lambda shape: (np.arange(int(np.prod(shape))).reshape(shape) == 1),
    "most": lambda shape: (np.arange(int(np.prod(shape))).reshape(shape) != 2),
    "none": lambda shape: np.zeros(shape, dtype=bool),
}

_ACCEPTED = (ValueError,)


def _run_any(f, x):
    """like _run, but an unexpected exception is returned ('crash', text, exception) instead of propagating"""
    try:
        return "ok", f(x)
    except _ACCEPTED as e:
        return "err", "%s: %s" % (type(e).__name__, e)
    except Exception as e:
        return "crash", "%s: %s" % (type(e).__name__, e), e


def _masked_data(px, m):
    """the masked pixels as a raw (C, k, 1) pixel array (a k x 1 image with C channels)"""
    return px[:, m][..., None].copy()


def _run(f, x):
    try:
        return "ok", f(x)
    except _ACCEPTED as e:
        return "err", type(e).__name__


def _ratio(F, new, old):
    return fractions.Fraction(int(new), int(old)) if F.sym else float(new) / float(old)


def _expected_lm_digest(F, img, fn):
    """digest of the landmarks with fn applied to every coordinate array (independent copies)"""
    out = []
    for k, v in K.digest(img.landmarks, "landmarks."):
        if k.endswith("points"):
            out.append((k, fn(v.copy())))
        elif isinstance(v, np.ndarray):
            out.append((k, v.copy()))
        else:
            out.append((k, v))
    return out


# ---------------------------------------------------------------- deliberately wrong variants (self test only)
def _mutant(F, cfg):
    """cfg["selftest_mutant"]: plausible bugs patched into menpo to confirm that the harness sees them.
    Never enabled from instances()."""
    m = cfg.get("selftest_mutant")
    if not m:
        return
    import menpo.feature.base as fb
    import menpo.feature.features as ff
    from menpo.image import Image, MaskedImage
    from menpo.transform import NonUniformScale

    real_rebuild = fb.rebuild_feature_image
    if m == "drop_landmarks_on_resize":
        def rebuild(image, f_pixels):
            r = real_rebuild(image, f_pixels)
            if f_pixels.shape[1:] != image.shape:
                r._landmarks = None
            return r
        F.patch(fb, "rebuild_feature_image", rebuild)
    elif m == "inverse_scale":
        def rebuild(image, f_pixels):
            r = real_rebuild(image, f_pixels)
            if f_pixels.shape[1:] != image.shape and image.has_landmarks:
                sf = np.array(image.shape) / np.array(f_pixels.shape[1:])
                r.landmarks = NonUniformScale(sf).apply(image.landmarks)
            return r
        F.patch(fb, "rebuild_feature_image", rebuild)
    elif m == "unmasked_result":
        F.patch(fb, "rebuild_feature_image", lambda image, f_pixels: Image(f_pixels, copy=False))
    elif m == "mask_not_resized":
        def rebuild(image, f_pixels):
            r = real_rebuild(image, f_pixels)
            if hasattr(image, "mask") and f_pixels.shape[1:] != image.shape:
                r = MaskedImage(f_pixels, copy=False)
                if image.has_landmarks:
                    r.landmarks = real_rebuild(image, f_pixels).landmarks
            return r
        F.patch(fb, "rebuild_feature_image", rebuild)
    elif m == "inplace_centering":
        real_norm = ff.normalize.__wrapped__

        def normalize(img, scale_func=None, mode="all", error_on_divide_by_zero=True):
            r = real_norm(img, scale_func=scale_func, mode=mode, error_on_divide_by_zero=error_on_divide_by_zero)
            img.pixels[...] = img.pixels - img.pixels.ravel()[0]
            return r
        import menpo.feature as mf
        F.patch(ff, "normalize", fb.imgfeature(normalize))
        F.patch(mf, "normalize", ff.normalize)
    elif m == "population_vs_sample":
        # std with ddof=1 in the image path only
        real_std = ff.normalize_std

        def nstd(x, mode="all", error_on_divide_by_zero=True):
            r = real_std(x, mode=mode, error_on_divide_by_zero=error_on_divide_by_zero)
            if isinstance(x, np.ndarray):
                return r
            n = x.pixels[0].size if mode == "per_channel" else x.pixels.size
            r.pixels[...] = r.pixels * fractions.Fraction(n - 1, n) if F.sym else r.pixels * ((n - 1.0) / n)
            return r
        import menpo.feature as mf
        F.patch(mf, "normalize_std", nstd)
    elif m == "centres_no_translation":
        from menpo.transform import NonUniformScale as NUS

        def lmc(centres):
            sv = centres[1, 0, 0] - centres[0, 0, 0] if centres.shape[0] > 1 else centres[0, 0, 0]
            sh = centres[0, 1, 1] - centres[0, 0, 1] if centres.shape[1] > 1 else centres[0, 0, 1]
            return NUS((1.0 / sv, 1.0 / sh), skip_checks=True)
        F.patch(fb, "lm_centres_correction", lmc)
    elif m == "skip_scales_nothing":
        # zero-scale skip that forgets to normalise the remaining channels
        real_norm = ff.normalize.__wrapped__

        def normalize(img, scale_func=None, mode="all", error_on_divide_by_zero=True):
            if error_on_divide_by_zero:
                return real_norm(img, scale_func=scale_func, mode=mode, error_on_divide_by_zero=True)
            px = img.as_vector(keep_channels=True)
            c = px - (np.mean(px) if mode == "all" else np.mean(px, axis=1, keepdims=True))
            return img.from_vector(c)
        import menpo.feature as mf
        F.patch(ff, "normalize", fb.imgfeature(normalize))
        F.patch(mf, "normalize", ff.normalize)
    elif m == "daisy_ignores_ring_radii":
        real_daisy = ff.daisy

        def daisy(x, **kw):
            kw = dict(kw)
            rr = kw.pop("ring_radii", None)
            if rr is not None:
                kw["radius"] = rr[0]
            return real_daisy(x, **kw)
        import menpo.feature as mf
        F.patch(mf, "daisy", daisy)
    elif m == "double_igo_single":
        import menpo.feature as mf
        F.patch(mf, "double_igo", mf.igo)
    elif m == "candidate_fix":
        # not a bug: the minimal repair of the zero-scale skip (see the final report); used to confirm that a
        # correct implementation satisfies every normaliser obligation
        import warnings

        def normalize(img, scale_func=None, mode="all", error_on_divide_by_zero=True):
            np_ = ff.np
            if scale_func is None:
                def scale_func(_, axis=None):
                    return np_.array([1.0])
            pixels = img.as_vector(keep_channels=True)
            if mode == "all":
                centered_pixels = pixels - np_.mean(pixels)
                scale_factor = scale_func(centered_pixels)
            elif mode == "per_channel":
                centered_pixels = pixels - np_.mean(pixels, axis=1, keepdims=True)
                scale_factor = scale_func(centered_pixels, axis=1).reshape([-1, 1])
            else:
                raise ValueError("mode")
            zero_denom = (scale_factor == 0).ravel()
            any_non_zero = np_.any(zero_denom)
            if error_on_divide_by_zero and any_non_zero:
                raise ValueError("Computed scale factor cannot be 0.0")
            elif any_non_zero:
                safe = np_.where(scale_factor == 0, 1.0, scale_factor)
                return img.from_vector(centered_pixels / safe)
            else:
                return img.from_vector(centered_pixels / scale_factor)
        import menpo.feature as mf
        F.patch(ff, "normalize", fb.imgfeature(normalize))
        F.patch(mf, "normalize", ff.normalize)
    else:
        raise KeyError(m)


# ======================================================================================= harness: wrapper logic
def _mk_img(F, cfg, tag="i"):
    shape = tuple(cfg["shape"])
    m = MASKS[cfg["mask"]](shape) if cfg.get("mask") else None
    return K.mk_image(F, cfg["cls"], tag, shape, cfg["ch"], mask=m, landmarks=cfg.get("lm", 0))


def _annotations(F, ob, cfg, img, R, m0, lm_kept, lm_scaled_for):
    """mask and landmarks of the result R of a feature on img (state captured before the call)"""
    from menpo.image import BooleanImage, MaskedImage

    shape = tuple(cfg["shape"])
    new_shape = tuple(R.pixels.shape[1:])
    ob.true("result.shape_consistent", tuple(R.shape) == new_shape)
    masked = isinstance(img, MaskedImage)
    if masked and not isinstance(R, MaskedImage):
        ob.fail("mask.present", "the result of a feature on a MaskedImage is a %s" % type(R).__name__)
        masked = False
    ob.true("landmarks.presence", bool(R.has_landmarks) == bool(cfg.get("lm", 0) > 0))
    if new_shape == shape:
        if cfg.get("lm", 0):
            K.eq_digest(F, ob, "landmarks.carried", K.digest(R.landmarks, "landmarks."), lm_kept)
        if masked:
            ob.true("mask.carried", R.mask.mask.shape == m0.shape and bool(np.array_equal(R.mask.mask, m0)))
    else:
        if len(new_shape) != len(shape):
            ob.fail("result.n_dims", "%s -> %s" % (shape, new_shape))
            return
        if cfg.get("lm", 0):
            K.eq_digest(F, ob, "landmarks.rescaled", K.digest(R.landmarks, "landmarks."), lm_scaled_for(new_shape), tol=1e-9)
        if masked:
            want = BooleanImage(m0.copy()).resize(new_shape).mask
            got = R.mask.mask
            ob.true("mask.resized.shape", got.shape == new_shape and got.dtype == bool)
            ob.true("mask.resized", got.shape == want.shape and bool(np.array_equal(got, want)))
            if m0.all():
                ob.true("mask.resized.all_true_stays", bool(got.all()))
            if not m0.any():
                ob.true("mask.resized.all_false_stays", not bool(got.any()))


def wrapper(F, ob, cfg):
    """f(image) against f(image.pixels): values, purity, class, mask and landmarks"""
    from menpo.image import MaskedImage

    _install(F)
    _mutant(F, cfg)
    name, shape, ch = cfg["feat"], tuple(cfg["shape"]), cfg["ch"]
    f = _resolve(name)
    img = _mk_img(F, cfg)
    px0 = img.pixels.copy()
    m0 = img.mask.mask.copy() if isinstance(img, MaskedImage) else None
    before = K.freeze(K.digest(img))
    lm_kept = K.freeze(_expected_lm_digest(F, img, lambda p: p)) if cfg.get("lm", 0) else None

    def lm_scaled_for(new_shape):
        r = np.array([_ratio(F, n, o) for n, o in zip(new_shape, shape)], dtype=object if F.sym else float)
        return _expected_lm_digest(F, ref_img, lambda p: p * r)

    ref_img = _mk_img(F, cfg)  # same terms, independent object: source of the expected landmark values
    # limit-to-mask semantics of normalize() called directly on a masked image (see META.assumptions)
    direct_masked = (name.startswith("normalize:") or name == "normalize") and m0 is not None and not m0.all()
    a_in = _masked_data(px0, m0) if direct_masked else px0.copy()
    a_snap = K.snapshot(a_in)
    ra = _run(f, a_in)
    K.same_terms(F, ob, "array.input_unchanged", a_snap, a_in)
    ri = _run(f, img)
    K.eq_digest(F, ob, "image.input_unchanged", K.digest(img), before)
    same = ra[0] == ri[0] and (ra[0] == "ok" or ra[1] == ri[1])
    ob.true("same_outcome", same)
    if not same or ra[0] != "ok":
        return
    A, R = ra[1], ri[1]
    ob.true("array.returns_ndarray", isinstance(A, np.ndarray))
    ob.true("image.class", type(R) is type(img))
    if not isinstance(A, np.ndarray) or not hasattr(R, "pixels"):
        return
    if direct_masked:
        ob.true("pixels.shape", R.pixels.shape == px0.shape)
        ob.same("pixels.masked", R.pixels[:, m0], A[..., 0] if A.ndim == 3 else A)
    else:
        ob.true("pixels.shape", R.pixels.shape == A.shape)
        ob.same("pixels", R.pixels, A)
    exp = _expected(name, shape, ch)
    if exp is not None:
        ob.true("documented.channels", R.pixels.shape[0] == exp[0])
        ob.true("documented.shape", tuple(R.pixels.shape[1:]) == tuple(exp[1]))
    _annotations(F, ob, cfg, img, R, m0, lm_kept, lm_scaled_for)
    K.eq_digest(F, ob, "image.input_unchanged_at_end", K.digest(img), before)


# ======================================================================================= harness: concrete dtypes, real kernels
def _conc_pixels(cfg):
    shape, ch = tuple(cfg["shape"]), cfg["ch"]
    n = ch * int(np.prod(shape))
    # fixed, irregular, non-constant data in [0, 1)
    v = (np.arange(1, n + 1, dtype=np.float64) * 0.6180339887498949 + 0.137 * cfg.get("seed", 0)) % 1.0
    return v.reshape((ch,) + shape).astype(cfg["dtype"])


def wrapper_dtype(F, ob, cfg):
    """the same on concrete float32 / float64 data through the real kernels (symbolic landmarks)"""
    from menpo.image import Image, MaskedImage

    _install(F)
    _mutant(F, cfg)
    name, shape, ch = cfg["feat"], tuple(cfg["shape"]), cfg["ch"]
    f = _resolve(name)
    px = _conc_pixels(cfg)
    m0 = MASKS[cfg["mask"]](shape) if cfg.get("mask") else None

    def build():
        im = Image(px.copy(), copy=False) if cfg["cls"] == "Image" else MaskedImage(px.copy(), mask=m0.copy(), copy=False)
        for i in range(cfg.get("lm", 0)):
            im.landmarks["g%d" % i] = K.mk_shape(F, ["PointCloud", "LabelledPointUndirectedGraph"][i % 2],
                                                 "i_lm%d" % i, len(shape), npts=3)
        return im

    img, ref_img = build(), build()
    before = K.freeze(K.digest(img))
    lm_kept = K.freeze(_expected_lm_digest(F, img, lambda p: p)) if cfg.get("lm", 0) else None

    def lm_scaled_for(new_shape):
        r = np.array([_ratio(F, n, o) for n, o in zip(new_shape, shape)], dtype=object if F.sym else float)
        return _expected_lm_digest(F, ref_img, lambda p: p * r)

    direct_masked = (name.startswith("normalize:") or name == "normalize") and m0 is not None and not m0.all()
    a_in = _masked_data(px, m0) if direct_masked else px.copy()
    a_ref = a_in.copy()
    ra = _run(f, a_in)
    ob.true("array.input_unchanged", a_in.dtype == a_ref.dtype and bool(np.array_equal(a_in, a_ref)))
    ri = _run(f, img)
    ob.true("image.pixels_unchanged", img.pixels.dtype == px.dtype and bool(np.array_equal(img.pixels, px)))
    K.eq_digest(F, ob, "image.input_unchanged", K.digest(img), before)
    same = ra[0] == ri[0] and (ra[0] == "ok" or ra[1] == ri[1])
    ob.true("same_outcome", same)
    if not same or ra[0] != "ok":
        return
    A, R = ra[1], ri[1]
    ob.true("array.returns_ndarray", isinstance(A, np.ndarray))
    ob.true("image.class", type(R) is type(img))
    if not isinstance(A, np.ndarray):
        return
    # under the proxy float64 buffers are object arrays holding plain floats: read them back as float64
    A = npproxy._defloat(A)
    got = npproxy._defloat(R.pixels[:, m0][..., None] if direct_masked else R.pixels)
    ob.true("pixels.shape", got.shape == A.shape)
    ob.true("pixels.dtype_agrees", got.dtype == A.dtype)
    if direct_masked:
        # different memory layout of the masked pixels => different summation order: equal up to rounding
        ob.true("pixels.close", got.shape == A.shape and bool(np.allclose(got, A, rtol=1e-4, atol=1e-5)))
    else:
        ob.true("pixels.identical", got.shape == A.shape and bool(np.array_equal(got, A, equal_nan=True)))
    ob.true("pixels.finite", bool(np.all(np.isfinite(np.asarray(A, dtype=float)))))
    exp = _expected(name, shape, ch)
    if exp is not None:
        ob.true("documented.channels", R.pixels.shape[0] == exp[0])
        ob.true("documented.shape", tuple(R.pixels.shape[1:]) == tuple(exp[1]))
    _annotations(F, ob, cfg, img, R, m0, lm_kept, lm_scaled_for)


# ======================================================================================= harness: window centres
def _grid(cfg):
    (H, W), r = cfg["shape"], cfg["r"]
    rows = list(range(r, H - r, cfg["step"][0]))[: cfg.get("max_rows", 99)]
    cols = list(range(r, W - r, cfg["step"][1]))[: cfg.get("max_cols", 99)]
    return rows, cols


def _window_kernel(cfg):
    rows, cols = _grid(cfg)

    def kernel(pixels, gain=3.0):
        cy, cx = np.meshgrid(np.array(rows), np.array(cols), indexing="ij")
        centres = np.stack([cy, cx], axis=-1)
        return pixels[:, cy, cx] * gain - 1.0, centres

    return kernel


def centres(F, ob, cfg):
    """winitfeature: result sampled on a grid of window centres; mask sampled at the centres; landmarks
    expressed in units of windows relative to the first centre"""
    from menpo.feature.base import winitfeature
    from menpo.image import MaskedImage

    _install(F)
    _mutant(F, cfg)
    shape = tuple(cfg["shape"])
    rows, cols = _grid(cfg)
    kernel = _window_kernel(cfg)
    f = winitfeature(kernel)
    img = _mk_img(F, cfg)
    ref_img = _mk_img(F, cfg)
    px0 = img.pixels.copy()
    m0 = img.mask.mask.copy() if isinstance(img, MaskedImage) else None
    before = K.freeze(K.digest(img))
    a_in = px0.copy()
    A = f(a_in)
    K.same_terms(F, ob, "array.input_unchanged", K.snapshot(px0), a_in)
    R = f(img)
    K.eq_digest(F, ob, "image.input_unchanged", K.digest(img), before)
    ob.true("array.returns_ndarray", isinstance(A, np.ndarray))
    ob.true("image.class", type(R) is type(img))
    ob.true("pixels.shape", R.pixels.shape == A.shape and A.shape == (cfg["ch"], len(rows), len(cols)))
    ob.same("pixels", R.pixels, A)
    ob.same("pixels.values", A, kernel(px0.copy())[0])
    if m0 is not None:
        want = m0[np.array(rows)][:, np.array(cols)]
        ob.true("mask.sampled_at_centres", R.mask.mask.shape == want.shape and bool(np.array_equal(R.mask.mask, want)))
    ob.true("landmarks.presence", bool(R.has_landmarks) == bool(cfg.get("lm", 0) > 0))
    if not cfg.get("lm", 0) or not R.has_landmarks:
        return
    c0 = [rows[0], cols[0]]
    steps = [(rows[1] - rows[0]) if len(rows) > 1 else None, (cols[1] - cols[0]) if len(cols) > 1 else None]
    got = K.digest(R.landmarks, "landmarks.")
    old = K.digest(ref_img.landmarks, "landmarks.")
    ob.true("landmarks.keys", [k for k, _ in got] == [k for k, _ in old])
    if [k for k, _ in got] != [k for k, _ in old]:
        return
    for (k, g), (_, o) in zip(got, old):
        if not k.endswith("points"):
            K.eq_digest(F, ob, "landmarks.structure", [(k, g)], [(k, o)])
            continue
        for ax in range(2):
            if steps[ax] is not None:
                want = (o[:, ax] - c0[ax]) * _ratio(F, 1, steps[ax])
                ob.eq("%s.axis%d=(p-c0)/step" % (k, ax), g[:, ax], want, tol=1e-9)
            else:
                # a single row/column of windows: the scale is arbitrary, but the first centre is the origin
                n = o.shape[0]
                for i in range(n):
                    j = (i + 1) % n
                    ob.eq("%s.axis%d.origin_at_centre[%d]" % (k, ax, i), g[i, ax] * (o[j, ax] - c0[ax]),
                          g[j, ax] * (o[i, ax] - c0[ax]), tol=1e-9)


# ======================================================================================= harness: normalisers
def _mean(F, a):
    a = np.asarray(a)
    return a.sum() * fractions.Fraction(1, a.size) if F.sym else a.sum() / a.size


def _stats(F, X, stat, mode, sym_scale):
    """independent oracle: (centred data (C, N), list of groups (row index arrays), scale per group)"""
    C, N = X.shape
    if mode == "all":
        groups = [list(range(C))]
        cen = X - (_mean(F, X) if F.sym else np.mean(X))
    else:
        groups = [[c] for c in range(C)]
        if F.sym:
            cen = np.array([list(X[c] - _mean(F, X[c])) for c in range(C)], dtype=object)
        else:
            cen = X - np.mean(X, axis=1, keepdims=True)
    scales = []
    for gi, g in enumerate(groups):
        d = cen[g]
        if stat == "none":
            s = 1.0
        elif stat == "const":
            s = 2.0
        elif stat == "sym":
            s = sym_scale[gi]
        elif F.sym:
            ss = (d * d).sum()
            if stat == "var":
                s = ss * fractions.Fraction(1, d.size)
            elif stat == "std":
                s = F.sqrt(Sym.of(ss * fractions.Fraction(1, d.size)))
            else:
                s = F.sqrt(Sym.of(ss))
        else:
            # the same numpy statistic of the centred data, evaluated as numpy evaluates it
            ax = None if mode == "all" else 1
            s = {"var": np.var, "std": np.std, "norm": np.linalg.norm}[stat](d, axis=ax)
            s = float(np.asarray(s).ravel()[0])
        scales.append(s)
    return cen, groups, scales


def normaliser(F, ob, cfg):
    """zero mean, requested scale statistic, idempotence, zero-scale policy; array path = image path"""
    import menpo.feature as mf
    from menpo.image import MaskedImage

    _install(F)
    _mutant(F, cfg)
    stat, mode, err = cfg["stat"], cfg["mode"], cfg["err"]
    shape, ch = tuple(cfg["shape"]), cfg["ch"]
    img = _mk_img(F, cfg)
    px0 = img.pixels.copy()
    m0 = img.mask.mask.copy() if isinstance(img, MaskedImage) else None
    before = K.freeze(K.digest(img))
    n_groups = 1 if mode == "all" else ch
    sym_scale = None
    if stat == "sym":
        sym_scale = [F.real("scale%d" % g, -2, 2) for g in range(n_groups)]
    if stat in ("none", "const", "sym"):
        if stat == "none":
            sf = None
        elif stat == "const":
            def sf(x, axis=None):
                return np.array([2.0])
        else:
            def sf(x, axis=None):
                return np.array(list(sym_scale), dtype=object if F.sym else float)

        def f(x):
            return mf.normalize(x, scale_func=sf, mode=mode, error_on_divide_by_zero=err)
        direct = True
    else:
        fn = {"std": mf.normalize_std, "var": mf.normalize_var, "norm": mf.normalize_norm}[stat]

        def f(x):
            return fn(x, mode=mode, error_on_divide_by_zero=err)
        direct = False
    # data the statistic ranges over: normalize() called directly on a masked image is limited to the mask
    limited = direct and m0 is not None and not m0.all()
    data = _masked_data(px0, m0) if limited else px0
    X = data.reshape(ch, -1)
    cen, groups, scales = _stats(F, X, stat, mode, sym_scale)
    zero = [bool(s == 0) for s in scales]
    a_in = data.copy()
    a_snap = K.snapshot(a_in)
    ra = _run_any(f, a_in)
    K.same_terms(F, ob, "array.input_unchanged", a_snap, a_in)
    ri = _run_any(f, img)
    K.eq_digest(F, ob, "image.input_unchanged", K.digest(img), before)
    if any(zero) and not err:
        # the caller asked for zero scales to be skipped: nothing may be raised, whatever the exception type
        if ra[0] != "ok" or ri[0] != "ok":
            ob.fail("zero_scale.skipped_as_requested", "array path: %s; image path: %s" % (
                ra[1] if ra[0] != "ok" else "ok", ri[1] if ri[0] != "ok" else "ok"))
            return
    for r in (ra, ri):
        if r[0] == "crash":
            raise r[2]
    same = ra[0] == ri[0]
    ob.true("same_outcome", same)
    refused = ra[0] == "err" or ri[0] == "err"
    ob.true("zero_scale.refused_iff_requested", refused == (bool(err) and any(zero)))
    if refused or not same:
        return
    A, R = ra[1], ri[1]
    ob.true("image.class", type(R) is type(img))
    ob.true("pixels.shape", A.shape == data.shape and R.pixels.shape == px0.shape)
    if A.shape != data.shape or R.pixels.shape != px0.shape:
        return
    got_img = R.pixels[:, m0][..., None] if limited else R.pixels
    ob.same("pixels", got_img, A)
    if not F.sym:
        ob.true("finite", bool(np.all(np.isfinite(np.asarray(A, dtype=float)))))
    Y = A.reshape(ch, -1)
    for gi, g in enumerate(groups):
        y, c, s = Y[g], cen[g], scales[gi]
        if zero[gi]:
            ob.eq("group%d.zero_scale.left_centred_unscaled" % gi, y, c)
            continue
        ob.eq("group%d.result*scale=centred" % gi, y * s, c)
        ob.eq("group%d.mean=0" % gi, _mean(F, y), 0)
        if stat == "std":
            ob.eq("group%d.variance=1" % gi, _mean(F, y * y), 1)
        elif stat == "norm":
            ob.eq("group%d.sum_squares=1" % gi, (y * y).sum(), 1)
        elif stat == "var":
            ob.eq("group%d.result*variance=centred" % gi, y * _mean(F, c * c), c)
    # annotations
    if m0 is not None:
        ob.true("mask.carried", bool(np.array_equal(R.mask.mask, m0)))
    ob.true("landmarks.presence", bool(R.has_landmarks) == bool(cfg.get("lm", 0) > 0))
    if cfg.get("lm", 0):
        K.eq_digest(F, ob, "landmarks.carried", K.digest(R.landmarks, "landmarks."),
                    [x for x in before if x[0].startswith("landmarks.")])
    # a second application changes nothing (unit std / unit norm data is a fixed point)
    if stat in ("std", "norm") and cfg.get("twice", True) and not any(zero):
        r2 = _run(f, A.copy())
        ob.true("twice.accepted", r2[0] == "ok")
        if r2[0] == "ok":
            ob.eq("twice.identity", r2[1], A)
        if cfg.get("twice_image"):
            r3 = _run(f, R)
            ob.true("twice.image.accepted", r3[0] == "ok")
            if r3[0] == "ok":
                ob.eq("twice.image.identity", r3[1].pixels, R.pixels)


# ======================================================================================= instances
SELFTEST = [
    ("wrapper", {"feat": "nd_halve", "cls": "MaskedImage", "mask": "most", "shape": [3, 4], "ch": 2, "lm": 2, "selftest_mutant": "drop_landmarks_on_resize"}),
    ("wrapper", {"feat": "daisy:d1", "cls": "Image", "shape": [4, 4], "ch": 1, "lm": 1, "selftest_mutant": "inverse_scale"}),
    ("wrapper", {"feat": "gradient", "cls": "MaskedImage", "mask": "sparse", "shape": [2, 3], "ch": 2, "lm": 2, "selftest_mutant": "unmasked_result"}),
    ("wrapper", {"feat": "nd_halve", "cls": "MaskedImage", "mask": "sparse", "shape": [3, 4], "ch": 2, "lm": 2, "selftest_mutant": "mask_not_resized"}),
    ("wrapper", {"feat": "normalize_std:all", "cls": "Image", "shape": [2, 3], "ch": 1, "lm": 1, "selftest_mutant": "inplace_centering"}),
    ("wrapper_dtype", {"feat": "normalize_std:per_channel", "cls": "MaskedImage", "mask": "most", "shape": [5, 6], "ch": 3, "dtype": "float32", "lm": 1, "selftest_mutant": "inplace_centering"}),
    ("wrapper", {"feat": "daisy:d6", "cls": "Image", "shape": [6, 5], "ch": 1, "lm": 1, "selftest_mutant": "daisy_ignores_ring_radii"}),
    ("wrapper", {"feat": "double_igo", "cls": "Image", "shape": [2, 3], "ch": 1, "lm": 1, "selftest_mutant": "double_igo_single"}),
    ("normaliser", {"stat": "std", "mode": "all", "err": True, "cls": "Image", "shape": [2, 2], "ch": 1, "lm": 1, "selftest_mutant": "population_vs_sample"}),
    ("normaliser", {"stat": "sym", "mode": "per_channel", "err": False, "cls": "Image", "shape": [2, 2], "ch": 2, "lm": 1, "selftest_mutant": "skip_scales_nothing"}),
    ("centres", {"shape": [5, 6], "r": 1, "step": [1, 2], "cls": "Image", "ch": 1, "lm": 1, "selftest_mutant": "centres_no_translation"}),
]


def instances(tier):
    if os.environ.get("C18_SELFTEST"):
        # developer self test: every instance below patches a plausible bug into menpo and must be reported as a
        # VIOLATION.  Never part of a normal run.
        return list(SELFTEST)
    quick = tier == "quick"
    out = []
    same_size = ["gradient", "gaussian_filter", "igo", "double_igo", "es", "no_op", "normalize:all",
                 "normalize:per_channel", "normalize_std:all", "normalize_std:per_channel", "normalize_var:all",
                 "normalize_var:per_channel", "normalize_norm:all", "normalize_norm:per_channel",
                 "igo.gauss", "std.gradient", "img_kernel"]
    if not quick:
        same_size += ["igo_da", "gaussian_filter_aniso", "es.igo"]
    resizing = ["nd_halve", "nd_grow", "img_kernel.nd_halve", "nd_halve.gradient"]
    # ---- symbolic pixels, symbolic landmarks
    for ft in same_size:
        out.append(("wrapper", {"feat": ft, "cls": "Image", "shape": [2, 3], "ch": 1, "lm": 1}))
        out.append(("wrapper", {"feat": ft, "cls": "MaskedImage", "mask": "sparse", "shape": [2, 3], "ch": 2, "lm": 2}))
        if not quick:
            out.append(("wrapper", {"feat": ft, "cls": "MaskedImage", "mask": "all", "shape": [3, 2], "ch": 1, "lm": 0}))
            out.append(("wrapper", {"feat": ft, "cls": "MaskedImage", "mask": "single", "shape": [2, 2], "ch": 3, "lm": 1}))
            out.append(("wrapper", {"feat": ft, "cls": "Image", "shape": [3, 3], "ch": 2, "lm": 2}))
    out.append(("wrapper", {"feat": "normalize:all", "cls": "MaskedImage", "mask": "all", "shape": [2, 3], "ch": 1, "lm": 1}))
    out.append(("wrapper", {"feat": "gradient", "cls": "MaskedImage", "mask": "all", "shape": [2, 3], "ch": 1, "lm": 0}))
    out.append(("wrapper", {"feat": "nd_halve", "cls": "Image", "shape": [3, 4], "ch": 1, "lm": 0}))
    for ft in resizing:
        out.append(("wrapper", {"feat": ft, "cls": "Image", "shape": [3, 4], "ch": 1, "lm": 1}))
        out.append(("wrapper", {"feat": ft, "cls": "MaskedImage", "mask": "sparse", "shape": [3, 4], "ch": 2, "lm": 2}))
        if not quick:
            out.append(("wrapper", {"feat": ft, "cls": "MaskedImage", "mask": "most", "shape": [3, 4], "ch": 2, "lm": 2}))
            out.append(("wrapper", {"feat": ft, "cls": "MaskedImage", "mask": "all", "shape": [2, 5], "ch": 1, "lm": 1}))
            out.append(("wrapper", {"feat": ft, "cls": "MaskedImage", "mask": "none", "shape": [4, 4], "ch": 1, "lm": 0}))
            out.append(("wrapper", {"feat": ft, "cls": "Image", "shape": [5, 3], "ch": 3, "lm": 2}))
    daisies = [("daisy:d1", [4, 4]), ("daisy:d2", [5, 4]), ("daisy:d5", [4, 5]), ("daisy.no_op", [4, 5])]
    if not quick:
        daisies += [("daisy:d3", [5, 6]), ("daisy:d4", [4, 4]), ("daisy:d2", [6, 6]), ("gradient.daisy", [4, 5]),
                    ("daisy:d1", [3, 5]), ("daisy:d6", [6, 5])]
    for ft, shp in daisies:
        out.append(("wrapper", {"feat": ft, "cls": "Image", "shape": shp, "ch": 1, "lm": 1}))
        out.append(("wrapper", {"feat": ft, "cls": "MaskedImage", "mask": "sparse", "shape": shp, "ch": 1 if quick else 2, "lm": 2}))
        if not quick:
            out.append(("wrapper", {"feat": ft, "cls": "MaskedImage", "mask": "all", "shape": shp, "ch": 1, "lm": 1}))
            out.append(("wrapper", {"feat": ft, "cls": "MaskedImage", "mask": "most", "shape": shp, "ch": 1, "lm": 0}))
    if not quick:
        for ft in ("gradient", "no_op", "gaussian_filter", "nd_halve", "normalize_std:all"):
            out.append(("wrapper", {"feat": ft, "cls": "MaskedImage", "mask": "sparse", "shape": [2, 2, 2], "ch": 1, "lm": 1}))
    # ---- concrete dtypes through the real kernels
    dt_feats = ["gradient", "gaussian_filter", "igo", "double_igo", "es", "no_op", "daisy:d1", "daisy:d2", "daisy:d5",
                "normalize:all", "normalize_std:per_channel", "normalize_norm:all", "normalize_var:per_channel",
                "igo.gauss", "nd_halve"]
    for ft in dt_feats:
        for dt in ("float32", "float64"):
            chans = (3,) if quick else (1, 2, 3, 4)
            for c in chans:
                for cls in (("MaskedImage",) if quick else ("Image", "MaskedImage")):
                    cfg = {"feat": ft, "cls": cls, "shape": [5, 6], "ch": c, "dtype": dt, "lm": 1}
                    if cls == "MaskedImage":
                        cfg["mask"] = "most"
                    out.append(("wrapper_dtype", cfg))
    # ---- window centres
    grids = [{"shape": [5, 6], "r": 1, "step": [1, 2]}, {"shape": [6, 7], "r": 2, "step": [1, 1]}]
    if not quick:
        grids += [{"shape": [7, 7], "r": 1, "step": [3, 2]}, {"shape": [5, 6], "r": 2, "step": [1, 1]},
                  {"shape": [6, 6], "r": 1, "step": [2, 2], "max_cols": 1}, {"shape": [6, 6], "r": 2, "step": [2, 1], "max_rows": 1}]
    for g in grids:
        out.append(("centres", dict(g, cls="Image", ch=1, lm=1)))
        out.append(("centres", dict(g, cls="MaskedImage", mask="most", ch=2, lm=2)))
        if not quick:
            out.append(("centres", dict(g, cls="MaskedImage", mask="sparse", ch=1, lm=0)))
    # ---- normalisers
    for stat in ("none", "const", "sym", "std", "var", "norm"):
        for mode in ("all", "per_channel"):
            for err in (True, False):
                if stat in ("none", "const") and not err:
                    continue
                combos = [("Image", None, [2, 2], 1), ("MaskedImage", "most", [2, 2], 2)]
                if not quick:
                    combos += [("Image", None, [1, 3], 2), ("MaskedImage", "all", [1, 3], 1), ("Image", None, [2, 2], 2),
                               ("MaskedImage", "sparse", [2, 2], 1)]
                for cls, mask, shp, c in combos:
                    cfg = {"stat": stat, "mode": mode, "err": err, "cls": cls, "shape": shp, "ch": c, "lm": 1}
                    if not quick and stat in ("std", "norm") and cls == "Image":
                        cfg["twice_image"] = True
                    if mask:
                        cfg["mask"] = mask
                    out.append(("normaliser", cfg))
    return out
