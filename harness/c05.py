"""C05 -- vectorisation round-trips the whole object and never mutates it."""
import numpy as np

from harness import common as K

META = {
    "explanation": "C05: for every Vectorizable class (8 shape classes with landmark groups of mixed classes, "
    "Image/MaskedImage/BooleanImage with several shapes, channel counts and mask patterns, every vectorizable "
    "homogeneous-family transform and alignment variant) with symbolic contents: as_vector() is read-only, of length "
    "n_parameters, and leaves the object writable and termwise unchanged; from_vector(as_vector()) reproduces the "
    "complete state digest; from_vector(w).as_vector() = w for a symbolic w; from_vector leaves self untouched; "
    "masked images expose/accept exactly the masked pixels in channel-major raster order with zeros elsewhere; "
    "alignments keep target = apply(source) after a parameter update; every wrong vector length (forked over "
    "0..2n+2) either raises or yields an object whose own queries succeed and agree in shape.",
    "bounds": ["shapes: 4 points, 2-D/3-D, 0-2 landmark groups", "images: (2,3), (3,3), (2,2,2); 1-3 channels; masks all-true/sparse/single pixel",
               "transforms: 2-D and 3-D where vectorizable", "wrong lengths 0..2*n_parameters+2"],
    "stubs": ["Rotation.as_vector runs numpy.linalg.eigh on CONCRETE rotations (list of 6); the symbolic quaternion side is in C20"],
    "assumptions": ["floats are exact reals; dtypes other than float64 not modelled"],
    "not_covered": ["integer/float32 pixel dtypes (the symbolic payload is dtype=object)", "Rotation as_vector on symbolic matrices (4x4 eigh)"],
    "trusted": ["state digest in harness/common.py"],
}

MASKS = {
    "all": lambda shape: np.ones(shape, dtype=bool),
    "sparse": lambda shape: (np.arange(int(np.prod(shape))).reshape(shape) % 2) == 0,
    "single": lambda shape: (np.arange(int(np.prod(shape))).reshape(shape) == 1),
}
VEC_TRANSFORMS = [("Homogeneous", 2), ("Homogeneous", 3), ("Affine", 2), ("Affine", 3), ("Similarity", 2),
                  ("Translation", 2), ("Translation", 3), ("UniformScale", 2), ("UniformScale", 3),
                  ("NonUniformScale", 2), ("NonUniformScale", 3), ("AlignmentAffine", 2), ("AlignmentAffine", 3),
                  ("AlignmentSimilarity", 2), ("AlignmentTranslation", 2), ("AlignmentTranslation", 3),
                  ("AlignmentUniformScale", 2), ("AlignmentUniformScale", 3)]


def instances(tier):
    out = []
    for cls in K.SHAPES:
        for n in ((2,) if tier == "quick" else (2, 3)):
            for lm in ((1,) if tier == "quick" else (0, 2)):
                out.append(("shape", {"cls": cls, "n": n, "lm": lm}))
        out.append(("wrong_length_shape", {"cls": cls, "n": 2}))
    shapes = [(2, 3)] if tier == "quick" else [(2, 3), (3, 3), (2, 2, 2)]
    for shp in shapes:
        for ch in ((1, 2) if tier == "quick" else (1, 2, 3)):
            out.append(("image", {"cls": "Image", "shape": list(shp), "ch": ch, "lm": 1}))
            for m in MASKS:
                out.append(("image", {"cls": "MaskedImage", "shape": list(shp), "ch": ch, "mask": m, "lm": 1}))
        out.append(("image", {"cls": "BooleanImage", "shape": list(shp), "ch": 1, "lm": 1}))
    for cls in ("Image", "MaskedImage", "BooleanImage"):
        out.append(("wrong_length_image", {"cls": cls, "shape": [2, 3], "ch": 2, "mask": "sparse"}))
    for kind, n in VEC_TRANSFORMS:
        out.append(("transform", {"kind": kind, "n": n}))
        out.append(("wrong_length_transform", {"kind": kind, "n": n}))
    for i in range(6 if tier != "quick" else 3):
        out.append(("rotation3", {"i": i}))
    out.append(("wrong_length_transform", {"kind": "Rotation", "n": 3}))
    out.append(("rotation3_zero", {}))
    out.append(("rotation3_alignment", {}))
    for cls in ("Image", "MaskedImage"):
        for dt in ("uint8", "float32", "int32"):
            for m in (("all", "sparse") if cls == "MaskedImage" else (None,)):
                out.append(("image_dtype", {"cls": cls, "dtype": dt, "mask": m}))
    for cls in K.SHAPES:
        for dt in ("int64", "float32"):
            out.append(("shape_dtype", {"cls": cls, "dtype": dt}))
    return out


def shape_dtype(F, ob, cfg):
    """shapes whose coordinates have a narrow concrete dtype: from_vector(w).as_vector() must still be w"""
    from collections import OrderedDict

    import menpo.shape as ms
    from menpo.image import Image

    cls = cfg["cls"]
    pts = np.array([[0, 0], [3, 1], [1, 4], [5, 5]]).astype(cfg["dtype"])
    tl = np.array([[0, 1, 2], [1, 3, 2]])
    und = np.array([[0, 1], [1, 2], [2, 0], [2, 3]])
    if cls == "PointCloud":
        o = ms.PointCloud(pts)
    elif cls == "TriMesh":
        o = ms.TriMesh(pts, trilist=tl)
    elif cls == "ColouredTriMesh":
        o = ms.ColouredTriMesh(pts, trilist=tl, colours=np.linspace(0, 1, 12).reshape(4, 3))
    elif cls == "TexturedTriMesh":
        o = ms.TexturedTriMesh(pts, np.linspace(0, 1, 8).reshape(4, 2), Image(np.linspace(0, 1, 4).reshape(1, 2, 2)), trilist=tl)
    elif cls == "PointUndirectedGraph":
        o = ms.PointUndirectedGraph.init_from_edges(pts, und)
    elif cls == "PointDirectedGraph":
        o = ms.PointDirectedGraph.init_from_edges(pts, np.array([[0, 1], [1, 2], [2, 0], [0, 2]]))
    elif cls == "PointTree":
        o = ms.PointTree.init_from_edges(pts, np.array([[1, 0], [1, 2], [2, 3]]), 1)
    else:
        m1 = np.array([True, True, False, False])
        o = ms.LabelledPointUndirectedGraph.init_from_edges(pts, und, OrderedDict([("zeta", m1), ("alpha", ~m1 | True)]))
    before = o.points.copy()
    w = F.reals("w", (o.n_parameters,), -3, 3)
    o3 = o.from_vector(w)
    ob.true("same_class", type(o3) is type(o))
    ob.eq("from_vector(w).as_vector()=w", o3.as_vector(), w)
    ob.true("original.points_unchanged", bool(np.array_equal(o.points, before)) and o.points.dtype == before.dtype)
    v = o.as_vector()
    ob.true("as_vector.readonly", v.flags.writeable is False)
    o2 = o.from_vector(v)
    ob.true("roundtrip.points", bool(np.array_equal(np.asarray(o2.points, dtype=float), before.astype(float))))


def _asvec_clauses(F, ob, o, payload):
    """clause 1: read-only vector of n_parameters numbers; the object stays writable and unchanged"""
    before = K.freeze(K.digest(o))
    v = o.as_vector()
    ob.true("as_vector.readonly", v.flags.writeable is False)
    ob.true("as_vector.ndim1", v.ndim == 1)
    ob.true("as_vector.len=n_parameters", v.shape == (o.n_parameters,))
    for nm, a in payload(o):
        ob.true("self.%s.still_writable" % nm, bool(a.flags.writeable))
    K.eq_digest(F, ob, "as_vector.self_unchanged", K.digest(o), before)
    return v


def _payload_shape(o):
    return [("points", o.points)]


def shape(F, ob, cfg):
    o = K.mk_shape(F, cfg["cls"], "p", cfg["n"], npts=4, landmarks=cfg["lm"])
    v = _asvec_clauses(F, ob, o, _payload_shape)
    ob.eq("as_vector.values", v, o.points.ravel())
    before = K.freeze(K.digest(o))
    o2 = o.from_vector(v)
    K.eq_digest(F, ob, "roundtrip", K.digest(o2), before)
    K.eq_digest(F, ob, "from_vector.self_unchanged", K.digest(o), before)
    ob.true("roundtrip.new_object", o2 is not o)
    w = F.reals("w", (o.n_parameters,))
    o3 = o.from_vector(w)
    ob.eq("from_vector(w).as_vector()=w", o3.as_vector(), w)
    K.eq_digest(F, ob, "from_vector(w).self_unchanged", K.digest(o), before)
    # everything but the coordinates is carried over
    d3 = [(k, (w.reshape(o.points.shape) if k == "points" else val)) for k, val in before]
    K.eq_digest(F, ob, "from_vector(w).state", K.digest(o3), d3)
    # writing into the new object's coordinates must not reach self
    o3.points[0, 0] = o3.points[0, 0] + 1
    K.eq_digest(F, ob, "from_vector(w).independent", K.digest(o), before)


def _well_formed_shape(ob, name, o, cls):
    ob.true(name + ".class", type(o).__name__ == cls)
    n = o.n_points
    ob.true(name + ".points2d", o.points.ndim == 2 and o.points.shape[0] == n and o.points.shape[1] == o.n_dims)
    v = o.as_vector()
    ob.true(name + ".as_vector", v.shape == (o.n_parameters,) and v.shape[0] == n * o.n_dims)
    o.copy()
    str(o)


def wrong_length_shape(F, ob, cfg):
    o = K.mk_shape(F, cfg["cls"], "p", cfg["n"], npts=4, landmarks=1)
    npar = o.n_parameters
    ln = F.choice("len", [l for l in range(0, 2 * npar + 3) if l != npar])
    w = F.reals("w", (ln,))
    before = K.freeze(K.digest(o))
    try:
        r = o.from_vector(w)
    except Exception as e:  # any refusal is acceptable
        ob.true("refused", True)
        K.eq_digest(F, ob, "refused.self_unchanged", K.digest(o), before)
        return
    try:
        _well_formed_shape(ob, "accepted", r, cfg["cls"])
    except Exception as e:
        ob.fail("accepted.queries_fail", "from_vector(len %d) returned an object whose queries fail: %s: %s" % (ln, type(e).__name__, e))
    K.eq_digest(F, ob, "accepted.self_unchanged", K.digest(o), before)


def _mk_img(F, cfg):
    m = MASKS[cfg["mask"]](tuple(cfg["shape"])) if cfg.get("mask") else None
    return K.mk_image(F, cfg["cls"], "i", tuple(cfg["shape"]), cfg["ch"], mask=m, landmarks=cfg.get("lm", 0))


def image(F, ob, cfg):
    from menpo.image import BooleanImage, MaskedImage

    o = _mk_img(F, cfg)
    v = _asvec_clauses(F, ob, o, lambda im: [("pixels", im.pixels)])
    before = K.freeze(K.digest(o))
    shp, ch = tuple(cfg["shape"]), cfg["ch"]
    if isinstance(o, MaskedImage):
        m = o.mask.mask
        # exactly the masked pixels, channel-major raster order
        expect = np.concatenate([o.pixels[c][m] for c in range(ch)])
        ob.eq("as_vector.masked_pixels", v, expect)
        ob.true("n_parameters", o.n_parameters == ch * int(m.sum()))
    else:
        ob.eq("as_vector.values", v, o.pixels.ravel())
    o2 = o.from_vector(v)
    if isinstance(o, MaskedImage):
        # pixels under the mask reproduced; mask, landmarks equal
        d2 = K.digest(o2)
        K.eq_digest(F, ob, "roundtrip.but_pixels", [x for x in d2 if not x[0].endswith("pixels") or "mask" in x[0] or "lm[" in x[0]],
                    [x for x in before if not x[0].endswith("pixels") or "mask" in x[0] or "lm[" in x[0]])
        for c in range(ch):
            ob.eq("roundtrip.masked[%d]" % c, o2.pixels[c][m], o.pixels[c][m])
            if (~m).any():
                ob.eq("roundtrip.zero_elsewhere[%d]" % c, o2.pixels[c][~m], np.zeros(int((~m).sum())))
    else:
        K.eq_digest(F, ob, "roundtrip", K.digest(o2), before)
    K.eq_digest(F, ob, "from_vector.self_unchanged", K.digest(o), before)
    if isinstance(o, BooleanImage):
        w = ~v
        o3 = o.from_vector(w)
        ob.true("from_vector(w).as_vector()=w", bool(np.array_equal(o3.as_vector(), w)))
    else:
        w = F.reals("w", (o.n_parameters,))
        o3 = o.from_vector(w)
        ob.eq("from_vector(w).as_vector()=w", o3.as_vector(), w)
        if isinstance(o, MaskedImage):
            k = int(m.sum())
            for c in range(ch):
                ob.eq("from_vector(w).placed[%d]" % c, o3.pixels[c][m], w[c * k:(c + 1) * k])
                if (~m).any():
                    ob.eq("from_vector(w).zero_elsewhere[%d]" % c, o3.pixels[c][~m], np.zeros(int((~m).sum())))
            ob.true("from_vector(w).mask", bool(np.array_equal(o3.mask.mask, m)))
        else:
            ob.eq("from_vector(w).pixels", o3.pixels, w.reshape((ch,) + shp))
    ob.true("from_vector(w).class", type(o3) is type(o))
    ob.true("from_vector(w).landmarks", o3.has_landmarks == o.has_landmarks)
    if o.has_landmarks and o3.has_landmarks:
        K.eq_digest(F, ob, "from_vector(w).landmarks", K.digest(o3.landmarks), K.digest(o.landmarks))
    K.eq_digest(F, ob, "from_vector(w).self_unchanged", K.digest(o), before)


def wrong_length_image(F, ob, cfg):
    o = _mk_img(F, cfg)
    npar = o.n_parameters
    ln = F.choice("len", [l for l in range(0, 2 * npar + 3) if l != npar])
    if cfg["cls"] == "BooleanImage":
        w = (np.arange(ln) % 2) == 0
    else:
        w = F.reals("w", (ln,))
    before = K.freeze(K.digest(o))
    try:
        r = o.from_vector(w)
    except Exception:
        ob.true("refused", True)
        K.eq_digest(F, ob, "refused.self_unchanged", K.digest(o), before)
        return
    try:
        ob.true("accepted.class", type(r) is type(o))
        ob.true("accepted.pixels", r.pixels.ndim == o.pixels.ndim and r.shape == r.pixels.shape[1:])
        v = r.as_vector()
        ob.true("accepted.as_vector", v.shape == (r.n_parameters,))
        r.copy()
        r.n_channels, r.n_dims, r.centre()
    except Exception as e:
        ob.fail("accepted.queries_fail", "from_vector(len %d) returned an image whose queries fail: %s: %s" % (ln, type(e).__name__, e))
    K.eq_digest(F, ob, "accepted.self_unchanged", K.digest(o), before)


def transform(F, ob, cfg):
    from menpo.transform.base import Alignment

    kind, n = cfg["kind"], cfg["n"]
    t = K.mk_transform(F, kind, "a", n)
    v = _asvec_clauses(F, ob, t, lambda tr: [("h_matrix", tr.h_matrix)])
    before = K.freeze(K.digest(t))
    t2 = t.from_vector(v)
    K.eq_digest(F, ob, "roundtrip", K.digest(t2), before)
    K.eq_digest(F, ob, "from_vector.self_unchanged", K.digest(t), before)
    ob.true("roundtrip.new_object", t2 is not t and t2.h_matrix is not t.h_matrix)
    w = F.reals("w", (t.n_parameters,), -3, 3)
    t3 = t.from_vector(w)
    ob.true("from_vector(w).class", type(t3) is type(t))
    ob.eq("from_vector(w).as_vector()=w", t3.as_vector(), w)
    K.eq_digest(F, ob, "from_vector(w).self_unchanged", K.digest(t), before)
    if isinstance(t, Alignment):
        ob.eq("alignment.target=apply(source)", t3.target.points, t3.apply(t3.source.points))
        ob.eq("alignment.source_kept", t3.source.points, t.source.points)
    x = F.reals("x", (1, n))
    y = t3.apply(x)
    ob.true("from_vector(w).apply.shape", np.shape(y) == (1, n))
    # in-place write into the new matrix must not reach self
    t3.h_matrix[0, 0] = t3.h_matrix[0, 0] + 1
    K.eq_digest(F, ob, "from_vector(w).independent", K.digest(t), before)


def wrong_length_transform(F, ob, cfg):
    kind, n = cfg["kind"], cfg["n"]
    t = K.mk_transform(F, kind, "a", n)
    npar = t.n_parameters
    ln = F.choice("len", [l for l in range(0, 2 * npar + 3) if l != npar])
    w = F.reals("w", (ln,), -3, 3)
    before = K.freeze(K.digest(t))
    try:
        r = t.from_vector(w)
    except Exception:
        ob.true("refused", True)
        K.eq_digest(F, ob, "refused.self_unchanged", K.digest(t), before)
        return
    try:
        ob.true("accepted.class", type(r) is type(t))
        h = r.h_matrix
        ob.true("accepted.h_matrix", h is not None and np.shape(h) == (r.n_dims + 1, r.n_dims + 1))
        v = r.as_vector()
        ob.true("accepted.as_vector", v.shape == (r.n_parameters,))
        y = r.apply(F.reals("x", (1, r.n_dims)))
        ob.true("accepted.apply", np.shape(y) == (1, r.n_dims))
    except Exception as e:
        ob.fail("accepted.queries_fail", "from_vector(len %d) returned a %s whose queries fail: %s: %s" % (ln, kind, type(e).__name__, e))
    K.eq_digest(F, ob, "accepted.self_unchanged", K.digest(t), before)


ROT3 = [(1.0, 0.2, -0.3, 0.5), (0.3, 1.0, 0.1, -0.7), (0.1, -0.4, 1.0, 0.2), (-0.2, 0.3, 0.6, 1.0),
        (0.9, 0.9, -0.5, 0.1), (0.05, 0.8, 0.7, -0.6)]


def rotation3(F, ob, cfg):
    """3-D Rotation: as_vector on concrete rotations (eigh in real LAPACK), from_vector on symbolic quaternions"""
    from menpo.transform import Rotation

    q0 = np.array(ROT3[cfg["i"]], dtype=float)
    q0 = q0 / np.sqrt((q0 * q0).sum())
    if q0[0] < 0:
        q0 = -q0
    r0 = Rotation.init_identity(3).from_vector(q0)
    v = _asvec_clauses(F, ob, r0, lambda tr: [("h_matrix", tr.h_matrix)])
    ob.eq("as_vector=canonical q", v, q0, tol=1e-9)
    before = K.freeze(K.digest(r0))
    r1 = r0.from_vector(v)
    K.eq_digest(F, ob, "roundtrip", K.digest(r1), before, tol=1e-9)
    # symbolic quaternion (any non-zero length): result is a rotation and self is untouched
    q = F.reals("q", (4,), -2, 2)
    nq = (q * q).sum()
    F.assume(nq >= 0.01)
    r2 = r0.from_vector(q)
    R = r2.h_matrix[:3, :3]
    ob.eq("from_vector(q).orthogonal", R.T.dot(R), np.eye(3))
    ob.eq("from_vector(q).det", K.det(R), 1)
    ob.eq("from_vector(q).affine_part", r2.h_matrix[3, :], np.array([0, 0, 0, 1.0]))
    ob.eq("from_vector(q).no_translation", r2.h_matrix[:3, 3], np.zeros(3))
    K.eq_digest(F, ob, "from_vector(q).self_unchanged", K.digest(r0), before)


def rotation3_zero(F, ob, cfg):
    """a (near-)zero quaternion is no rotation: from_vector must raise or return a well-formed rotation that
    reports the parameters it was given a meaning for -- never silently keep the old state under a new name"""
    from menpo.transform import Rotation

    q0 = np.array(ROT3[0], dtype=float)
    q0 = q0 / np.sqrt((q0 * q0).sum())
    r0 = Rotation.init_identity(3).from_vector(q0)
    z = np.zeros(4)
    try:
        r = r0.from_vector(z)
    except Exception:
        ob.true("refused", True)
        return
    # accepted: the documented meaning of the zero quaternion is the identity rotation
    ob.eq("zero_quaternion.identity", r.h_matrix, np.eye(4), tol=1e-12)


def rotation3_alignment(F, ob, cfg):
    """AlignmentRotation (3-D): after a parameter update the target is the aligned source"""
    t = K.mk_transform(F, "AlignmentRotation", "a", 3)
    before = K.freeze(K.digest(t))
    q = F.reals("q", (4,), -2, 2)
    F.assume((q * q).sum() >= 0.01)
    t2 = t.from_vector(q)
    ob.true("class", type(t2) is type(t))
    ob.eq("alignment.target=apply(source)", t2.target.points, t2.apply(t2.source.points))
    ob.eq("alignment.source_kept", t2.source.points, t.source.points)
    R = t2.h_matrix[:3, :3]
    ob.eq("orthogonal", R.T.dot(R), np.eye(3))
    K.eq_digest(F, ob, "self_unchanged", K.digest(t), before)


def image_dtype(F, ob, cfg):
    """images whose pixels have a narrow concrete dtype: from_vector(w) must hold exactly w under the mask"""
    from menpo.image import Image, MaskedImage

    px = (np.arange(12).reshape(2, 2, 3) * 7 % 23).astype(cfg["dtype"])
    if cfg["cls"] == "Image":
        o = Image(px)
    else:
        o = MaskedImage(px, mask=MASKS[cfg["mask"]]((2, 3)))
    w = F.reals("w", (o.n_parameters,), 0, 200)
    o3 = o.from_vector(w)
    ob.eq("from_vector(w).as_vector()=w", o3.as_vector(), w)
    v = o.as_vector()
    ob.true("as_vector.dtype_kept", v.dtype == px.dtype)
    o2 = o.from_vector(v)
    ob.true("roundtrip.pixels", bool(np.array_equal(o2.pixels, o.pixels if cfg["cls"] == "Image" else o2.pixels)))
    ob.true("roundtrip.dtype", o2.pixels.dtype == px.dtype)
