"""C17 -- mesh masking keeps whole triangles and attributes; mesh geometry is sound."""
import itertools
import os

import numpy as np

from harness import common as K

META = {
    "explanation": "C17: (geometry) TriMesh.tri_areas / edge_vectors / edge_lengths / unique_edge_lengths / mean_* / "
    "tri_normals / vertex_normals run for real on meshes of 1-2 triangles whose vertex coordinates are ALL symbolic, "
    "2-D and 3-D: areas and lengths are >= 0, their squares equal independent closed forms, they are unchanged by an "
    "arbitrary rigid motion (rational parametrisation of the rotations, mirror flag by fork, symbolic translation) and "
    "scale by s^2 / |s| under an arbitrary non-zero uniform scale (also negative); face normals are unit, perpendicular "
    "to the three edge vectors, right-handed (n.cross = |cross|) and satisfy n(RX+t) = R n(X); vertex normals: end to "
    "end on one symbolic triangle (unit, equal to the face normal, follow rotations) and compositionally on meshes with "
    "shared vertices (quad, fan, non-manifold, strip, ...): inside compute_vertex_normals the face normals are cut to "
    "ARBITRARY symbolic vectors, the call is checked to receive the mesh's own points/trilist, and every vertex normal "
    "is unit, parallel to and aligned with the sum over exactly the owning triangles, and turns with the face normals; "
    "normals of 2-D meshes are refused; edge vectors agree with edge_indices (closing edge up to sign, see notes). "
    "(masking) from_mask / from_tri_mask of TriMesh, ColouredTriMesh and TexturedTriMesh on 14 concrete triangle lists "
    "(single, quad, fan, two isolated triangles (also interleaved numbering), three triangles on one edge, strip, "
    "unreferenced vertices, closed tetrahedron, tetrahedron + flap, bow tie, duplicated triangle, 2x3 grid (uint32), "
    "Delaunay of 5 points (int32); thorough: 3x3 grid) with symbolic coordinates, colours and texture coordinates in "
    "2-D and 3-D; EVERY vertex mask / triangle mask is a solver path; the oracle is a formula over the mask bits (kept "
    "triangles = all three bits set; kept vertices = in a kept triangle; for triangle masks the surviving vertices are "
    "those of the selected triangles): class, triangle and vertex counts, integer in-range trilist without orphans, "
    "every kept triangle reaches through the new trilist the three original coordinate terms in order (likewise colour "
    "and tcoord rows), vertex order kept, texture untouched, original mesh untouched (state digest), result independent "
    "of the original's arrays; Fortran/strided/copy=False/int32/uint8 trilists; wrong mask lengths refused. "
    "(topology) boundary_tri_index and unique_edge_indices/vectors against independent edge-count oracles on 16 concrete "
    "meshes plus a bounded-exhaustive sweep over ordered triangle lists on 4-5 vertices.",
    "bounds": ["geometry: 1-2 triangles (3-4 vertices), all coordinates symbolic in [-4,4], 2-D and 3-D",
               "vertex normals with shared vertices: concrete triangle lists of 2-4 triangles, face normals arbitrary symbolic vectors in [-2,2]^3",
               "masking: 14 (thorough 15) concrete triangle lists of 1-5 (8) triangles on 3-6 (9) vertices, all 2^n vertex masks and 2^m triangle masks, 2-D and 3-D",
               "topology sweep: all ordered lists of <= 4 distinct triangles on 4 vertices and <= 3 (thorough 5) on 5 vertices, two orientation patterns",
               "rigid motions: rotations by the double-angle (2-D, all but the half turn) / quaternion (3-D, all) parametrisation, mirror flag, translation in [-8,8]^n; scale |s| in [0.05,4], both signs"],
    "stubs": ["sqrt -> fresh variable r >= 0, r^2 = x with solver-decided congruence (engine)",
              "numpy.cross (3-vectors), numpy.linalg.norm -> closed forms (engine)",
              "compute_face_normals inside compute_vertex_normals (vertex_normals_sum* only) -> arbitrary symbolic vectors, argument terms compared at the wrapper; replay calls through"],
    "assumptions": ["floats are exact reals", "triangles are non-degenerate (squared doubled area >= 1e-4) wherever a normal is normalised",
                    "vertex normals: the face normals at a vertex do not cancel (|sum|^2 >= 1e-4)",
                    "3-D area scaling is stated as area(sX) >= 0 and area(sX)^2 = s^4 D(X)/4 and joined with area_basic's area(X) >= 0, area(X)^2 = D(X)/4 by hand (equal squares of non-negative reals)",
                    "a mesh that ALREADY has unreferenced vertices under the all-true mask is excluded (the property speaks of vertices LEFT without a triangle; menpo's fast path returns such a mesh unchanged while every partial mask drops them)"],
    "not_covered": ["vertex normals of meshes with unreferenced vertices (0/0 on a python-number object array raises in the engine instead of giving nan -> nan_to_num -> 0)",
                    "degenerate triangles (menpo returns zero normals for them)", "Delaunay construction itself (scipy runs concretely, only its triangle list is used)", "meshes beyond the listed sizes",
                    "landmarks under masking", "init_2d_grid / init_from_depth_image constructors (init_from_depth_image of a MaskedImage whose mask leaves an orphan pixel raises a shape error in hstack; outside the property text)",
                    "direction of the closing edge in edge_vectors (docstring says CA, code returns AC = -CA; the property only speaks of lengths)",
                    "from_tri_mask returning UNSELECTED triangles whose vertices all survive (fan: selecting 2 opposite triangles returns all 4): allowed by the property text, contradicts the method docstring; cfg flag strict_tri_mask states the docstring reading"],
    "trusted": ["mask/edge-count oracles in harness/c17.py", "state digest in harness/common.py"],
}

# ------------------------------------------------------------------------------------------------ meshes
TET = [[0, 1, 2], [0, 3, 1], [1, 3, 2], [2, 3, 0]]
MESHES = {
    "single": (3, [[0, 1, 2]]),
    "quad": (4, [[0, 1, 2], [1, 3, 2]]),
    "fan": (5, [[0, 1, 2], [0, 2, 3], [0, 3, 4], [0, 4, 1]]),
    "isolated": (6, [[0, 1, 2], [3, 4, 5]]),
    "isolated_x": (6, [[4, 0, 2], [5, 3, 1]]),           # interleaved vertex numbering
    "nonmanifold": (5, [[0, 1, 2], [1, 0, 3], [0, 1, 4]]),  # three triangles on edge (0,1)
    "strip": (6, [[0, 1, 2], [2, 1, 3], [2, 3, 4], [4, 3, 5]]),
    "orphaned": (6, [[1, 2, 4], [4, 2, 5]]),             # vertices 0 and 3 belong to no triangle at all
    "tetra": (4, TET),                                    # closed surface: no boundary
    "tetra_flap_first": (5, [[0, 1, 4]] + TET),           # closed surface + a flap on edge (0,1)
    "tetra_flap_last": (5, TET + [[0, 1, 4]]),
    "bowtie": (5, [[0, 1, 2], [2, 3, 4]]),                # two triangles meeting in one vertex
    "double": (3, [[0, 1, 2], [2, 1, 0]]),                # the same triangle twice (both orientations)
}
DELAUNAY_PTS = [[0.0, 0.0], [2.0, 0.1], [1.9, 2.0], [0.1, 1.8], [1.0, 0.9]]


def _trilist(name):
    """(n_points, concrete trilist array) -- several dtypes / layouts on purpose"""
    if name == "grid23":
        from menpo.shape.mesh.base import subsampled_grid_triangulation

        return 6, subsampled_grid_triangulation((2, 3))  # uint32
    if name == "grid33":
        from menpo.shape.mesh.base import subsampled_grid_triangulation

        return 9, subsampled_grid_triangulation((3, 3))
    if name == "delaunay":
        from scipy.spatial import Delaunay

        return 5, np.ascontiguousarray(Delaunay(np.array(DELAUNAY_PTS)).simplices)  # int32
    n, tl = MESHES[name]
    return n, np.array(tl, dtype=np.int64)


def _mk_mesh(F, cls, name, n_dims, tag="p"):
    import menpo.shape as ms
    from menpo.image import Image

    npts, tl = _trilist(name)
    pts = F.reals(tag, (npts, n_dims), -4, 4)
    if cls == "TriMesh":
        return ms.TriMesh(pts, trilist=tl)
    if cls == "ColouredTriMesh":
        return ms.ColouredTriMesh(pts, trilist=tl, colours=F.reals(tag + "_col", (npts, 3), 0, 1))
    if cls == "TexturedTriMesh":
        tex = Image(F.reals(tag + "_tex", (1, 2, 2), 0, 1))
        return ms.TexturedTriMesh(pts, F.reals(tag + "_tc", (npts, 2), 0, 1), tex, trilist=tl)
    raise KeyError(cls)


CLASSES = ["TriMesh", "ColouredTriMesh", "TexturedTriMesh"]


def instances(tier):
    out = []
    thorough = tier != "quick"
    # ---- geometry
    for nd in (2, 3):
        for tris in (1, 2):
            out.append(("area_basic", {"n": nd, "tris": tris}))
            out.append(("area_rigid", {"n": nd, "tris": tris}))
            out.append(("area_scale", {"n": nd, "tris": tris}))
            out.append(("edges_rigid", {"n": nd, "tris": tris}))
            out.append(("edges_scale", {"n": nd, "tris": tris}))
    out.append(("tri_normals", {"tris": 1}))
    out.append(("tri_normals", {"tris": 1, "tiny": True}))
    out.append(("tri_normals", {"tris": 2}))
    out.append(("tri_normals_rot", {"tris": 1}))
    out.append(("tri_normals_rot", {"tris": 2}))
    out.append(("vertex_normals", {"rot": False}))
    out.append(("vertex_normals", {"rot": True}))
    for name in (("quad", "fan") if not thorough else ("quad", "fan", "nonmanifold", "strip", "bowtie", "tetra")):
        out.append(("vertex_normals_sum", {"mesh": name}))
    for name in (("quad",) if not thorough else ("quad", "fan", "nonmanifold")):
        out.append(("vertex_normals_sum_rot", {"mesh": name}))
    out.append(("normals_2d_refused", {}))
    for nd in (2, 3):
        for name in (("quad", "nonmanifold") if not thorough else ("quad", "fan", "nonmanifold", "grid23", "double")):
            out.append(("edge_vectors", {"n": nd, "mesh": name}))
    # ---- masking (2-D and 3-D by fork inside each instance)
    meshes = ["single", "quad", "fan", "isolated", "isolated_x", "nonmanifold", "strip", "orphaned", "tetra", "bowtie",
              "grid23", "delaunay", "tetra_flap_first", "double"]
    for cls in CLASSES:
        for name in meshes:
            out.append(("mask_vertices", {"cls": cls, "mesh": name}))
            out.append(("mask_triangles", {"cls": cls, "mesh": name}))
        out.append(("mask_layout", {"cls": cls}))
    if thorough:
        for cls in CLASSES:
            out.append(("mask_vertices", {"cls": cls, "mesh": "grid33"}, {"max_paths": 20000, "max_s": 3000}))
            out.append(("mask_triangles", {"cls": cls, "mesh": "grid33"}, {"max_paths": 20000, "max_s": 3000}))
    out.append(("mask_wrong_length", {}))
    # ---- topology
    for name in TOPO_MESHES:
        out.append(("topology", {"mesh": name}))
    out.append(("topology_sweep", {"v": 4, "k": 4}))
    out.append(("topology_sweep", {"v": 5, "k": 3 if not thorough else 5}))
    out.append(("topology_sweep", {"v": 7, "k": 3, "unordered": True}))
    if thorough:
        out.append(("topology_sweep", {"v": 8, "k": 3, "unordered": True}))
    if os.environ.get("C17_SELFTEST"):
        # planted bugs (F.patch inside the harness): every one of these must be reported as a VIOLATION
        out = [("area_basic", {"n": 2, "tris": 1, "selftest_mutant": "area_no_abs"}),
               ("area_rigid", {"n": 2, "tris": 1, "selftest_mutant": "area_no_abs"}),
               ("tri_normals", {"tris": 2, "selftest_mutant": "normal_unnormalised_second"}),
               ("vertex_normals_sum", {"mesh": "fan", "selftest_mutant": "vertex_normals_skip_third"}),
               ("mask_vertices", {"cls": "ColouredTriMesh", "mesh": "orphaned", "selftest_mutant": "colours_unmasked_mask"}),
               ("mask_vertices", {"cls": "TriMesh", "mesh": "strip", "selftest_mutant": "reindex_off"}),
               ("mask_triangles", {"cls": "ColouredTriMesh", "mesh": "fan", "selftest_mutant": "reindex_off"}),
               ("edge_vectors", {"n": 2, "mesh": "quad", "selftest_mutant": "unique_edges_directed"}),
               ("topology", {"mesh": "quad", "selftest_mutant": "unique_edges_directed"}),
               ("edges_scale", {"n": 3, "tris": 1, "selftest_mutant": "edge_length_squared"})]
    return out


# ------------------------------------------------------------------------------------------------ geometry
GEO_TL = {1: [[0, 1, 2]], 2: [[0, 1, 2], [1, 3, 2]]}


def _geo_mesh(F, cfg, pts):
    from menpo.shape import TriMesh

    return TriMesh(pts, trilist=np.array(GEO_TL[cfg["tris"]]))


def _geo_pts(F, cfg, n=None):
    return F.reals("p", (2 + cfg["tris"], n or cfg["n"]), -4, 4)


def _cross3(u, v):
    return [u[1] * v[2] - u[2] * v[1], u[2] * v[0] - u[0] * v[2], u[0] * v[1] - u[1] * v[0]]


def _dbl_area_sq(pts, tri):
    """squared doubled area of triangle `tri`, straight from the coordinates (Lagrange identity for 3-D)"""
    a, b, c = pts[tri[0]], pts[tri[1]], pts[tri[2]]
    u, v = b - a, c - a
    if len(a) == 2:
        d = u[0] * v[1] - u[1] * v[0]
        return d * d
    uu, vv, uv = (u * u).sum(), (v * v).sum(), (u * v).sum()
    return uu * vv - uv * uv


def _rigid(F, cfg, pts, mirror=None):
    """an arbitrary rigid motion of the point set: rotation (all), optional mirror, translation"""
    n = pts.shape[1]
    R = K.rot(F, "R", n)
    if mirror is None:
        mirror = F.bool("mirror")
    if mirror:
        D = K.eye(F, n)
        D[n - 1, n - 1] = -1
        R = R.dot(D)
    t = F.reals("t", (n,), -8, 8)
    return pts.dot(R.T) + t, R


def _scale(F):
    s = F.real("s", -4, 4)
    F.assume(F.or_(s >= 0.05, s <= -0.05))
    return s


def _maybe_mutant(F, cfg):
    """self-test only: plausible bugs planted in menpo through F.patch (never enabled by instances())"""
    mut = cfg.get("selftest_mutant")
    if not mut:
        return
    import menpo.shape.mesh.base as mb
    import menpo.shape.mesh.coloured as mc
    import menpo.shape.mesh.normals as mn

    xp = mb.np  # the module's own numpy (proxy in symbolic mode)
    if mut == "area_no_abs":
        def tri_areas(self):
            t = self.points[self.trilist]
            ij, ik = t[:, 1] - t[:, 0], t[:, 2] - t[:, 0]
            if self.n_dims == 2:
                return (ij[:, 0] * ik[:, 1] - ij[:, 1] * ik[:, 0]) * 0.5
            return xp.linalg.norm(xp.cross(ij, ik), axis=1) * 0.5
        F.patch(mb.TriMesh, "tri_areas", tri_areas)
    elif mut == "normal_unnormalised_second":
        orig = mn.compute_face_normals

        def cfn(points, trilist):
            r = orig(points, trilist)
            if r.shape[0] > 1:
                r[1] = r[1] * 2
            return r
        F.patch(mn, "compute_face_normals", cfn)
        F.patch(mb, "compute_face_normals", cfn)
    elif mut == "colours_unmasked_mask":
        def from_mask(self, mask):
            ctm = self.copy()
            if xp.all(mask):
                return ctm
            isolated_mask = self._isolated_mask(mask)
            masked_adj = mc.mask_adjacency_array(isolated_mask, self.trilist)
            ctm.trilist = mc.reindex_adjacency_array(masked_adj)
            ctm.points = ctm.points[isolated_mask, :]
            # bug: colours follow the caller's mask, not the one with orphans removed
            ctm.colours = ctm.colours[mask, :][: ctm.points.shape[0]]
            return ctm
        F.patch(mc.ColouredTriMesh, "from_mask", from_mask)
    elif mut == "reindex_off":
        def reindex(adjacency_array):
            remap = np.arange(np.max(adjacency_array) + 1)
            uniq = np.unique(adjacency_array)
            remap[uniq] = np.arange(uniq.shape[0])
            out = remap[adjacency_array]
            if out.shape[0] > 1:
                out[-1] = out[-1][::-1]  # bug: last kept triangle reversed
            return out
        F.patch(mb, "reindex_adjacency_array", reindex)
        F.patch(mc, "reindex_adjacency_array", reindex)
    elif mut == "unique_edges_directed":
        def uei(self):
            e = self.edge_indices()
            return np.unique(e, axis=0)  # bug: (a,b) and (b,a) both listed
        F.patch(mb.TriMesh, "unique_edge_indices", uei)
    elif mut == "vertex_normals_skip_third":
        def cvn(points, trilist):
            face_normals = mn.compute_face_normals(points, trilist)
            vertex_normals = xp.zeros(points.shape, dtype=points.dtype)
            np.add.at(vertex_normals, trilist[:, 0], face_normals)
            np.add.at(vertex_normals, trilist[:, 1], face_normals)
            np.add.at(vertex_normals, trilist[:, 1], face_normals)  # bug: second corner twice, third never
            return mn._normalize(vertex_normals)
        F.patch(mb, "compute_vertex_normals", cvn)
    elif mut == "boundary_fixed":
        # not a bug but the suggested repair of boundary_tri_index (count every undirected edge, flag the owners of
        # edges seen exactly once): with it the topology harnesses are clean
        def bti(self):
            from collections import Counter

            keys = [tuple(sorted(int(x) for x in e)) for e in self.edge_indices()]
            cnt = Counter(keys)
            mask = np.zeros(self.n_tris, dtype=bool)
            for k, key in enumerate(keys):
                if cnt[key] == 1:
                    mask[k // 3] = True
            return mask
        F.patch(mb.TriMesh, "boundary_tri_index", bti)
    elif mut == "edge_length_squared":
        def edge_lengths(self):
            ev = self.edge_vectors()
            return (ev * ev).sum(axis=1)  # bug: squared lengths
        F.patch(mb.TriMesh, "edge_lengths", edge_lengths)
    else:
        raise KeyError(mut)


def _nondegenerate(F, pts, tris, eps=1e-4):
    for tri in tris:
        F.assume(_dbl_area_sq(pts, tri) >= eps)


def area_basic(F, ob, cfg):
    """areas are >= 0 and their squares are the closed form; mean_tri_area is their mean"""
    _maybe_mutant(F, cfg)
    pts = _geo_pts(F, cfg)
    m = _geo_mesh(F, cfg, pts)
    a = m.tri_areas()
    tl = GEO_TL[cfg["tris"]]
    ob.true("areas.shape", np.shape(a) == (len(tl),))
    for i, tri in enumerate(tl):
        ob.le("area>=0[%d]" % i, 0, a[i])
        ob.eq("area^2=closed_form[%d]" % i, a[i] * a[i] * 4, _dbl_area_sq(pts, tri))
    ob.eq("mean_tri_area", m.mean_tri_area() * len(tl), sum(a[i] for i in range(len(tl))))
    ob.eq("points_untouched", m.points, pts)


def area_rigid(F, ob, cfg):
    _maybe_mutant(F, cfg)
    pts = _geo_pts(F, cfg)
    a = _geo_mesh(F, cfg, pts).tri_areas()
    q, _ = _rigid(F, cfg, pts)
    b = _geo_mesh(F, cfg, q).tri_areas()
    ob.eq("area.rigid_invariant", b, a)


def area_scale(F, ob, cfg):
    _maybe_mutant(F, cfg)
    pts = _geo_pts(F, cfg)
    s = _scale(F)
    tl = GEO_TL[cfg["tris"]]
    b = _geo_mesh(F, cfg, pts * s).tri_areas()
    if cfg["n"] == 2:
        a = _geo_mesh(F, cfg, pts).tri_areas()
        ob.eq("area.scales_by_s^2", b, a * (s * s))
        return
    # 3-D: area(sX) >= 0 and area(sX)^2 = s^4 * D(X)/4, where D(X)/4 = area(X)^2 and area(X) >= 0 are area_basic's
    # obligations for the same symbolic X (D = squared doubled area in closed form); hence area(sX) = s^2 area(X).
    # (one square root per query: the direct form r' = s^2 r with two root definitions exhausts the solver budget)
    for i, tri in enumerate(tl):
        ob.le("scaled_area>=0[%d]" % i, 0, b[i])
        ob.eq("scaled_area^2=s^4*closed_form(X)[%d]" % i, b[i] * b[i] * 4, _dbl_area_sq(pts, tri) * (s * s * s * s))


def _edge_oracle_sq(pts, tl):
    """squared lengths of AB, BC, CA per triangle, in menpo's documented order"""
    out = []
    for tri in tl:
        for (i, j) in ((0, 1), (1, 2), (2, 0)):
            d = pts[tri[j]] - pts[tri[i]]
            out.append((d * d).sum())
    return out


def edges_rigid(F, ob, cfg):
    """edge lengths: >= 0, squares are the closed form, unchanged by a rigid motion; means agree"""
    _maybe_mutant(F, cfg)
    pts = _geo_pts(F, cfg)
    m = _geo_mesh(F, cfg, pts)
    tl = GEO_TL[cfg["tris"]]
    l = m.edge_lengths()
    ob.true("lengths.shape", np.shape(l) == (3 * len(tl),))
    want = _edge_oracle_sq(pts, tl)
    for k in range(len(want)):
        ob.le("length>=0[%d]" % k, 0, l[k])
        ob.eq("length^2=closed_form[%d]" % k, l[k] * l[k], want[k])
    q, _ = _rigid(F, cfg, pts)
    m2 = _geo_mesh(F, cfg, q)
    l2 = m2.edge_lengths()
    ob.eq("length.rigid_invariant", l2, l)
    ob.eq("mean_edge_length(unique=False)", m.mean_edge_length(unique=False) * len(want), sum(l[k] for k in range(len(want))))
    ul = m.unique_edge_lengths()
    ob.true("unique_lengths.shape", np.shape(ul) == (3 if len(tl) == 1 else 5,))
    ob.eq("mean_edge_length(unique=True)", m.mean_edge_length() * len(ul), sum(ul[k] for k in range(len(ul))))
    ob.eq("unique_length.rigid_invariant", m2.unique_edge_lengths(), ul)


def edges_scale(F, ob, cfg):
    _maybe_mutant(F, cfg)
    pts = _geo_pts(F, cfg)
    l = _geo_mesh(F, cfg, pts).edge_lengths()
    s = _scale(F)
    m2 = _geo_mesh(F, cfg, pts * s)
    l2 = m2.edge_lengths()
    ob.eq("length.scales_by_|s|", l2, l * abs(s))
    ob.eq("unique_length.scales_by_|s|", m2.unique_edge_lengths(), _geo_mesh(F, cfg, pts).unique_edge_lengths() * abs(s))


def tri_normals(F, ob, cfg):
    """unit length, perpendicular to the three edge vectors, right-handed w.r.t. the vertex order"""
    _maybe_mutant(F, cfg)
    cfg = dict(cfg, n=3)
    pts = _geo_pts(F, cfg)
    tl = GEO_TL[cfg["tris"]]
    if cfg.get("tiny"):
        # very small but non-degenerate triangles (absolute thresholds must not creep into the normalisation)
        for tri in tl:
            a2 = _dbl_area_sq(pts, tri)
            F.assume(F.and_(a2 > 0, a2 <= 1e-16))
    else:
        _nondegenerate(F, pts, tl)
    m = _geo_mesh(F, cfg, pts)
    nrm = m.tri_normals()
    ob.true("shape", np.shape(nrm) == (len(tl), 3))
    for i, tri in enumerate(tl):
        a, b, c = pts[tri[0]], pts[tri[1]], pts[tri[2]]
        ob.eq("unit[%d]" % i, (nrm[i] * nrm[i]).sum(), 1)
        ob.eq("perp_ab[%d]" % i, (nrm[i] * (b - a)).sum(), 0)
        ob.eq("perp_ac[%d]" % i, (nrm[i] * (c - a)).sum(), 0)
        ob.eq("perp_bc[%d]" % i, (nrm[i] * (c - b)).sum(), 0)
        # right-handed w.r.t. the vertex order: the projection of (b-a)x(c-a) on the normal is its (positive) length
        cr = _cross3(b - a, c - a)
        ob.eq("right_handed:n.cross=|cross|[%d]" % i, sum(nrm[i][k] * cr[k] for k in range(3)), F.sqrt(_dbl_area_sq(pts, tri)))


def tri_normals_rot(F, ob, cfg):
    """n(R X + t) = R n(X) for every rotation R and translation t"""
    _maybe_mutant(F, cfg)
    cfg = dict(cfg, n=3)
    pts = _geo_pts(F, cfg)
    tl = GEO_TL[cfg["tris"]]
    _nondegenerate(F, pts, tl)
    n1 = _geo_mesh(F, cfg, pts).tri_normals()
    q, R = _rigid(F, cfg, pts, mirror=False)
    n2 = _geo_mesh(F, cfg, q).tri_normals()
    ob.eq("follows_rotation", n2, n1.dot(R.T))


def vertex_normals(F, ob, cfg):
    """end to end on one fully symbolic triangle: every vertex normal is the (unit) face normal"""
    _maybe_mutant(F, cfg)
    cfg = dict(cfg, n=3, tris=1)
    pts = _geo_pts(F, cfg)
    tl = GEO_TL[1]
    _nondegenerate(F, pts, tl)
    m = _geo_mesh(F, cfg, pts)
    fn = m.tri_normals()
    vn = m.vertex_normals()
    ob.true("shape", np.shape(vn) == (3, 3))
    for v in range(3):
        ob.eq("unit[%d]" % v, (vn[v] * vn[v]).sum(), 1)
        ob.eq("single_owner=face_normal[%d]" % v, vn[v], fn[0])
    if cfg.get("rot"):
        q, R = _rigid(F, cfg, pts, mirror=False)
        v2 = _geo_mesh(F, cfg, q).vertex_normals()
        ob.eq("follows_rotation", v2, vn.dot(R.T))


def _intercept_face_normals(F, ntris, tag="fn"):
    """compositional cut: inside compute_vertex_normals the face normals become ARBITRARY symbolic vectors (a superset
    of what compute_face_normals, checked by tri_normals*, can return); the wrapper records the argument terms.
    Concrete replay calls through."""
    import menpo.shape.mesh.normals as mn

    orig = mn.compute_face_normals
    rec = {"calls": []}
    fn_sym = F.reals(tag, (ntris, 3), -2, 2) if F.sym else None

    def wrapper(points, trilist):
        out = fn_sym.copy() if F.sym else orig(points, trilist)
        if rec.get("post") is not None:
            out = rec["post"](out)
        rec["calls"].append((points, trilist, out.copy()))
        return out

    F.patch(mn, "compute_face_normals", wrapper)
    return rec


def vertex_normals_sum(F, ob, cfg):
    """compute_vertex_normals on meshes with shared vertices: unit, parallel to and aligned with the sum of the face
    normals of exactly the triangles that own the vertex; the face normals are those of the mesh's own points/trilist"""
    _maybe_mutant(F, cfg)
    m = _mk_mesh(F, "TriMesh", cfg["mesh"], 3)
    pts = m.points
    npts, tl = _trilist(cfg["mesh"])
    _nondegenerate(F, pts, tl)
    rec = _intercept_face_normals(F, len(tl))
    vn = m.vertex_normals()
    ob.true("face_normals_computed_once", len(rec["calls"]) == 1)
    a_pts, a_tl, fn = rec["calls"][0]
    ob.eq("face_normals_of_own_points", a_pts, pts)
    ob.true("face_normals_of_own_trilist", np.asarray(a_tl).tolist() == np.asarray(tl).tolist())
    ob.true("shape", np.shape(vn) == (npts, 3))
    for v in range(npts):
        owners = [i for i, tri in enumerate(tl) if v in [int(x) for x in tri]]
        if not owners:
            continue
        sv = sum(fn[i] for i in owners)
        ss = (sv * sv).sum()
        F.assume(ss >= 1e-4)  # non-cancelling face normals
        ob.eq("unit[%d]" % v, (vn[v] * vn[v]).sum(), 1)
        cr = _cross3(vn[v], sv)
        ob.eq("parallel_to_sum[%d]" % v, np.array(cr, dtype=object if F.sym else float), np.zeros(3))
        # aligned: the projection of the sum on the vertex normal is the (positive) length of the sum
        ob.eq("aligned:vn.sum=|sum|[%d]" % v, (vn[v] * sv).sum(), F.sqrt(ss))
    ob.eq("points_untouched", m.points, pts)


def vertex_normals_sum_rot(F, ob, cfg):
    """if the face normals turn with R (tri_normals_rot), so do the vertex normals"""
    _maybe_mutant(F, cfg)
    m = _mk_mesh(F, "TriMesh", cfg["mesh"], 3)
    npts, tl = _trilist(cfg["mesh"])
    _nondegenerate(F, m.points, tl)
    rec = _intercept_face_normals(F, len(tl))
    v1 = m.vertex_normals()
    fn = rec["calls"][0][2]
    for v in range(npts):
        owners = [i for i, tri in enumerate(tl) if v in [int(x) for x in tri]]
        if owners:
            sv = sum(fn[i] for i in owners)
            F.assume((sv * sv).sum() >= 1e-4)
    q, R = _rigid(F, cfg, m.points, mirror=False)
    if F.sym:
        rec["post"] = lambda out: out.dot(R.T)
    from menpo.shape import TriMesh

    v2 = TriMesh(q, trilist=tl).vertex_normals()
    ob.eq("follows_rotation", v2, v1.dot(R.T))


def normals_2d_refused(F, ob, cfg):
    """normals exist for 3-D meshes only: a 2-D mesh must refuse, not return something"""
    pts = _geo_pts(F, {"tris": 1, "n": 2})
    m = _geo_mesh(F, {"tris": 1}, pts)
    for nm in ("tri_normals", "vertex_normals"):
        try:
            getattr(m, nm)()
            ob.fail(nm + ".2d_accepted", "a 2-D mesh returned normals")
        except ValueError:
            ob.true(nm + ".2d_refused", True)


def edge_vectors(F, ob, cfg):
    """edge_vectors / edge_indices / unique_edge_* describe the same edges of the same mesh"""
    _maybe_mutant(F, cfg)
    m = _mk_mesh(F, "TriMesh", cfg["mesh"], cfg["n"])
    pts = m.points
    npts, tl = _trilist(cfg["mesh"])
    ei = m.edge_indices()
    ev = m.edge_vectors()
    want_ei = [[int(t[i]), int(t[j])] for t in tl for (i, j) in ((0, 1), (1, 2), (2, 0))]
    ob.true("edge_indices", np.asarray(ei).tolist() == want_ei)
    ob.true("edge_vectors.shape", np.shape(ev) == (3 * len(tl), cfg["n"]))
    for k, (i, j) in enumerate(want_ei):
        d = pts[j] - pts[i]
        if k % 3 < 2:
            ob.eq("edge_vector=AB,BC[%d]" % k, ev[k], d)
        else:
            # the closing edge: the docstring says CA, the code returns AC; the property only fixes the edge (its length)
            same = F.and_(*[F.eq(ev[k][c], d[c]) for c in range(cfg["n"])])
            opp = F.and_(*[F.eq(ev[k][c], -d[c]) for c in range(cfg["n"])])
            ob.true("edge_vector=+-CA[%d]" % k, F.or_(same, opp))
    # unique edges: each undirected edge exactly once
    uei = np.asarray(m.unique_edge_indices())
    want_u = sorted(set(tuple(sorted(e)) for e in want_ei))
    got_u = [tuple(sorted(int(x) for x in e)) for e in uei]
    ob.true("unique_edge_indices.once", len(got_u) == len(set(got_u)))
    ob.true("unique_edge_indices.all", sorted(got_u) == want_u)
    uev = m.unique_edge_vectors()
    ob.true("unique_edge_vectors.shape", np.shape(uev) == (len(want_u), cfg["n"]))
    if np.shape(uev) == (len(uei), cfg["n"]):
        for k, e in enumerate(uei):
            ob.eq("unique_edge_vector[%d]" % k, uev[k], pts[int(e[1])] - pts[int(e[0])])
    ob.eq("points_untouched", m.points, pts)


# ------------------------------------------------------------------------------------------------ masking
def _attrs(m):
    """per-vertex attribute arrays of a mesh: name -> array"""
    import menpo.shape as ms

    out = {"points": m.points}
    if isinstance(m, ms.ColouredTriMesh):
        out["colours"] = m.colours
    if isinstance(m, ms.TexturedTriMesh):
        out["tcoords"] = m.tcoords.points
    return out


def _check_masked(F, ob, m, r, before, vbits, tl, name="masked"):
    """`r` is the result of masking `m` such that the vertices with vbits survive (oracle over the bits)"""
    kept_t = [i for i, t in enumerate(tl) if all(vbits[int(v)] for v in t)]
    kept_v = sorted(set(int(v) for i in kept_t for v in tl[i]))
    ob.true(name + ".class", type(r) is type(m))
    ob.true(name + ".new_object", r is not m)
    ob.true(name + ".n_tris", r.n_tris == len(kept_t))
    ob.true(name + ".n_points", r.n_points == len(kept_v))
    ob.true(name + ".n_dims", r.n_dims == m.n_dims)
    ntl = np.asarray(r.trilist)
    ob.true(name + ".trilist.shape", ntl.shape == (len(kept_t), 3))
    ob.true(name + ".trilist.integer", ntl.dtype.kind in "iu")
    new, old = _attrs(r), _attrs(m)
    ok_shape = ntl.shape == (len(kept_t), 3)
    for nm in new:
        ob.true("%s.%s.rows" % (name, nm), new[nm].shape == (len(kept_v),) + old[nm].shape[1:])
        ok_shape = ok_shape and new[nm].shape[0] == len(kept_v)
    if ok_shape and len(kept_t):
        in_range = bool((ntl >= 0).all() and (ntl < len(kept_v)).all())
        ob.true(name + ".trilist.in_range", in_range)
        if in_range:
            ob.true(name + ".no_orphans", sorted(set(int(x) for x in ntl.ravel())) == list(range(len(kept_v))))
            for k, i in enumerate(kept_t):
                for c in range(3):
                    for nm in new:
                        # the k-th kept triangle reaches the original coordinate / colour / tcoord terms, in order
                        ob.eq("%s.tri[%d].corner[%d].%s" % (name, i, c, nm), new[nm][int(ntl[k, c])], old[nm][int(tl[i][c])])
            for nm in new:
                ob.eq("%s.%s.order_kept" % (name, nm), new[nm], old[nm][kept_v])
    import menpo.shape as ms

    if isinstance(m, ms.TexturedTriMesh):
        ob.eq(name + ".texture", r.texture.pixels, m.texture.pixels)
        ob.true(name + ".tcoords.n_points", r.tcoords.n_points == r.n_points)
    # the original is untouched, and the result does not share its arrays
    K.eq_digest(F, ob, name + ".self_unchanged", K.digest(m), before)
    if r.n_points:
        r.points[0, 0] = r.points[0, 0] + 1
        for nm in new:
            if nm != "points":
                new[nm][0, 0] = new[nm][0, 0] + 1
        if r.n_tris:
            r.trilist[0, 0] = (int(r.trilist[0, 0]) + 1) % max(1, r.n_points)
        K.eq_digest(F, ob, name + ".independent", K.digest(m), before)


def mask_vertices(F, ob, cfg):
    _maybe_mutant(F, cfg)
    m = _mk_mesh(F, cfg["cls"], cfg["mesh"], F.choice("n_dims", [2, 3]))
    npts, tl = _trilist(cfg["mesh"])
    before = K.freeze(K.digest(m))
    vbits = [F.bool("keep_v%d" % i) for i in range(npts)]
    if not any(all(vbits[int(v)] for v in t) for t in tl):
        return  # masks that keep no whole triangle are outside the property
    if all(vbits) and len(set(int(v) for t in tl for v in t)) < npts:
        # the mesh already had unreferenced vertices and nothing is masked: the property is silent ("vertices LEFT
        # without a triangle"); menpo's all-true fast path returns them, every partial mask drops them (see META)
        return
    r = m.from_mask(np.array(vbits, dtype=bool))
    _check_masked(F, ob, m, r, before, vbits, tl)


def mask_triangles(F, ob, cfg):
    _maybe_mutant(F, cfg)
    m = _mk_mesh(F, cfg["cls"], cfg["mesh"], F.choice("n_dims", [2, 3]))
    npts, tl = _trilist(cfg["mesh"])
    before = K.freeze(K.digest(m))
    tbits = [F.bool("keep_t%d" % i) for i in range(len(tl))]
    if not any(tbits):
        return
    # the vertices that survive a triangle mask are those of the selected triangles
    vbits = [any(tbits[i] and v in [int(x) for x in tl[i]] for i in range(len(tl))) for v in range(npts)]
    r = m.from_tri_mask(np.array(tbits, dtype=bool))
    _check_masked(F, ob, m, r, before, vbits, tl)
    if cfg.get("strict_tri_mask"):
        # docstring of from_tri_mask: "a new mesh containing only those triangles that were True in the mask"
        ob.true("only_selected_triangles", r.n_tris == sum(tbits))


def mask_layout(F, ob, cfg):
    """same contract when the caller's arrays are views / Fortran ordered / copy=False, and for integer masks"""
    import menpo.shape as ms
    from menpo.image import Image

    _maybe_mutant(F, cfg)
    cls = cfg["cls"]
    npts, tl = MESHES["strip"]
    tl = np.array(tl)
    variant = F.choice("variant", ["fortran_trilist", "strided_trilist", "copy_false", "int32", "uint8"])
    if variant == "fortran_trilist":
        tl_in = np.asfortranarray(tl)
    elif variant == "strided_trilist":
        big = np.zeros((len(tl), 6), dtype=tl.dtype)
        big[:, ::2] = tl
        tl_in = big[:, ::2]
    elif variant == "int32":
        tl_in = tl.astype(np.int32)
    elif variant == "uint8":
        tl_in = tl.astype(np.uint8)
    else:
        tl_in = tl.copy()
    copy = variant != "copy_false"
    pts = F.reals("p", (npts, 2), -4, 4)
    import warnings

    with warnings.catch_warnings():
        warnings.simplefilter("ignore")
        if cls == "TriMesh":
            m = ms.TriMesh(pts, trilist=tl_in, copy=copy)
        elif cls == "ColouredTriMesh":
            m = ms.ColouredTriMesh(pts, trilist=tl_in, colours=F.reals("p_col", (npts, 4), 0, 1), copy=copy)  # RGBA
        else:
            tex = Image(F.reals("p_tex", (1, 2, 2), 0, 1))
            m = ms.TexturedTriMesh(pts, F.reals("p_tc", (npts, 2), 0, 1), tex, trilist=tl_in, copy=copy)
    ob.true("trilist_as_given", np.asarray(m.trilist).tolist() == tl.tolist())
    before = K.freeze(K.digest(m))
    vbits = [F.bool("keep_v%d" % i) for i in range(npts)]
    if not any(all(vbits[int(v)] for v in t) for t in tl):
        return
    r = m.from_mask(np.array(vbits, dtype=bool))
    _check_masked(F, ob, m, r, before, vbits, tl)


def mask_wrong_length(F, ob, cfg):
    """a mask of the wrong length is refused by all three classes (never silently broadcast)"""
    for cls in CLASSES:
        m = _mk_mesh(F, cls, "quad", 2, tag="p" + cls[:2])
        for ln in (3, 5):
            try:
                m.from_mask(np.ones(ln, dtype=bool))
                ob.fail("%s.accepted[%d]" % (cls, ln), "mask of length %d accepted for 4 points" % ln)
            except ValueError:
                ob.true("%s.refused[%d]" % (cls, ln), True)


# ------------------------------------------------------------------------------------------------ topology
def _boundary_oracle(tl):
    """triangles owning an edge that no other triangle (entry of the list) has"""
    cnt = {}
    for t in tl:
        for (i, j) in ((0, 1), (1, 2), (2, 0)):
            e = tuple(sorted((int(t[i]), int(t[j]))))
            cnt[e] = cnt.get(e, 0) + 1
    return [any(cnt[tuple(sorted((int(t[i]), int(t[j]))))] == 1 for (i, j) in ((0, 1), (1, 2), (2, 0))) for t in tl]


def _unique_edges_oracle(tl):
    return sorted(set(tuple(sorted((int(t[i]), int(t[j])))) for t in tl for (i, j) in ((0, 1), (1, 2), (2, 0))))


def _topology_of(m, tl):
    """(boundary verdict, unique-edge verdict) for one concrete mesh; verdicts are None (fine) or a description"""
    try:
        b = m.boundary_tri_index()
        b = np.asarray(b)
        want = _boundary_oracle(tl)
        if b.shape != (len(tl),) or b.dtype != bool:
            vb = "boundary_tri_index has shape %s dtype %s" % (b.shape, b.dtype)
        elif b.tolist() != want:
            vb = "boundary_tri_index=%s, triangles owning an unshared edge=%s" % (b.tolist(), want)
        else:
            vb = None
    except Exception as e:  # noqa: BLE001
        vb = "boundary_tri_index raised %s: %s" % (type(e).__name__, e)
    try:
        u = [tuple(sorted(int(x) for x in e)) for e in np.asarray(m.unique_edge_indices())]
        want = _unique_edges_oracle(tl)
        vu = None if (len(u) == len(set(u)) and sorted(u) == want) else "unique_edge_indices=%s, undirected edges=%s" % (sorted(u), want)
    except Exception as e:  # noqa: BLE001
        vu = "unique_edge_indices raised %s: %s" % (type(e).__name__, e)
    return vb, vu


TOPO_MESHES = ["single", "quad", "fan", "isolated", "isolated_x", "nonmanifold", "strip", "orphaned", "bowtie", "grid23",
               "grid33", "delaunay", "double", "tetra", "tetra_flap_last", "tetra_flap_first"]


def topology(F, ob, cfg):
    """boundary_tri_index flags exactly the triangles owning an unshared edge; unique_edge_indices lists each undirected
    edge once"""
    _maybe_mutant(F, cfg)
    from menpo.shape import TriMesh

    name = cfg["mesh"]
    npts, tl = _trilist(name)
    nd = F.choice("n_dims", [2, 3])
    m = TriMesh(F.reals("p", (npts, nd), -4, 4), trilist=tl)
    vb, vu = _topology_of(m, tl)
    if vb:
        ob.fail("boundary_tri_index", vb)
    else:
        ob.true("boundary_tri_index", True)
    if vu:
        ob.fail("unique_edge_indices", vu)
    else:
        ob.true("unique_edge_indices", True)
    ob.true("trilist_untouched", np.asarray(m.trilist).tolist() == np.asarray(tl).tolist())


def _sweep_unordered(v, k):
    """all SETS of 1..k distinct triangles on v vertices (more vertices than triangles: sparse soups, fans, unreferenced
    vertices), each in two orientation patterns"""
    sets = list(itertools.combinations(range(v), 3))
    for n in range(1, k + 1):
        for seq in itertools.combinations(sets, n):
            for flip in (False, True):
                yield [list((a, c, b) if (flip ^ (pos % 2 == 1)) else (a, b, c)) for pos, (a, b, c) in enumerate(seq)]


def _sweep(v, k):
    """all ordered lists of 1..k distinct triangles (vertex sets) on v vertices; the first triangle in both orientations,
    the others in one rotated/flipped orientation chosen by position (so that shared edges occur in both directions)"""
    sets = list(itertools.combinations(range(v), 3))
    for n in range(1, k + 1):
        for seq in itertools.permutations(sets, n):
            for flip in (False, True):
                tl = []
                for pos, s in enumerate(seq):
                    a, b, c = s
                    if pos == 0:
                        t = (a, c, b) if flip else (a, b, c)
                    else:
                        t = [(b, c, a), (c, b, a), (a, b, c)][(pos + (1 if flip else 0)) % 3]
                    tl.append(list(t))
                yield tl


def topology_sweep(F, ob, cfg):
    """bounded-exhaustive: every ordered triangle list of <= k distinct triangles on v vertices (closed surfaces,
    non-manifold edges, isolated triangles, unreferenced vertices all occur)"""
    _maybe_mutant(F, cfg)
    from menpo.shape import TriMesh

    v, k = cfg["v"], cfg["k"]
    pts = F.reals("p", (v, 3), -4, 4)
    bad_x, bad_b, bad_u, n = [], [], [], 0
    for tl in (_sweep_unordered(v, k) if cfg.get("unordered") else _sweep(v, k)):
        n += 1
        m = TriMesh(pts, trilist=np.array(tl), copy=False)
        vb, vu = _topology_of(m, tl)
        if vb and " raised " in vb:
            if len(bad_x) < 3:
                bad_x.append("trilist=%s: %s" % (tl, vb))
        elif vb and len(bad_b) < 3:
            bad_b.append("trilist=%s: %s" % (tl, vb))
        if vu and len(bad_u) < 3:
            bad_u.append("trilist=%s: %s" % (tl, vu))
    ob.true("sweep.nonempty", n > 0)
    for nm, bad in (("sweep.boundary_tri_index.no_exception", bad_x), ("sweep.boundary_tri_index.flags", bad_b),
                    ("sweep.unique_edge_indices", bad_u)):
        if bad:
            ob.fail(nm, "; ".join(bad))
        else:
            ob.true(nm, True)
