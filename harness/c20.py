"""C20 -- convenience transform constructors follow their documented conventions."""
import math

import numpy as np

from harness import common as K

META = {
    "explanation": "C20: the counter-clockwise rotation constructors are run on a SYMBOLIC ANGLE (a point on the unit "
    "circle, tagged with its unit, so every quadrant, negative angles and angles beyond one turn are covered at once) "
    "and must produce the documented matrix; the axis/angle reported for a 2-D rotation must rebuild that rotation "
    "(sign included) for every point of the circle, for 3-D rotations (concrete list, excluding identity and half "
    "turns) for every value of the random helper vector; quaternion parameters: from_vector gives the standard "
    "quaternion matrix, R(q)=R(-q), and as_vector returns the canonical quaternion (the matrix handed to eigh is "
    "proved to be (4vv^T-I)/3, whose top eigenvector is +-v); about-centre constructors keep the centre fixed and act "
    "as the plain transform on offsets; Scale() returns UniformScale exactly when all factors are equal (clearly "
    "different factors give NonUniformScale, zeros are refused); tcoords<->image coordinate transforms are mutual "
    "inverses mapping the unit square's corners to the corner pixels with the vertical axis flipped (image shapes from a stated list, points symbolic).",
    "bounds": ["angles: all points of the unit circle", "3-D axis/angle: 3 concrete rotations x symbolic random draw in [0,1)^3 (for 2 of 5 further rotations tried some obligations stayed undecided; they are not registered)",
               "about-centre: PointCloud/TriMesh of 3-4 symbolic points (2-D and 3-D), images of 3 concrete shapes",
               "image shapes for tcoords: a stated list of 3-5 concrete shapes (a symbolic shape made the mixed integer/real queries unreliable)"],
    "stubs": ["cos/sin/tan of an Angle -> its (c,s) pair; deg2rad/rad2deg re-tag the unit; arccos -> principal branch; arctan2 -> direction of (x,y)",
              "np.random.rand -> fresh symbols in [0,1)", "np.linalg.eigh (Rotation.as_vector) -> spectrum contract of (4vv^T-I)/3",
              "np.linalg.eig on concrete 3x3 rotations runs in real LAPACK"],
    "assumptions": ["floats are exact reals", "trusted lemma: (4vv^T-I)/3 with |v|=1 has the simple top eigenvalue 1 with eigenvector +-v",
                    "quaternion scalar part non-zero for the canonical-sign clause"],
    "not_covered": ["3-D axis/angle for symbolic rotation matrices (eig of a symbolic matrix)", "rotations by exactly a half turn in the rational 2-D parametrisation of other harnesses (not used here: the circle is used directly)"],
    "trusted": ["Angle algebra in symx/npproxy.py"],
}


# concrete 3-D rotations (indices into ROT3) whose axis/angle obligations z3 decides within the resource limit
AXIS_ANGLE_DECIDED = (0, 1, 2)


def instances(tier):
    out = []
    for unit in ("deg", "rad"):
        for ctor in ("2d", "x", "y", "z"):
            out.append(("rot_ctor", {"ctor": ctor, "unit": unit}))
    out.append(("axis_angle_2d", {}))
    for i in ((0, 1, 2) if tier == "quick" else AXIS_ANGLE_DECIDED):
        out.append(("axis_angle_3d", {"i": i}))
    # (via from_vector left one obligation undecided and is not registered)
    vias = ("compose_before_inplace", "compose_after_inplace", "compose_before", "set_rotation_matrix", "copy_set")
    for n, via in enumerate(vias):
        for i in (((n + 1) % 3,) if tier == "quick" else (0, 1, 2)):
            out.append(("axis_angle_3d", {"i": i, "j": (i + 1) % 3, "via": via}))
    out.append(("quaternion", {}))
    out.append(("quaternion_as_vector", {}))
    for obj in ("PointCloud", "TriMesh", "Image"):
        for kind in ("scale", "rotate", "shear", "affine", "uniform3d", "chain"):
            out.append(("about_centre", {"obj": obj, "kind": kind}))
    for n in (2, 3):
        out.append(("scale_factory", {"n": n, "case": "equal"}))
        out.append(("scale_factory", {"n": n, "case": "different"}))
        out.append(("scale_factory", {"n": n, "case": "zero"}))
        out.append(("scale_factory", {"n": n, "case": "scalar"}))
    for shp in ([2, 2], [3, 5], [480, 640], [7, 2], [1000, 3]) if tier != "quick" else ([2, 2], [3, 5], [480, 640]):
        out.append(("tcoords", {"shape": shp}))
    return out


def angle(F, name, unit):
    """a symbolic angle in `unit` (both modes) -> (value to pass to menpo, cos, sin)"""
    if F.sym:
        from symx import npproxy

        a = npproxy.new_angle(name, unit)
        return a, a.c, a.s
    c = F.real(name + "_cos", -1, 1)
    s = F.real(name + "_sin", -1, 1)
    nrm = math.hypot(c, s)
    if abs(nrm - 1) > 1e-6:
        from symx.core import ReplayPrecondition

        raise ReplayPrecondition("angle not on the unit circle")
    th = math.atan2(s, c)
    return (math.degrees(th) if unit == "deg" else th), math.cos(th), math.sin(th)


def rot_ctor(F, ob, cfg):
    from menpo.transform import Rotation

    th, c, s = angle(F, "th", cfg["unit"])
    deg = cfg["unit"] == "deg"
    k = cfg["ctor"]
    if k == "2d":
        r = Rotation.init_from_2d_ccw_angle(th, degrees=deg)
        want = [[c, -s], [s, c]]
    elif k == "x":
        r = Rotation.init_from_3d_ccw_angle_around_x(th, degrees=deg)
        want = [[1, 0, 0], [0, c, -s], [0, s, c]]
    elif k == "y":
        r = Rotation.init_from_3d_ccw_angle_around_y(th, degrees=deg)
        want = [[c, 0, s], [0, 1, 0], [-s, 0, c]]
    else:
        r = Rotation.init_from_3d_ccw_angle_around_z(th, degrees=deg)
        want = [[c, -s, 0], [s, c, 0], [0, 0, 1]]
    n = len(want)
    W = np.array(want, dtype=object if F.sym else float)
    ob.true("type", type(r) is Rotation)
    ob.eq("matrix", r.h_matrix[:n, :n], W)
    ob.eq("no_translation", r.h_matrix[:n, n], np.zeros(n))
    ob.eq("bottom", r.h_matrix[n, :], np.array([0.0] * n + [1.0]))
    # the stated axis is fixed, the plane perpendicular to it turns counter-clockwise by the signed angle
    if n == 3:
        ax = {"x": 0, "y": 1, "z": 2}[k]
        e = np.zeros(3)
        e[ax] = 1
        ob.eq("axis_fixed", r.apply(e[None])[0], e)
        u, v = [(1, 2), (2, 0), (0, 1)][ax]
        eu = np.zeros(3)
        eu[u] = 1
        img = r.apply(eu[None])[0]
        ob.eq("ccw.cos", img[u], c)
        ob.eq("ccw.sin", img[v], s)
    else:
        img = r.apply(np.array([[1.0, 0.0]]))[0]
        ob.eq("ccw", img, np.array([c, s], dtype=object if F.sym else float))


def axis_angle_2d(F, ob, cfg):
    """the reported angle (radians) rebuilds the rotation, sign included"""
    from menpo.transform import Rotation

    th, c, s = angle(F, "th", "rad")
    R = K.arr(F, [[c, -s], [s, c]])
    r = Rotation(R, skip_checks=True)
    axis, ang = r.axis_and_angle_of_rotation()
    ob.true("axis", np.array_equal(np.asarray(axis, dtype=float), np.array([0.0, 0.0, 1.0])))
    r2 = Rotation.init_from_2d_ccw_angle(ang, degrees=False)
    ob.eq("rebuild", r2.h_matrix, r.h_matrix)


ROT3 = [(1.0, 0.2, -0.3, 0.5), (0.3, 1.0, 0.1, -0.7), (0.1, -0.4, 1.0, 0.2), (-0.2, 0.3, 0.6, 1.0),
        (0.9, 0.9, -0.5, 0.1), (0.05, 0.8, 0.7, -0.6), (1.0, -1.0, 0.0, 0.0), (0.3, 0.0, 0.0, 1.0)]


def _quat_matrix(q):
    w, x, y, z = q
    n = w * w + x * x + y * y + z * z
    M = np.array([[n - 2 * (y * y + z * z), 2 * (x * y - z * w), 2 * (x * z + y * w)],
                  [2 * (x * y + z * w), n - 2 * (x * x + z * z), 2 * (y * z - x * w)],
                  [2 * (x * z - y * w), 2 * (y * z + x * w), n - 2 * (x * x + y * y)]], dtype=object)
    return M * (1 / n)


def axis_angle_3d(F, ob, cfg):
    """3-D: reported axis and angle rebuild the rotation (Rodrigues) for every draw of the random helper vector"""
    import menpo.transform.homogeneous.rotation as hr
    from menpo.transform import Rotation

    q = np.array(ROT3[cfg["i"]], dtype=float)
    R = np.array(_quat_matrix(q), dtype=float)
    rnd = F.reals("rnd", (3,), 0, 1)
    F.assume(F.and_(rnd[0] < 1, rnd[1] < 1, rnd[2] < 1))
    if F.sym:
        from symx import npproxy

        npproxy.NP.stubs["random.rand"] = lambda n: rnd.copy()
    else:
        F.patch(np.random, "rand", lambda n: rnd.copy())
    via = cfg.get("via")
    if via is None:
        r = Rotation(R, skip_checks=True)
    else:
        # the rotation under test reaches matrix R through an update of another rotation whose axis and angle
        # were already asked for: what is reported must describe the CURRENT matrix
        # (a quarter turn with a mirrored pair of axes: products with it are exact in floats, so the updated
        # matrix is R to the last bit and the obligations are the ones decided for the plain instances)
        R0 = np.array([[[0, -1, 0], [1, 0, 0], [0, 0, 1]], [[1, 0, 0], [0, 0, -1], [0, 1, 0]],
                       [[0, 0, 1], [0, 1, 0], [-1, 0, 0]]][cfg["j"]], dtype=float)
        first = Rotation(R0, skip_checks=True)
        first.axis_and_angle_of_rotation()
        if via == "from_vector":
            r = first.from_vector(q)
        elif via == "compose_before_inplace":
            r = first
            r.compose_before_inplace(Rotation(R.dot(R0.T), skip_checks=True))
        elif via == "compose_after_inplace":
            r = first
            r.compose_after_inplace(Rotation(R0.T.dot(R), skip_checks=True))
        elif via == "compose_before":
            r = first.compose_before(Rotation(R.dot(R0.T), skip_checks=True))
        elif via == "set_rotation_matrix":
            r = first
            r.set_rotation_matrix(R.copy(), skip_checks=True)
        elif via == "copy_set":
            r = first.copy()
            r.set_rotation_matrix(R.copy(), skip_checks=True)
        ob.true("via.is_rotation", type(r) is Rotation)
        ob.eq("via.matrix", np.asarray(r.rotation_matrix, dtype=float), R, tol=1e-9)
    axis, ang = r.axis_and_angle_of_rotation()
    ob.true("axis.returned", axis is not None)
    if axis is None:
        return
    a = np.asarray(axis, dtype=float)
    ob.eq("axis.unit", float((a * a).sum()), 1.0, tol=1e-9)
    ob.eq("axis.fixed", R.dot(a), a, tol=1e-9)
    # Rodrigues from the reported axis and the (cos, sin) of the reported angle
    if F.sym:
        from symx import npproxy

        if isinstance(ang, npproxy.Angle):
            c, s = ang.c, ang.s
        else:
            c, s = math.cos(float(ang)), math.sin(float(ang))
    else:
        c, s = math.cos(float(ang)), math.sin(float(ang))
    Kx = np.array([[0, -a[2], a[1]], [a[2], 0, -a[0]], [-a[1], a[0], 0]])
    rebuilt = np.eye(3) * c + Kx * s + np.outer(a, a) * (1 - c)
    ob.eq("rebuild", rebuilt, R, tol=1e-7)


def quaternion(F, ob, cfg):
    from menpo.transform import Rotation

    q = F.reals("q", (4,), -1, 1)
    F.assume(F.eq((q * q).sum(), 1))
    r = Rotation.init_3d_from_quaternion(q)
    ob.true("type", type(r) is Rotation)
    ob.eq("matrix=standard", r.h_matrix[:3, :3], _quat_matrix(q) if F.sym else np.array(_quat_matrix(q), dtype=float))
    r2 = Rotation.init_3d_from_quaternion(-q)
    ob.eq("R(q)=R(-q)", r2.h_matrix, r.h_matrix)
    R = r.h_matrix[:3, :3]
    ob.eq("orthogonal", R.T.dot(R), np.eye(3))
    ob.eq("det", K.det(R), 1)


def quaternion_as_vector(F, ob, cfg):
    """as_vector(from_vector(q)) = canonical q.  Symbolically the eigh call is replaced by its contract on the
    matrix it is proved to receive: K = (4 v v^T - I)/3, v = (x, y, z, w)."""
    from menpo.transform import Rotation

    q = F.reals("q", (4,), -1, 1)
    F.assume(F.eq((q * q).sum(), 1))
    F.assume(F.or_(q[0] >= 0.01, q[0] <= -0.01))
    r = Rotation.init_3d_from_quaternion(q)
    if F.sym:
        from symx import npproxy
        from symx.core import SymB

        v = np.array([q[1], q[2], q[3], q[0]], dtype=object)
        seen = []

        def eigh(Kmat, *a, **k):
            seen.append(Kmat)
            want = (np.outer(v, v) * 4 - np.eye(4)) * (1.0 / 3) if False else (np.outer(v, v) * 4 - np.eye(4)) / 3
            for i in range(4):
                for j in range(i + 1):  # eigh reads the lower triangle
                    ob.eq("eigh.argument[%d,%d]" % (i, j), Kmat[i, j], want[i, j])
            # spectrum contract (trusted lemma): eigenvalues (-1/3,-1/3,-1/3,1), top eigenvector +-v
            sign = 1 if F.bool("eigvec_sign") else -1
            w = np.array([-1.0 / 3, -1.0 / 3, -1.0 / 3, 1.0])
            V = np.zeros((4, 4)).astype(object)
            V[:, 3] = v * sign
            return w, V

        npproxy.NP.stubs["linalg.eigh"] = eigh
    out = r.as_vector()
    canon = q if (bool(q[0] > 0)) else -q
    ob.eq("as_vector=canonical", out, canon, tol=None if F.sym else 1e-9)
    ob.true("len", out.shape == (4,))


def about_centre(F, ob, cfg):
    import menpo.transform as mt
    from menpo.image import Image
    from menpo.shape import PointCloud, TriMesh

    kind, obj_k = cfg["kind"], cfg["obj"]
    n = 3 if kind == "uniform3d" else 2
    if obj_k == "Image":
        shape = (3, 4) if n == 2 else (2, 3, 4)
        obj = Image(np.zeros((1,) + shape))
    elif obj_k == "PointCloud":
        obj = PointCloud(F.reals("p", (3, n)), copy=False)
    else:
        obj = TriMesh(F.reals("p", (4, n)), trilist=np.array([[0, 1, 2], [1, 3, 2]]), copy=False)
    centre = obj.centre()
    d = F.reals("d", (1, n), -3, 3)
    if kind in ("scale", "uniform3d"):
        k = F.real("k", -3, 3)
        F.assume(F.or_(k >= 0.1, k <= -0.1))
        t = mt.scale_about_centre(obj, k)
        M = np.eye(n) * k
    elif kind == "rotate":
        unit = F.choice("unit", ["deg", "rad"])
        th, c, s = angle(F, "th", unit)
        t = mt.rotate_ccw_about_centre(obj, th, degrees=(unit == "deg"))
        M = K.arr(F, [[c, -s], [s, c]])
    elif kind == "shear":
        # tan(phi), tan(psi) for symbolic angles
        phi, cp, sp = angle(F, "phi", "deg")
        psi, cq, sq = angle(F, "psi", "deg")
        F.assume(F.and_(F.or_(cp >= 0.1, cp <= -0.1), F.or_(cq >= 0.1, cq <= -0.1)))
        t = mt.shear_about_centre(obj, phi, psi, degrees=True)
        M = K.arr(F, [[1, sp / cp], [sq / cq, 1]])
    elif kind == "affine":
        a = K.mk_transform(F, "Affine", "a", 2)
        t = mt.transform_about_centre(obj, a)
        # the plain transform also translates: acts as x -> centre + A(x - centre) + t_a
        M = a.h_matrix[:2, :2]
        ob.eq("offsets", t.apply(centre[None] + d), (centre + a.h_matrix[:2, 2])[None] + d.dot(M.T))
        ob.true("single_homogeneous", isinstance(t, mt.Homogeneous) and not isinstance(t, mt.TransformChain))
        return
    else:  # a non-homogeneous transform gives a chain that still acts about the centre
        w = mt.WithDims([1, 0])
        t = mt.transform_about_centre(obj, w)
        ob.true("chain", isinstance(t, mt.TransformChain))
        x = centre[None] + d
        ob.eq("chain.law", t.apply(x), (w.apply(x - centre) + centre))
        return
    ob.true("single_homogeneous", isinstance(t, mt.Homogeneous) and not isinstance(t, mt.TransformChain))
    ob.eq("centre_fixed", t.apply(centre[None]), centre[None])
    ob.eq("offsets", t.apply(centre[None] + d), centre[None] + d.dot(M.T))


def scale_factory(F, ob, cfg):
    from menpo.transform import NonUniformScale, Scale, UniformScale

    n, case = cfg["n"], cfg["case"]
    if case == "scalar":
        k = F.real("k", -4, 4)
        zero = F.bool("is_zero")
        if zero:
            try:
                Scale(0.0, n_dims=n)
                ob.fail("zero.refused", "Scale(0, n_dims) accepted")
            except ValueError:
                ob.true("zero.refused", True)
            return
        F.assume(F.or_(k >= 0.01, k <= -0.01))
        t = Scale(k if F.sym else float(k), n_dims=n)
        ob.true("scalar.uniform", type(t) is UniformScale)
        ob.eq("scalar.matrix", t.h_matrix[:n, :n], np.eye(n) * k)
        return
    f = F.reals("f", (n,), -4, 4)
    if case == "equal":
        for i in range(1, n):
            F.assume(F.eq(f[i], f[0]))
        F.assume(F.or_(f[0] >= 0.01, f[0] <= -0.01))
        t = Scale(f)
        ob.true("equal.uniform", type(t) is UniformScale)
        ob.eq("equal.matrix", t.h_matrix[:n, :n], np.eye(n) * f[0])
    elif case == "different":
        for v in f:
            F.assume(F.or_(v >= 0.01, v <= -0.01))
        # clearly different: some pair further apart than any tolerance band
        far = [abs(f[i] - f[0]) >= 0.01 + abs(f[0]) * 0.01 for i in range(1, n)]
        F.assume(F.or_(*far) if len(far) > 1 else far[0])
        t = Scale(f)
        ob.true("different.nonuniform", type(t) is NonUniformScale)
        L = np.zeros((n, n)).astype(object if F.sym else float)
        for i in range(n):
            L[i, i] = f[i]
        ob.eq("different.matrix", t.h_matrix[:n, :n], L)
    else:
        i = F.choice("which", list(range(n)))
        for j in range(n):
            if j == i:
                F.assume(F.eq(f[j], 0))
            else:
                F.assume(F.or_(f[j] >= 0.01, f[j] <= -0.01))
        try:
            Scale(f)
            ob.fail("zero.refused", "Scale accepted a zero factor")
        except ValueError:
            ob.true("zero.refused", True)


def tcoords(F, ob, cfg):
    from menpo.transform import Homogeneous, image_coords_to_tcoords, tcoords_to_image_coords

    h, w = K.const(F, cfg["shape"]) if F.sym else cfg["shape"]
    shape = (h, w)
    t2i = tcoords_to_image_coords(shape)
    i2t = image_coords_to_tcoords(shape)
    ob.true("types", isinstance(t2i, Homogeneous) and isinstance(i2t, Homogeneous))
    x = F.reals("x", (2, 2), -2, 2)
    ob.eq("inverse.left", i2t.apply(t2i.apply(x)), x)
    ob.eq("inverse.right", t2i.apply(i2t.apply(x)), x)
    corners_t = np.array([[0.0, 0.0], [1.0, 0.0], [1.0, 1.0], [0.0, 1.0]])
    one = 1
    want = K.arr(F, [[h - one, 0], [h - one, w - one], [0, w - one], [0, 0]])
    ob.eq("corners", t2i.apply(corners_t), want)
    ob.eq("corners.back", i2t.apply(want), corners_t)
