"""C04 -- pseudoinverse really inverts; alignment inverses swap source and target."""
import numpy as np

from harness import common as K

META = {
    "explanation": "C04: every homogeneous-family class (arbitrary valid member, all parameters symbolic, 2-D and 3-D) "
    "is inverted by its own pseudoinverse() from both sides on symbolic points, the inverse's class is honest, and "
    "alignment variants exchange source and target with target = inverse(source). PiecewiseAffine: symbolic target "
    "vertices over concrete triangulations (and the reverse), symbolic query point inside the domain, both "
    "compositions are the identity and vertices map back exactly. ThinPlateSplines: the pseudoinverse built from an "
    "arbitrary valid forward state (symbolic forward source, concrete forward target, both kernels) must be the "
    "spline fitted in the reverse direction: kernel centred on its own source, singular-value floor carried, every "
    "target landmark sent back onto its source landmark (linear real arithmetic over a concrete SVD).",
    "bounds": ["n_dims in {2,3}", "2 symbolic evaluation points", "PWA: 1-2 triangles, 1 symbolic query point",
               "TPS: 4-5 landmarks from a stated list of 3 concrete landmark sets", "parameters boxed as in C03"],
    "stubs": ["numpy.linalg.inv/det -> cofactor closed forms", "TPS: SVD of the concrete system matrix runs in real "
              "LAPACK, floats lifted exactly; interpolation obligations carry tolerance 1e-7*(1+|.|)"],
    "assumptions": ["floats are modelled as exact reals", "operands satisfy their class invariant",
                    "PWA triangles non-degenerate (|area| >= 0.05)"],
    "not_covered": ["TPS with symbolic kernel centres (log of symbolic distances inside a 6x6 SVD)", "n_dims > 3",
                    "inexact AlignmentAffine fits in 3-D (align_inexact: 2-D only for that class; the symbolic 4x4 inverse "
                    "takes 23 minutes of polynomial arithmetic)"],
    "trusted": ["class-honesty predicates", "barycentric oracle in the harness"],
}

TPS_SETS = [
    [[0, 0], [1, 0.1], [0.2, 1], [1.3, 1.2]],
    [[0, 0], [1, 0.1], [0.2, 1], [1.3, 1.2], [0.5, 0.4]],
    [[-1, -1], [2, -0.5], [0.3, 1.7], [2.2, 2.1], [0.9, 0.2]],
]


def instances(tier):
    out = []
    dims = [2] if tier == "quick" else [2, 3]
    for n in dims:
        for k in K.FAMILY:
            out.append(("homog", {"kind": k, "n": n}))
    if tier != "quick":
        out.append(("homog", {"kind": "Homogeneous", "n": 2, "projective": True}))
    else:
        for k in ("Affine", "Rotation", "AlignmentSimilarity", "NonUniformScale"):
            out.append(("homog", {"kind": k, "n": 3}))
    # alignments built by their real constructors from symbolic, NOT exactly related point sets (so that the
    # alignment's target differs from transform(source) and an exchange of ends is observable by value)
    for k in ("AlignmentAffine", "AlignmentTranslation", "AlignmentUniformScale"):
        for n in dims:
            if k == "AlignmentAffine" and n == 3:
                continue  # 23 minutes of polynomial arithmetic (inverse of a symbolic 4x4 fit): 2-D only
            out.append(("align_inexact", {"kind": k, "n": n}))
    out.append(("pwa", {"sym": "target", "tris": 1, "symv": [0, 1, 2]}))
    for sym_side in ("target", "source"):
        for v in range(4):
            out.append(("pwa", {"sym": sym_side, "tris": 2, "symv": [v]}))
        # the target handed over as a TriMesh that carries a triangulation of its own (the other diagonal)
        for v in ((3,) if tier == "quick" else range(4)):
            out.append(("pwa", {"sym": sym_side, "tris": 2, "symv": [v], "target_mesh": True}))
        if tier != "quick":
            for v in range(3):
                out.append(("pwa", {"sym": sym_side, "tris": 1, "symv": [v, (v + 1) % 3]}))
    sets = [1] if tier == "quick" else [0, 1, 2]
    for s in sets:
        for kern in ("R2LogR2RBF", "R2LogRRBF"):
            out.append(("tps_back", {"set": s, "kernel": kern, "msv": 1e-4}))
    if tier != "quick":
        out.append(("tps_back", {"set": 1, "kernel": "R2LogR2RBF", "msv": 1e-6}))
    return out


def homog(F, ob, cfg):
    import menpo.transform as mt
    from menpo.transform.base import Alignment

    n = cfg["n"]
    t = K.mk_transform(F, cfg["kind"], "a", n)
    x = F.reals("x", (2, n))
    snap = K.snapshot(t.h_matrix)
    inv = t.pseudoinverse()
    ob.true("has_true_inverse", t.has_true_inverse is True)
    ob.eq("left", inv.apply(t.apply(x)), x)
    ob.eq("right", t.apply(inv.apply(x)), x)
    ob.true("class", isinstance(inv, mt.Homogeneous) and not isinstance(inv, mt.TransformChain))
    K.honest(F, ob, "honest", inv)
    ob.eq("det(inv)det(t)=1", K.det(inv.h_matrix) * K.det(t.h_matrix), 1)
    if isinstance(t, Alignment):
        ob.true("align.type", type(inv) is type(t))
        # source and target exchanged (by value: an implementation is free to copy the point sets)
        ob.eq("align.swapped.source", inv.source.points, t.target.points)
        ob.eq("align.swapped.target", inv.target.points, t.source.points)
        ob.eq("align.target=inv(source)", inv.apply(inv.source.points), inv.target.points)
        ob.eq("align.aligned_source", inv.aligned_source().points, inv.target.points)
    else:
        ob.true("type", isinstance(inv, type(t)) or isinstance(t, type(inv)))
    K.same_terms(F, ob, "self.unchanged", snap, t.h_matrix)


S0 = [[0.0, 0.0], [2.0, 0.5], [0.5, 2.0], [2.5, 2.5]]
T0 = [[0.25, -0.25], [2.5, 1.0], [0.0, 2.25], [3.0, 2.75]]


def align_inexact(F, ob, cfg):
    """pseudoinverse of an alignment fitted to inexactly related point sets: ends exchanged, exact inverse map"""
    import menpo.transform as mt
    from menpo.shape import PointCloud

    n = cfg["n"]
    npts = n + 2
    if cfg["kind"] == "AlignmentAffine":
        # the least-squares fit is a rational function of the source; keep the source concrete (exact constants)
        # and the target symbolic, otherwise the polynomials of fit and inverse explode
        base = [[0.0, 0.0, 0.5], [2.0, 0.5, 0.0], [0.5, 2.0, 1.0], [2.5, 2.5, 2.0], [1.0, -1.0, 3.0]]
        s = K.const(F, [r[:n] for r in base[:npts]])
    else:
        s = F.reals("s", (npts, n), -4, 4)
    tg = F.reals("t", (npts, n), -4, 4)
    S, T = PointCloud(s, copy=False), PointCloud(tg, copy=False)
    if cfg["kind"] == "AlignmentUniformScale":
        sc, tc = s - S.centre(), tg - T.centre()
        F.assume((sc * sc).sum() >= 0.05)
        F.assume((tc * tc).sum() >= 0.05)
    al = getattr(mt, cfg["kind"])(S, T)
    ss, st = K.snapshot(al.source.points), K.snapshot(al.target.points)
    inv = al.pseudoinverse()
    ob.true("type", type(inv) is type(al))
    ob.eq("swapped.source", inv.source.points, tg)
    ob.eq("swapped.target", inv.target.points, s)
    x = F.reals("x", (1, n))
    ob.eq("left", inv.apply(al.apply(x)), x)
    ob.eq("right", al.apply(inv.apply(x)), x)
    K.same_terms(F, ob, "original.source", ss, al.source.points)
    K.same_terms(F, ob, "original.target", st, al.target.points)
    inv2 = inv.pseudoinverse()
    ob.eq("double.h_matrix", inv2.h_matrix, al.h_matrix)
    ob.eq("double.source", inv2.source.points, s)
    ob.eq("double.target", inv2.target.points, tg)


def _tri_pts(F, tag, tris, base, symv):
    """vertices: those listed in `symv` are symbolic, the others exact constants from `base`"""
    p = K.const(F, base[: 2 + tris])
    for i in symv:
        p[i] = F.reals("%s%d" % (tag, i), (2,), -6, 6)
    return p


def _area2(p, tri):
    a, b, c = p[tri[0]], p[tri[1]], p[tri[2]]
    return (b[0] - a[0]) * (c[1] - a[1]) - (b[1] - a[1]) * (c[0] - a[0])


def pwa(F, ob, cfg):
    """PiecewiseAffine: both compositions are the identity; vertices map back exactly"""
    from menpo.shape import PointCloud, TriMesh
    from menpo.transform import PiecewiseAffine

    tris = cfg["tris"]
    trilist = np.array([[0, 1, 2], [1, 3, 2]][:tris])
    src = _tri_pts(F, "s", tris, S0, cfg["symv"] if cfg["sym"] == "source" else [])
    tgt = _tri_pts(F, "t", tris, T0, cfg["symv"] if cfg["sym"] == "target" else [])
    for p in (src, tgt):
        for tri in trilist:
            a2 = _area2(p, tri)
            # same orientation as the base triangulation and non-degenerate
            F.assume(a2 >= 0.1)
    if cfg.get("target_mesh"):
        target = TriMesh(tgt, np.array([[0, 1, 3], [0, 3, 2]]), copy=False)
    else:
        target = PointCloud(tgt, copy=False)
    pw = PiecewiseAffine(TriMesh(src, trilist, copy=False), target)
    inv = pw.pseudoinverse()
    ob.true("type", type(inv) is type(pw))
    ob.true("has_true_inverse", pw.has_true_inverse is True)
    ob.eq("swapped.source", inv.source.points, pw.target.points)
    ob.eq("swapped.target", inv.target.points, pw.source.points)
    ob.true("swapped.trilist", np.array_equal(inv.source.trilist, trilist))
    # vertices map back exactly
    ob.eq("vertices.back", inv.apply(tgt), src)
    ob.eq("vertices.fwd", pw.apply(src), tgt)
    # an interior point of triangle k (barycentric weights symbolic)
    k = F.choice("tri", list(range(tris)))
    u = F.real("u", 0, 1)
    v = F.real("v", 0, 1)
    F.assume(F.and_(u > 0, v > 0, u + v < 1))
    tri = trilist[k]
    q = src[tri[0]] + (src[tri[1]] - src[tri[0]]) * u + (src[tri[2]] - src[tri[0]]) * v
    q = np.array([list(q)], dtype=object if F.sym else float)
    y = pw.apply(q)
    expect = tgt[tri[0]] + (tgt[tri[1]] - tgt[tri[0]]) * u + (tgt[tri[2]] - tgt[tri[0]]) * v
    ob.eq("affine.inside", y[0], expect)
    ob.eq("left", inv.apply(y), q)
    z = inv.apply(np.array([list(expect)], dtype=object if F.sym else float))
    ob.eq("right", pw.apply(z)[0], expect)


def tps_back(F, ob, cfg):
    """the TPS pseudoinverse is the spline fitted in the reverse direction"""
    import menpo.transform as mt
    import menpo.transform.thinplatesplines as tp
    from menpo.shape import PointCloud

    fwd_target = np.array(TPS_SETS[cfg["set"]], dtype=float)
    n = fwd_target.shape[0]
    fwd_source = F.reals("s", (n, 2), -3, 3)
    kcls = getattr(mt, cfg["kernel"])
    # arbitrary valid forward state: pseudoinverse() only reads source, target, kernel, min_singular_val
    fwd = tp.ThinPlateSplines.__new__(tp.ThinPlateSplines)
    fwd._source = PointCloud(fwd_source, copy=False)
    fwd._target = PointCloud(fwd_target, copy=False)
    fwd.kernel = kcls(fwd._source.points)
    fwd.min_singular_val = cfg["msv"]
    fwd.coefficients = None
    inv = fwd.pseudoinverse()
    ob.true("type", type(inv) is tp.ThinPlateSplines)
    # (ends exchanged BY VALUE: the property does not promise the same objects)
    ob.eq("swapped.source", inv.source.points, fwd.target.points)
    ob.eq("swapped.target", inv.target.points, fwd.source.points)
    ob.true("kernel.class", type(inv.kernel) is kcls)
    ob.eq("kernel.centres", inv.kernel.c, inv.source.points)
    ob.true("min_singular_val", inv.min_singular_val == cfg["msv"])
    back = inv.apply(fwd_target)
    ob.eq("back", back, fwd_source, tol=1e-7)
    ob.true("has_true_inverse", fwd.has_true_inverse is False)
