"""Image sampling models for symbolic execution.

sampler_model: a model of scipy.ndimage.map_coordinates (orders 0 and 1, modes 'constant' and 'nearest') on
arrays whose pixels may be symbolic variables and whose sample coordinates may be symbolic: indices are
concretised by forking, so the result is the very pixel terms (order 0) or their bilinear mix (order 1).
Semantics (validated differentially against scipy by `validate()`): mode 'constant': a point with any
coordinate outside [0, n-1] gives cval; 'nearest': coordinates are clamped to [0, n-1]; order 0 picks index
floor(x + 1/2); order 1 interpolates linearly between floor(x) and floor(x)+1 (capped at n-1).

logging_sampler: records (source tag, points, order, mode, cval) and returns opaque values (uninterpreted
function applications for numeric sources, all-True for boolean sources); used where only the sampling
coordinates matter (C01).
"""
import math

import numpy as np
import z3

from symx import core
from symx.core import Sym


def _clampc(x, n):
    """clamp coordinate to [0, n-1] (forks on symbolic input)"""
    if x < 0:
        return 0
    if x > n - 1:
        return n - 1
    return x


def _floor_int(x):
    x = core.resolve(x)
    if isinstance(x, Sym):
        if core._single_atom(x) is not None:
            # an affine image of one atom: pin the atom itself when it is integer valued
            v = core.concretize_int(x)
            return v
        return core.concretize_int(x.__floor__())
    return int(math.floor(x))


def sample_point(pix, coords, mode, order, cval):
    """pix: (d1,..,dk) array (one channel); coords: k coordinates"""
    shape = pix.shape
    if mode not in ("constant", "nearest"):
        raise core.Unsupported("sampler mode %r" % (mode,))
    cs = []
    for x, n in zip(coords, shape):
        if mode == "constant":
            if x < 0 or x > n - 1:
                return cval
            cs.append(x)
        else:
            cs.append(_clampc(x, n))
    if order == 0:
        idx = tuple(min(_floor_int(x + 0.5 if not isinstance(x, Sym) else x + core.Fr(1, 2)), n - 1) for x, n in zip(cs, shape))
        return pix[idx]
    if order == 1:
        lo, w = [], []
        for x, n in zip(cs, shape):
            i0 = min(_floor_int(x), n - 1)
            lo.append(i0)
            w.append(x - i0)
        total = 0
        for corner in np.ndindex(*([2] * len(shape))):
            wt = 1
            idx = []
            skip = False
            for d, bit in enumerate(corner):
                i = lo[d] + bit
                if bit and i > shape[d] - 1:
                    i = shape[d] - 1
                wt = wt * (w[d] if bit else (1 - w[d]))
                idx.append(i)
            total = total + pix[tuple(idx)] * wt
        return total
    raise core.Unsupported("sampler order %r" % (order,))


def sampler_model(pixels, points_to_sample, mode="constant", order=1, cval=0.0):
    pts = np.asarray(points_to_sample)
    dt = object if (pixels.dtype == object or pts.dtype == object or isinstance(cval, Sym)) else pixels.dtype
    out = np.empty((pixels.shape[0], pts.shape[0]), dtype=dt)
    for k in range(pts.shape[0]):
        # coordinates over atoms that this path has already pinned become plain numbers (no further queries)
        coords = [core.resolve(v) for v in pts[k]]
        for c in range(pixels.shape[0]):
            out[c, k] = sample_point(pixels[c], coords, mode, order, cval)
    return out


def install_sampler_model(F, *modules):
    for m in modules:
        F.patch(m, "scipy_interpolation", sampler_model)


def validate(seed=0, n=300):
    """differential validation of sampler_model against scipy on concrete inputs"""
    from scipy.ndimage import map_coordinates

    rnd = np.random.RandomState(seed)
    for _ in range(n):
        nd = rnd.choice([1, 2, 3])
        shape = tuple(rnd.randint(1, 5, size=nd))
        pix = rnd.rand(1, *shape)
        pts = rnd.uniform(-1.5, max(shape) + 0.5, size=(6, nd))
        pts[0] = np.round(pts[0])
        pts[1] = np.round(pts[1] * 2) / 2  # half-integers: rounding ties
        for mode in ("constant", "nearest"):
            for order in (0, 1):
                ref = map_coordinates(pix[0], pts.T, mode=mode, order=order, cval=-3.5)
                got = sampler_model(pix, pts, mode=mode, order=order, cval=-3.5)[0]
                if not np.allclose(ref, np.asarray(got, dtype=float), atol=1e-12):
                    return False, (shape, mode, order, pts.tolist(), ref.tolist(), list(map(float, got)))
    return True, None


# ---------------------------------------------------------------- logging sampler
_UF = {}


def _uf(tag, nd):
    key = (tag, nd)
    if key not in _UF:
        _UF[key] = z3.Function("pix_%s_%d" % (tag, nd), *([z3.IntSort()] + [z3.RealSort()] * nd + [z3.RealSort()]))
    return _UF[key]


class LoggingSampler:
    """interception of scipy_interpolation: in symbolic mode returns opaque values, in concrete mode calls through"""

    def __init__(self, F, real):
        self.F, self.real, self.calls, self.tags = F, real, [], {}

    def tag(self, array, name):
        self.tags[id(array)] = name

    def __call__(self, pixels, points_to_sample, mode="constant", order=1, cval=0.0):
        name = self.tags.get(id(pixels), "src%d" % len(self.tags))
        pts = np.asarray(points_to_sample)
        self.calls.append({"source": name, "points": pts, "mode": mode, "order": order, "cval": cval,
                           "dtype": str(pixels.dtype), "shape": pixels.shape})
        if not self.F.sym:
            return self.real(pixels, points_to_sample, mode=mode, order=order, cval=cval)
        if pixels.dtype == bool:
            return np.ones((pixels.shape[0], pts.shape[0]), dtype=bool)
        nd = pts.shape[1]
        f = _uf(name, nd)
        out = np.empty((pixels.shape[0], pts.shape[0]), dtype=object)
        for k in range(pts.shape[0]):
            args = [core.lift(v) for v in pts[k]]
            for c in range(pixels.shape[0]):
                out[c, k] = Sym.var(f(z3.IntVal(c), *args))
        return out


def install_logging_sampler(F, *modules):
    import menpo.image.interpolation as ii

    ls = LoggingSampler(F, ii.scipy_interpolation)
    for m in modules:
        F.patch(m, "scipy_interpolation", ls)
    return ls
