"""C19 -- lazy lists are faithful and truly lazy under every combination of operations.

Decided by CrossHair (primary engine) over the conditions in /verif/crosshair/c19_conditions.py, which run the REAL
menpo.base.LazyList; the same condition bodies run a second time under SYMX's fork driver (cross-check engine).

Key reduction (DESIGN.md, C19): every LazyList operation treats the stored callables as opaque -- it calls them or
re-wraps them -- so an arbitrary reachable LazyList is a list of opaque thunks.  The state of a condition is therefore
a base list of n <= 4 *logging* thunks (thunk i appends i to a shared log and returns the symbolic integer v_i) and ONE
operation with symbolic arguments; programs of two / three operations are run as a cross-check of the reduction.  The
reference is a plain Python list of (value expression, expected log entries) pairs on which the same operation is
performed with ordinary list semantics.  See the docstring of the conditions file for the facts stated per condition.

pre_run(tier) launches `python -m crosshair check --report_all --per_condition_timeout N file.py:LINE` once per
condition (per shard for the large ones: environment variable C19_SHARD=i/k restricts a designated argument to one
residue class; a condition is confirmed when every shard is "Confirmed over all paths") on a pool of 16 processes,
plus every reachability twin NAME__reach ("post: not __return__", where the function returns whether the interesting
branch -- non-empty result read back / expected error observed -- was reached; CrossHair must refute it, which is
stronger than refuting "post: False").  Verdicts: "Confirmed over all paths" -> discharged; a counterexample is
replayed in a fresh interpreter against the unpatched LazyList through replay_case() (file under
/verif/replays/C19/) and reported as a VIOLATION only if it reproduces (otherwise INCONCLUSIVE: engine mismatch);
"Not confirmed", "Unable to meet precondition", time-outs, crashes and unrefuted twins are INCONCLUSIVE.

Developer self test: `C19_SELFTEST=1 ./check C19 --no-evidence` runs every seeded bug of c19_conditions.mutants()
(environment variable C19_MUTANT for CrossHair, cfg flag "selftest_mutant" for SYMX and for the replay) against the
condition that must see it, and every textual source change of SRC_MUTANTS against the importer harnesses; each must
come out as a VIOLATION.  Never part of a normal run.  Debugging switches: C19_NO_CROSSHAIR=1 / C19_NO_XCHECK=1 run only
one of the two engines; `--only regex` restricts the CrossHair conditions as well as the SYMX instances.

A recorded finding (known_findings.json, property C19, harness = condition name, obligation = regex over the failing
fact names of the replay) is printed as KNOWN-FINDING by pre_run itself, because results of an external engine bypass
the matching in symx/main.py.
"""
import ast
import concurrent.futures as cf
import hashlib
import json
import os
import re
import subprocess
import sys
import time

HERE = os.path.dirname(os.path.dirname(os.path.abspath(__file__)))
COND_DIR = os.path.join(HERE, "crosshair")
COND_FILE = os.path.join(COND_DIR, "c19_conditions.py")
REPLAY_DIR = os.path.join(HERE, "replays", "C19")

META = {
    "explanation": "C19: CrossHair conditions over the real menpo.base.LazyList. State: a base list of n<=4 logging "
    "thunks (thunk i appends i to a log and returns the symbolic integer v_i; also built through "
    "init_from_index_callable and init_from_iterable, the constructors used by the importers). One operation with "
    "symbolic arguments per condition -- integer index (int / numpy integer / __index__ object; positive, negative, "
    "out of range), slice with every None pattern and start/stop/step as integers (step 0 included), index list / "
    "tuple / int64 ndarray / generator / iterator / lazy list of indices (entries one step beyond the valid range on "
    "both sides), repeat(r) for r=-2..5 (int and numpy integer), + with a LazyList (either side, and with itself), a "
    "plain list / tuple / generator / iterator of symbolic values and with non-iterables, copy, map with one callable, "
    "with a list / tuple of callables x -> 2x + c_i (symbolic c_i, so composition order and element/function pairing "
    "matter), with a wrong number of callables and with an ambiguous callable iterable -- is applied to the real list "
    "and to a plain-list model of (value, expected log entries) pairs. Facts stated: the result is a LazyList of the "
    "model's length and the log is empty after the operation; for EVERY position (positive and negative index) the "
    "value equals the model's and the log then holds exactly the entries the element depends on, once each, in "
    "evaluation order; out-of-range reads raise IndexError and evaluate nothing; iteration yields the same values "
    "evaluating each element once; errors are raised exactly where a plain list / the documentation raises them and "
    "evaluate nothing; the receiver and every other LazyList operand keep the same _callables list object with "
    "identical thunks and read exactly as before. Elements whose evaluation raises (ValueError / KeyError, and "
    "IndexError in a condition of its own) on the base list and after map / repeat / +: the operation stays lazy, "
    "reading that element raises exactly its error after evaluating it once, every other element reads normally, and "
    "iteration yields the elements before it and then surfaces the same error instead of ending silently. Programs of two (thorough: three) operations from a menu of 14 "
    "(map single/per element, five slices, index list, index array, repeat, + lazy, + plain, copy, self +) check every "
    "intermediate list as well. The operation arguments are made concrete inside each condition by bisection, so a "
    "CrossHair path is one argument tuple with all element values / map constants symbolic; 'Confirmed over all paths' "
    "is therefore exhaustive over the stated argument ranges and universal over the values. In the result lines of "
    "this property 'paths' counts CrossHair executions, 'queries' likewise, 'solver_s' is CrossHair CPU time; an "
    "obligation is one condition shard or one reachability twin. The xcheck instances run the same condition bodies "
    "under SYMX (arguments forked by F.int, values as symbolic reals, one z3 obligation per stated fact; the small "
    "conditions and the two-operation programs in the quick tier, everything in the thorough tier). The imp_* harnesses "
    "(SYMX only) run menpo.io.input.base._import_glob_lazy_list (behind import_images / import_videos / "
    "import_landmark_files / import_pickles), _import_lazylist_attach_landmarks and menpo.io.input.video.ffmpeg_importer "
    "with the directory listing, the per-file importer and the ffmpeg reader replaced by logging stand-ins: one element "
    "per listed file / frame (cut to max_assets, after the optional shuffle), nothing imported or resolved until an "
    "element is read, element k imports / reads exactly item k once with the caller's options, landmark groups are "
    "attached per frame iff the dimensionality matches, the generator form imports one file per step; imp_wrappers: "
    "import_images / import_videos / import_landmark_files / import_pickles forward max count, shuffle, generator form "
    "and the fitting landmark attachment to _import_glob_lazy_list and return its lazy list as is.",
    "bounds": ["base lists of length 0..4 (slice with three integers: 0..3 quick, 4 thorough; programs: 0..3, three "
               "operations: 2..3)",
               "integer index -6..6; slice start/stop -5..5 (n<=3) and -6..6 (n=4, thorough), step -4..4 / -5..5 "
               "including 0; None patterns: every one of the 7, given fields -6..6",
               "index containers of 0..2 entries in [-n-1, n] for six container kinds (thorough: 3 entries, n<=3, "
               "list / ndarray / iterator)",
               "repeat -2..5; + with 0..3 further elements; map with 0..5 callables",
               "programs: every pair (thorough: triple) of the 14 menu operations",
               "raising element: lists of 1..4 elements, every position, three error types, four list shapes",
               "importers: 0..4 files / frames, max_assets in {None, -1, 0, 1, 2, 3, 5}, list and generator form, "
               "with and without shuffle; 1..2 videos with four landmark-resolver behaviours",
               "element values, map constants and plain-list items: unbounded symbolic integers (SYMX: reals in "
               "[-8,8])"],
    "stubs": ["LazyList conditions: none -- the real LazyList, functools.partial, itertools.chain and list slicing "
              "run; numpy only builds concrete index arrays",
              "importer harnesses: glob_with_suffix -> fixed list of paths; _import -> logging stand-in returning a "
              "symbolic value per path; random.shuffle -> reversal; FFMpegVideoReader -> logging stand-in with "
              "concrete frames"],
    "assumptions": ["the stored callables are opaque to LazyList (it only calls or re-wraps them), so logging thunks "
                    "returning symbolic integers stand for arbitrary elements",
                    "argument ranges one or more steps beyond the list length on both sides exhibit every clamping "
                    "behaviour of list slicing / indexing"],
    "not_covered": ["programs deeper than three operations and base lists longer than 4 (covered by the reduction "
                    "argument, cross-checked to depth 3 only)",
                    "boolean index arrays (excluded by the property), 0-d index arrays, multi-dimensional index arrays",
                    "map with an iterable of callables that has no len() (a generator): menpo raises TypeError",
                    "LazyList built directly on a non-list sequence of callables (e.g. a tuple), which + does not support",
                    "[1, 2] + lazy_list (no __radd__), attributes attached to a LazyList (fps of video lists)",
                    "the file-system / ffmpeg side of the importers (directory globbing, file parsing, the ffmpeg pipe): "
                    "replaced by stand-ins; verbose progress printing",
                    "Sequence mix-ins other than iteration (index, count, in, reversed)"],
    "trusted": ["CrossHair 0.0.110 (symbolic integers, path enumeration, 'Confirmed over all paths')",
                "the plain-list reference model and fact collector in crosshair/c19_conditions.py",
                "CPython list semantics as the definition of 'the same operations on an ordinary list'"],
}

FUNCTIONS = ["menpo/base.py:LazyList.__init__", "menpo/base.py:LazyList.__getitem__", "menpo/base.py:LazyList.__len__",
             "menpo/base.py:LazyList.init_from_iterable", "menpo/base.py:LazyList.init_from_index_callable",
             "menpo/base.py:LazyList.map", "menpo/base.py:LazyList.repeat", "menpo/base.py:LazyList.copy",
             "menpo/base.py:LazyList.__add__", "menpo/base.py:Copyable.copy"]

# condition -> (tier it starts in, number of shards in the quick tier (0: not run), in the thorough tier)
PLAN = {
    "base": ("quick", 1, 1),
    "index_int": ("quick", 1, 1),
    "slice_sss": ("quick", 6, 9),
    "slice_none": ("quick", 6, 9),
    "fancy": ("quick", 6, 6),
    "repeat": ("quick", 1, 1),
    "add_lazy": ("quick", 1, 1),
    "add_plain": ("quick", 1, 1),
    "add_bad": ("quick", 1, 1),
    "copy": ("quick", 1, 1),
    "mapping": ("quick", 1, 1),
    "raising": ("quick", 1, 1),
    "raising_index_error": ("quick", 1, 1),
    "compose2": ("quick", 7, 14),
    "slice_sss_wide": ("thorough", 0, 11),
    "slice_sss4": ("thorough", 0, 13),
    "slice_none_wide": ("thorough", 0, 13),
    "fancy_wide": ("thorough", 0, 12),
    "fancy3": ("thorough", 0, 8),
    "compose3": ("thorough", 0, 49),
}
TIMEOUT = {"quick": 150, "thorough": 900}

# seeded bug -> condition that must report it (developer self test)
SELFTEST = [("repeat_tiles", "repeat", {}), ("slice_eager", "slice_none", {"pat": 2}), ("map_shares_last", "mapping", {}),
            ("add_in_place", "add_lazy", {}), ("copy_alias", "copy", {}), ("repeat_drops_one", "compose2", {"op1": 2}),
            ("repeat_forgets_map", "compose2", {"op1": 0}), ("slice_neg_start", "slice_sss", {"step": -2})]


# ------------------------------------------------------------------------------------------ conditions file
def _conds():
    if COND_DIR not in sys.path:
        sys.path.insert(0, COND_DIR)
    import c19_conditions

    return c19_conditions


_PARSED = None


def _parse():
    """name -> {line, end, params, ranges, extra} for every function with a contract in the conditions file"""
    global _PARSED
    if _PARSED is not None:
        return _PARSED
    tree = ast.parse(open(COND_FILE).read())
    out = {}
    for node in tree.body:
        if not isinstance(node, ast.FunctionDef):
            continue
        doc = ast.get_docstring(node) or ""
        if "post:" not in doc:
            continue
        pres = [ln.strip()[4:].strip() for ln in doc.splitlines() if ln.strip().startswith("pre:")]
        ranges, extra = {}, []
        for p in pres:
            m = re.fullmatch(r"(-?\d+) <= (\w+) <= (-?\d+)", p)
            if m:
                ranges[m.group(2)] = (int(m.group(1)), int(m.group(3)))
            elif not p.startswith("_shard("):
                extra.append(p)
        out[node.name] = {"line": node.lineno, "end": node.end_lineno, "params": [a.arg for a in node.args.args],
                          "ranges": ranges, "extra": extra,
                          "post": [ln.strip()[5:].strip() for ln in doc.splitlines() if ln.strip().startswith("post:")]}
    _PARSED = out
    return out


def _names(expr):
    return {n.id for n in ast.walk(ast.parse(expr, mode="eval")) if isinstance(n, ast.Name)}


def _name_at(line):
    for name, d in _parse().items():
        if d["line"] <= line <= d["end"]:
            return name
    return None


# ------------------------------------------------------------------------------------------ running CrossHair
_MSG = re.compile(r"^(?P<file>[^:]+):(?P<line>\d+): (?P<kind>info|error): (?P<msg>.*)$")
_CALL = re.compile(r"when calling (?P<call>\w+\(.*?\))(?: \(which (?:returns|raises) .*\))?$")


def _crosshair(names, timeout_cpu, env_extra, wall_limit):
    """one CrossHair process over the named conditions; returns {name: (verdict, message)}, counts, cpu seconds"""
    P = _parse()
    targets = ["%s:%d" % (COND_FILE, P[n]["line"]) for n in names]
    env = dict(os.environ, PYTHONPATH=COND_DIR, PYTHONDONTWRITEBYTECODE="1", PYTHONWARNINGS="ignore",
               C19_COUNTS="1", SYMX_REPO=os.environ.get("SYMX_REPO", "/repo"))
    env.pop("C19_SHARD", None)
    env.pop("C19_MUTANT", None)
    env.update(env_extra)
    cmd = [sys.executable, "-m", "crosshair", "check", "--unblock", "subprocess.Popen", "--report_all",
           "--per_condition_timeout", str(timeout_cpu)] + targets
    t0 = time.time()
    try:
        p = subprocess.run(cmd, cwd=COND_DIR, env=env, capture_output=True, text=True, timeout=wall_limit)
        so, se, rc = p.stdout, p.stderr, p.returncode
    except subprocess.TimeoutExpired as e:
        so = e.stdout.decode() if isinstance(e.stdout, bytes) else (e.stdout or "")
        se = e.stderr.decode() if isinstance(e.stderr, bytes) else (e.stderr or "")
        rc = "wall-timeout"
    wall = time.time() - t0
    verdicts = {}
    for ln in so.splitlines():
        m = _MSG.match(ln.strip())
        if not m:
            continue
        nm = _name_at(int(m.group("line")))
        if nm is None or nm not in names:
            continue
        verdicts.setdefault(nm, []).append((m.group("kind"), m.group("msg")))
    counts = {}
    for ln in se.splitlines():
        if ln.startswith("C19-COUNTS "):
            try:
                counts = json.loads(ln[len("C19-COUNTS "):])
            except ValueError:
                pass
    out = {}
    for n in names:
        vs = verdicts.get(n)
        if not vs:
            tail = " | ".join([x for x in se.strip().splitlines() if "warn" not in x.lower()][-3:])
            out[n] = ("crash", "no verdict from CrossHair (exit %s): %s" % (rc, tail[-400:]))
            continue
        errs = [msg for kind, msg in vs if kind == "error"]
        if errs:
            out[n] = ("cex", errs[0])
        elif any("Confirmed over all paths" in msg for _, msg in vs):
            out[n] = ("confirmed", vs[0][1])
        else:
            out[n] = ("unknown", "; ".join(msg for _, msg in vs))
    return out, counts, wall


def _cex_args(msg):
    """'false when calling f(1, -2, x=3) (which returns False)' -> ('f', {param: int})"""
    m = _CALL.search(msg)
    if not m:
        return None, None
    try:
        call = ast.parse(m.group("call"), mode="eval").body
        name = call.func.id
        params = _parse()[name]["params"]
        args = {}
        for prm, a in zip(params, call.args):
            args[prm] = int(ast.literal_eval(a))
        for kw in call.keywords:
            args[kw.arg] = int(ast.literal_eval(kw.value))
        if set(args) != set(params):
            return name, None
        return name, args
    except Exception:
        return None, None


def _write_replay(cond, args, mutant, obligation, detail):
    os.makedirs(REPLAY_DIR, exist_ok=True)
    cfg = {"cond": cond, "args": args}
    if mutant:
        cfg["selftest_mutant"] = mutant
    body = {"property": "C19", "spec": {"prop": "C19", "module": "harness.c19", "func": "replay_case", "cfg": cfg},
            "obligation": obligation, "prefix": "", "kind": "crosshair", "inputs": {}, "detail": detail}
    h = hashlib.sha1(json.dumps(body, sort_keys=True).encode()).hexdigest()[:10]
    path = os.path.join(REPLAY_DIR, "%s-%s.json" % (cond, h))
    json.dump(body, open(path, "w"), indent=1)
    return path


def _run_replay(path):
    p = subprocess.run([sys.executable, "-m", "symx.replay", path], cwd=HERE, capture_output=True, text=True,
                       timeout=600, env=dict(os.environ, PYTHONPATH=HERE))
    for line in p.stdout.splitlines():
        if line.startswith("REPLAY-RESULT "):
            return json.loads(line[len("REPLAY-RESULT "):])
    return {"failed": [], "error": "replay crashed: " + (p.stderr[-600:] or p.stdout[-600:])}


def _match_known(cond, cfg, failed_names):
    """an entry of /verif/known_findings.json (property C19, harness = condition name) that covers EVERY failing fact"""
    p = os.path.join(HERE, "known_findings.json")
    if not os.path.exists(p):
        return None
    for k in json.load(open(p)).get("findings", []):
        if k.get("property") != "C19" or k.get("harness") != cond:
            continue
        if any(cfg.get(a) != b for a, b in k.get("cfg", {}).items()):
            continue
        if failed_names and all(re.fullmatch(k.get("obligation", ".*"), nm) for nm in failed_names):
            return k
    return None


def _jobs(tier, only=None, mutant=None):
    """[(condition, [names run in this process], env, is_twin)]"""
    jobs = []
    twins = []
    small = []
    for cond, (start, sq, st) in PLAN.items():
        if only is not None and cond not in only:
            continue
        k = sq if tier == "quick" else st
        if k == 0:
            continue
        twins.append(cond + "__reach")
        if k == 1:
            small.append(cond)
            continue
        for i in range(k):
            env = {"C19_SHARD": "%d/%d" % (i, k)}
            if mutant:
                env["C19_MUTANT"] = mutant
            jobs.append((cond, [cond], env, False, k))
    # conditions with a few dozen paths share a process (saves the interpreter / menpo start-up)
    for i in range(0, len(small), 3):
        env = {"C19_MUTANT": mutant} if mutant else {}
        jobs.append((None, small[i:i + 3], env, False, 1))
    # twins are refuted within a path or two: a few of them per process
    for i in range(0, len(twins), 4):
        env = {"C19_MUTANT": mutant} if mutant else {}
        jobs.append((None, twins[i:i + 4], env, True, 1))
    return jobs


def _pre_run(tier, plan=None, only=None):
    """plan: None (normal run) or [(mutant, condition, _)] for the self test; only: restrict to these conditions"""
    tmo = TIMEOUT["quick" if tier == "quick" else "thorough"]
    jobs = []
    if plan is None:
        jobs = [(None,) + j for j in _jobs(tier, only=only)]
    else:
        for mutant, cond, _fix in plan:
            jobs += [(mutant,) + j for j in _jobs(tier if PLAN[cond][1] else "thorough", only=[cond], mutant=mutant)]
    # long conditions first
    weight = {"compose3": 9, "compose2": 5, "slice_sss_wide": 4, "slice_sss4": 4, "slice_none_wide": 4, "fancy_wide": 4,
              "fancy3": 4, "slice_sss": 3, "slice_none": 3, "fancy": 3, "repeat": 2, "index_int": 2}
    jobs.sort(key=lambda j: -weight.get(j[1] or "", 0))
    results = {}  # (mutant, cond) -> aggregate
    workers = int(os.environ.get("SYMX_JOBS", "16"))
    with cf.ThreadPoolExecutor(max_workers=workers) as ex:
        futs = {ex.submit(_crosshair, j[2], tmo, j[3], tmo * 6 + 120): j for j in jobs}
        for f in cf.as_completed(futs):
            mutant, cond, names, env, is_twin, k = futs[f]
            try:
                verdicts, counts, wall = f.result()
            except Exception as e:  # engine failure: never a verdict
                verdicts, counts, wall = {n: ("crash", "%s: %s" % (type(e).__name__, e)) for n in names}, {}, 0.0
            for n in names:
                base = n[:-len("__reach")] if n.endswith("__reach") else n
                agg = results.setdefault((mutant, base), {"shards": [], "twin": None, "paths": 0, "cpu": 0.0,
                                                          "wall": 0.0, "k": 0})
                if is_twin:
                    agg["twin"] = verdicts[n]
                else:
                    agg["shards"].append((env.get("C19_SHARD", "0/1"), verdicts[n]))
                    agg["k"] = k
                agg["paths"] += counts.get(n, 0)
                agg["wall"] = max(agg["wall"], wall)
                agg["cpu"] += wall / max(1, len(names))
    out = []
    known_printed = set()
    for (mutant, cond), agg in sorted(results.items(), key=lambda kv: (str(kv[0][0]), kv[0][1])):
        cfg = {"engine": "crosshair", "shards": agg["k"], "timeout_cpu_s": tmo}
        if mutant:
            cfg["selftest_mutant"] = mutant
        res = {"spec": {"prop": "C19", "module": "harness.c19", "func": cond, "cfg": cfg}, "external": True,
               "paths": agg["paths"], "paths_with_obligations": agg["paths"], "obligations": len(agg["shards"]) + 1,
               "discharged": 0, "syntactic": 0, "undecided": [], "cex": [], "reach": 1, "infeasible": 0, "aborted": [],
               "notes": [], "unsupported": [], "functions": list(FUNCTIONS), "samples": [], "exhaustive": True,
               "stats": {"queries": agg["paths"], "solver_s": round(agg["cpu"], 2)}, "wall_s": round(agg["wall"], 2),
               "violations": [], "inconclusive": []}
        tag = "%s%s" % (cond, json.dumps(cfg, sort_keys=True))
        seen_cex = set()
        for shard, (verdict, msg) in sorted(agg["shards"]):
            if verdict == "confirmed":
                res["discharged"] += 1
                if not res["samples"]:
                    P = _parse()[cond]
                    res["samples"].append({"obligation": cond, "path": "crosshair shard %s" % shard,
                                           "verdict": "Confirmed over all paths",
                                           "negated_goal_smt": "pre: " + "; ".join(
                                               ["%d <= %s <= %d" % (lo, p, hi) for p, (lo, hi) in P["ranges"].items()]
                                               + P["extra"]) + " | post: " + "; ".join(P["post"])})
            elif verdict == "cex":
                name, args = _cex_args(msg)
                if args is None or name != cond:
                    res["inconclusive"].append("unparsed CrossHair counterexample %s shard %s: %s" % (tag, shard, msg))
                    continue
                key = json.dumps(args, sort_keys=True)
                if key in seen_cex:
                    continue
                seen_cex.add(key)
                path = _write_replay(cond, args, mutant, cond, msg)
                rr = _run_replay(path)
                if rr.get("failed"):
                    k = None if mutant else _match_known(cond, cfg, [nm for nm, _ in rr["failed"]])
                    if k is not None:
                        if k["what"] not in known_printed:
                            known_printed.add(k["what"])
                            print("KNOWN-FINDING: property=C19 %s" % k["what"])
                        res.setdefault("known", []).append({"what": k["what"], "replay": path})
                        continue
                    res["violations"].append({"harness": tag, "obligation": rr["failed"][0][0], "replay": path,
                                              "detail": "CrossHair: %s; replay: %s" % (msg, rr["failed"][:3])})
                else:
                    try:
                        os.remove(path)
                    except OSError:
                        pass
                    res["inconclusive"].append("CrossHair counterexample not reproduced by the real LazyList "
                                               "(engine/encoding mismatch) %s: %s replay=%s" % (
                                                   tag, msg, json.dumps(rr)[:300]))
            else:
                res["inconclusive"].append("%s shard %s: %s (%s)" % (tag, shard, verdict, msg))
        if len(agg["shards"]) != agg["k"]:
            res["inconclusive"].append("%s: %d of %d shards reported" % (tag, len(agg["shards"]), agg["k"]))
        tw = agg["twin"]
        if tw is None:
            res["inconclusive"].append("%s: reachability twin did not run" % tag)
        elif tw[0] == "cex":
            res["discharged"] += 1
        else:
            res["inconclusive"].append("%s: reachability twin not refuted (%s: %s)" % (tag, tw[0], tw[1]))
        res["exhaustive"] = not res["inconclusive"] and not res["violations"]
        out.append(res)
    return out


def _only():
    """the --only regex of ./check (pre_run is not told about it): restricts the CrossHair conditions as well"""
    if "--only" in sys.argv:
        i = sys.argv.index("--only")
        if i + 1 < len(sys.argv):
            return sys.argv[i + 1]
    return None


def pre_run(tier):
    if os.environ.get("C19_NO_CROSSHAIR"):  # debugging the SYMX side alone
        return []
    rx = _only()
    if os.environ.get("C19_SELFTEST"):
        return _pre_run(tier, plan=[t for t in SELFTEST if rx is None or re.search(rx, t[1])])
    return _pre_run(tier, only=None if rx is None else [c for c in PLAN if re.search(rx, c)])


# ------------------------------------------------------------------------------------------ SYMX side
def _install_mutant(F, C, cfg):
    if cfg.get("selftest_mutant"):
        attr, fn = C.mutants()[cfg["selftest_mutant"]]
        F.patch(C.LazyList, attr, fn)


def _state_facts(F, ob, fx):
    from symx.core import Sym, SymB

    for name, got, want in fx.items:
        nm = _flat(name)
        if isinstance(got, (Sym, SymB)) or isinstance(want, (Sym, SymB)):
            ob.eq(nm, got, want)
        elif got is want:
            ob.true(nm, True)
        else:
            try:
                ob.true(nm, bool(got == want))
            except Exception:
                ob.true(nm, False)


def _flat(name):
    if isinstance(name, tuple):
        return ".".join(_flat(x) for x in name)
    return str(name)


def replay_case(F, ob, cfg):
    """one concrete case of one condition (a CrossHair counterexample) against the real LazyList"""
    C = _conds()
    _install_mutant(F, C, cfg)
    fx = C.BUILDERS[cfg["cond"]](**cfg["args"])
    _state_facts(F, ob, fx)


def xcheck(F, ob, cfg):
    """second engine: the body of condition cfg['cond'] with its enumerated arguments forked by SYMX (F.int), the
    element values / constants as symbolic reals, one obligation per fact.  cfg['fix'] pins arguments (instance split)."""
    C = _conds()
    _install_mutant(F, C, cfg)
    P = _parse()[cfg["cond"]]
    fix = cfg.get("fix", {})
    args, env = {}, {}
    pending = [(e, _names(e) & set(P["params"])) for e in P["extra"]]
    for prm in P["params"]:
        if prm in fix:
            args[prm] = env[prm] = fix[prm]
        elif prm in P["ranges"]:
            lo, hi = P["ranges"][prm]
            args[prm] = env[prm] = F.int(prm, lo, hi)
        else:
            args[prm] = None
            continue
        # a precondition is decided as soon as its arguments are chosen (prunes the fork tree early)
        for e, need in list(pending):
            if need <= set(env):
                pending.remove((e, need))
                if not eval(e, vars(C), dict(env)):  # noqa: S307 (precondition text of our own conditions file)
                    F.assume(False)
                    return
    if pending:
        raise RuntimeError("precondition over non-enumerated arguments: %r" % (pending,))
    for prm in P["params"]:
        if args[prm] is None:
            args[prm] = F.real(prm)
    fx = C.BUILDERS[cfg["cond"]](**args)
    _state_facts(F, ob, fx)
    ob.true("facts_stated", len(fx.items) > 0)


# ------------------------------------------------------------------------------------------ importers (SYMX only)
SRC_MUTANTS = {  # seeded source changes for the importer harnesses: name -> (module, function, old text, new text)
    "glob_cut_off_by_one": ("menpo.io.input.base", "_import_glob_lazy_list", "filepaths[:max_assets]",
                            "filepaths[:max_assets - 1]"),
    "glob_eager": ("menpo.io.input.base", "_import_glob_lazy_list", "return lazy_list\n",
                   "return LazyList.init_from_iterable(list(lazy_list))\n"),
    "lm_shifted_frame": ("menpo.io.input.base", "_import_lazylist_attach_landmarks", "for i in range(len(x))",
                         "for i in range(1, len(x) + 1)"),
    "lm_ignores_dims": ("menpo.io.input.base", "_import_lazylist_attach_landmarks", "if obj.n_dims == lm_obj.n_dims:",
                        "if True:"),
    "video_drops_last": ("menpo.io.input.video", "ffmpeg_importer", "reader[x]), len(reader)",
                         "reader[x]), max(len(reader) - 1, 0)"),
    "videos_wrong_attach": ("menpo.io.input.base", "import_videos", "landmark_attach_func=_import_lazylist_attach_landmarks",
                            "landmark_attach_func=_import_object_attach_landmarks"),
    "images_never_generator": ("menpo.io.input.base", "import_images", "as_generator=as_generator", "as_generator=False"),
}


def _src_mutant(F, cfg):
    """developer self test: re-compile one menpo function with a textual change (restored at the end of the path)"""
    name = cfg.get("selftest_mutant")
    if not name:
        return
    import importlib
    import inspect
    import textwrap

    modname, fname, old, new = SRC_MUTANTS[name]
    mod = importlib.import_module(modname)
    src = textwrap.dedent(inspect.getsource(getattr(mod, fname)))
    assert old in src, "self test mutant %s no longer applies" % name
    ns = {}
    exec(compile(src.replace(old, new), "<mutant %s>" % name, "exec"), vars(mod), ns)  # noqa: S102
    F.patch(mod, fname, ns[fname])


class _Frame(object):
    """stand-in for an imported asset: opaque value, dimensionality, landmark dictionary"""

    def __init__(self, value, n_dims=2):
        self.value = value
        self.n_dims = n_dims
        self.landmarks = {}


def imp_glob(F, ob, cfg):
    """menpo.io.input.base._import_glob_lazy_list (behind import_images / import_videos / import_landmark_files /
    import_pickles): with the directory listing and the per-file importer replaced by logging stand-ins, the list has
    one element per listed file (cut to max_assets), importing nothing until an element is read, and element k imports
    file k (after the optional shuffle) exactly once with the caller's options; the generator form imports one file per
    step, in order."""
    import menpo.io.input.base as B
    from menpo.base import LazyList

    _src_mutant(F, cfg)
    n = F.int("n", 0, 4)
    ma = [None, -1, 0, 1, 2, 3, 5][F.int("max_assets", 0, 6)]
    gen = F.bool("as_generator")
    shuffle = F.bool("shuffle")
    vals = [F.real("v%d" % i) for i in range(n)]
    paths = ["/data/f%d.xyz" % i for i in range(n)]
    log, calls = [], []
    emap, lmap, kw = {".xyz": object()}, {".pts": object()}, {"normalize": False}

    def resolver(*a):
        return None

    def attach(*a, **k):
        return None

    def fake_glob(pattern, extension_map, sort=True):
        calls.append((pattern, extension_map is emap, sort))
        for q in paths:
            yield q

    def fake_import(filepath, extensions_map, landmark_resolver=None, landmark_ext_map=None, landmark_attach_func=None,
                    asset=None, importer_kwargs=None):
        log.append((filepath, extensions_map is emap, landmark_resolver is resolver, landmark_ext_map is lmap,
                    landmark_attach_func is attach, asset is None, importer_kwargs is kw))
        return vals[paths.index(filepath)]

    F.patch(B, "glob_with_suffix", fake_glob)
    F.patch(B, "_import", fake_import)
    F.patch(B.random, "shuffle", lambda lst: lst.reverse())  # a deterministic "shuffle"
    order = list(range(n))
    if shuffle:
        order.reverse()
    if ma is not None and ma > 0:
        order = order[:ma]
    expect_error = (ma is not None and ma <= 0) or n == 0
    try:
        out = B._import_glob_lazy_list("/data/*", emap, max_assets=ma, landmark_resolver=resolver, shuffle=shuffle,
                                       as_generator=gen, landmark_ext_map=lmap, landmark_attach_func=attach,
                                       importer_kwargs=kw, verbose=False)
    except ValueError:
        ob.true("ValueError_expected", expect_error)
        ob.true("error.nothing_imported", log == [])
        return
    ob.true("no_error_expected", not expect_error)
    ob.true("listed_once_with_callers_pattern", calls == [("/data/*", True, not shuffle)])
    ob.true("creation.nothing_imported", log == [])
    full = (True,) * 6

    def entry(i):
        return [(paths[i],) + full]

    if gen:
        ob.true("generator.not_a_list", not isinstance(out, (list, LazyList)) and hasattr(out, "__next__"))
        for k, i in enumerate(order):
            got = next(out)
            ob.eq("generator.value[%d]" % k, got, vals[i])
            ob.true("generator.one_import_per_step[%d]" % k, log == entry(i))
            del log[:]
        try:
            next(out)
            ob.true("generator.ends", False)
        except StopIteration:
            ob.true("generator.ends", log == [])
        return
    ob.true("is_lazylist", isinstance(out, LazyList))
    ob.true("len", len(out) == len(order))
    ob.true("len.nothing_imported", log == [])
    for k, i in enumerate(order):
        got = out[k]
        ob.eq("value[%d]" % k, got, vals[i])
        ob.true("imports_only_its_file[%d]" % k, log == entry(i))
        del log[:]
        got = out[k - len(order)]
        ob.eq("value[%d]" % (k - len(order)), got, vals[i])
        ob.true("imports_only_its_file[%d]" % (k - len(order)), log == entry(i))
        del log[:]
    sub = out[::-1]
    ob.true("slice.nothing_imported", log == [] and len(sub) == len(order))
    if order:
        ob.eq("slice.value", sub[0], vals[order[-1]])
        ob.true("slice.imports_only_its_file", log == entry(order[-1]))


def imp_landmarks(F, ob, cfg):
    """menpo.io.input.base._import_lazylist_attach_landmarks (videos): every lazy list among the built objects is
    replaced by a mapped lazy list of the same length; neither a frame nor a landmark resolver runs until a frame is
    read; reading frame k evaluates frame k and then resolver (path, k) only, and attaches exactly the groups whose
    dimensionality matches; without a landmark map / resolver nothing changes."""
    import menpo.io.input.base as B
    from menpo.base import LazyList

    _src_mutant(F, cfg)
    n = F.int("n", 0, 4)
    mode = F.int("mode", 0, 3)  # 0: every frame has landmarks, 1: resolver returns None for odd frames,
    #                              2: landmark of another dimensionality on odd frames, 3: no landmark map
    two = F.bool("two_lists")
    log = []
    vals = [F.real("v%d" % i) for i in range(n)]
    lmv = [F.real("l%d" % i) for i in range(n)]

    def mk(tag, count):
        def frame(i):
            log.append((tag, i))
            return _Frame(vals[i])

        ll = LazyList.init_from_index_callable(frame, count)
        ll.path = tag
        return ll

    def resolver(path, i):
        log.append(("lm", path, i))
        if mode == 1 and i % 2 == 1:
            return None
        lm = _Frame(lmv[i], n_dims=3 if (mode == 2 and i % 2 == 1) else 2)
        return {"g": lm, "h%d" % i: lm}

    lists = [mk("vidA", n)] + ([mk("vidB", max(n - 1, 0))] if two else [])
    originals = list(lists)
    snaps = [(x._callables, list(x._callables)) for x in lists]
    built = list(lists)
    B._import_lazylist_attach_landmarks(built, resolver, landmark_ext_map=None if mode == 3 else {".pts": object()})
    ob.true("nothing_evaluated_by_attaching", log == [])
    ob.true("same_number_of_objects", len(built) == len(lists))
    for j, orig in enumerate(originals):
        new = built[j]
        cnt = len(orig)
        if mode == 3:
            ob.true("no_map.unchanged[%d]" % j, new is orig)
            continue
        ob.true("new_lazylist[%d]" % j, isinstance(new, LazyList) and new is not orig)
        ob.true("len[%d]" % j, len(new) == cnt)
        ob.true("len.nothing_evaluated[%d]" % j, log == [])
        for k in range(cnt):
            fr = new[k]
            ob.true("frame[%d][%d].evaluates_frame_then_its_resolver" % (j, k),
                    log == [(orig.path, k), ("lm", orig.path, k)])
            del log[:]
            ob.true("frame[%d][%d].is_frame" % (j, k), isinstance(fr, _Frame))
            if not isinstance(fr, _Frame):
                continue
            ob.eq("frame[%d][%d].value" % (j, k), fr.value, vals[k])
            none = mode == 1 and k % 2 == 1
            other_dim = mode == 2 and k % 2 == 1
            if none or other_dim:
                ob.true("frame[%d][%d].no_landmarks" % (j, k), fr.landmarks == {})
            else:
                ob.true("frame[%d][%d].groups" % (j, k), sorted(fr.landmarks) == ["g", "h%d" % k])
                if "g" in fr.landmarks:
                    ob.eq("frame[%d][%d].landmark" % (j, k), fr.landmarks["g"].value, lmv[k])
        # the list that was mapped is untouched and still reads frames without landmarks
        ob.true("original_untouched[%d]" % j, orig._callables is snaps[j][0] and len(orig._callables) == len(snaps[j][1])
                and all(a is b for a, b in zip(orig._callables, snaps[j][1])))
        if cnt:
            fr = orig[cnt - 1]
            ob.true("original_reads_plain_frame[%d]" % j, log == [(orig.path, cnt - 1)] and fr.landmarks == {})
            del log[:]


def imp_video(F, ob, cfg):
    """menpo.io.input.video.ffmpeg_importer with the ffmpeg reader replaced by a logging stand-in: one lazy element per
    frame, the reader is not touched until a frame is read, frame k reads reader[k] only and wraps its pixels
    (channels moved to the front), fps is carried."""
    import numpy as np

    import menpo.io.input.video as V
    from menpo.base import LazyList
    from menpo.image import Image

    _src_mutant(F, cfg)
    n = F.int("n", 0, 4)
    log = []
    frames = [np.arange(12, dtype=float).reshape(2, 2, 3) + 100.0 * i for i in range(n)]

    class Reader(object):
        def __init__(self, filepath, normalize=True, exact_frame_count=True):
            self.args = (filepath, normalize, exact_frame_count)
            self.fps = 25.0

        def __len__(self):
            return n

        def __getitem__(self, i):
            log.append(i)
            return frames[i]

    F.patch(V, "FFMpegVideoReader", Reader)
    ll = V.ffmpeg_importer("/data/clip.avi", normalize=False, exact_frame_count=False)
    ob.true("is_lazylist", isinstance(ll, LazyList))
    ob.true("len", len(ll) == n)
    ob.true("fps", ll.fps == 25.0)
    ob.true("nothing_read", log == [])
    for k in range(n):
        for key in (k, k - n):
            im = ll[key]
            ob.true("frame[%d].reads_only_its_frame" % key, log == [k])
            del log[:]
            ob.true("frame[%d].is_image" % key, isinstance(im, Image))
            ob.eq("frame[%d].pixels" % key, np.asarray(im.pixels, dtype=float), np.moveaxis(frames[k], -1, 0))
    rev = ll[::-1].repeat(2)
    ob.true("programs_stay_lazy", log == [] and len(rev) == 2 * n)
    if n:
        rev[1]
        ob.true("program_reads_one_frame", log == [n - 1])


def imp_wrappers(F, ob, cfg):
    """import_images / import_videos / import_landmark_files / import_pickles hand the caller's laziness options
    (max count, shuffle, generator form, verbosity) to _import_glob_lazy_list unchanged, choose the per-asset landmark
    attachment that fits the asset (plain objects vs lazy lists of frames) and return its lazy list as is."""
    _src_mutant(F, cfg)
    import menpo.io.input.base as B

    which = F.int("which", 0, 3)
    ma = [None, 1, 3][F.int("max", 0, 2)]
    shuffle = F.bool("shuffle")
    gen = F.bool("as_generator")
    seen = []
    token = object()

    def fake(pattern, extension_map, **kw):
        seen.append((pattern, extension_map, kw))
        return token

    F.patch(B, "_import_glob_lazy_list", fake)
    if which == 0:
        out = B.import_images("/d/*", max_images=ma, shuffle=shuffle, as_generator=gen, verbose=False)
        emap, attach = B.image_types, B._import_object_attach_landmarks
    elif which == 1:
        out = B.import_videos("/d/*", max_videos=ma, shuffle=shuffle, as_generator=gen, verbose=False)
        emap, attach = B.ffmpeg_video_types, B._import_lazylist_attach_landmarks
    elif which == 2:
        out = B.import_landmark_files("/d/*", max_landmarks=ma, shuffle=shuffle, as_generator=gen, verbose=False)
        emap, attach = B.image_landmark_types, None
    else:
        out = B.import_pickles("/d/*", max_pickles=ma, shuffle=shuffle, as_generator=gen, verbose=False)
        emap, attach = B.pickle_types, None
    ob.true("returns_the_lazy_list_as_is", out is token)
    ob.true("one_call", len(seen) == 1)
    if len(seen) != 1:
        return
    pattern, em, kw = seen[0]
    ob.true("pattern", pattern == "/d/*")
    ob.true("extension_map", em is emap)
    ob.true("max_assets", kw.get("max_assets") == ma and (ma is not None or kw.get("max_assets") is None))
    ob.true("shuffle", kw.get("shuffle", False) is shuffle)
    ob.true("as_generator", kw.get("as_generator", False) is gen)
    ob.true("verbose", kw.get("verbose", False) is False)
    ob.true("landmark_attach_func", kw.get("landmark_attach_func") is attach)
    if attach is not None:
        ob.true("landmark_ext_map", kw.get("landmark_ext_map") is B.image_landmark_types)


XPLAN = {
    # condition -> (tier, argument to split instances over)
    "base": ("quick", None), "index_int": ("quick", None), "slice_sss": ("thorough", "step"),
    "slice_none": ("thorough", "pat"), "fancy": ("thorough", "kind"), "repeat": ("quick", None),
    "add_lazy": ("quick", None), "add_plain": ("quick", None), "add_bad": ("quick", None), "copy": ("quick", None),
    "mapping": ("quick", None), "raising": ("quick", None), "raising_index_error": ("quick", None),
    "compose2": ("quick", "op1"), "slice_sss_wide": ("thorough", "start"),
    "slice_sss4": ("thorough", "start"), "slice_none_wide": ("thorough", "a"), "fancy_wide": ("thorough", "kind"),
    "fancy3": ("thorough", "i0"), "compose3": ("thorough", "op1"),
}


def instances(tier):
    if os.environ.get("C19_SELFTEST"):
        out = []
        for mutant, cond, fix in SELFTEST:  # one slice of the domain that contains a witness is enough here
            out.append(("xcheck", {"cond": cond, "fix": fix, "selftest_mutant": mutant}, {"max_paths": 40000}))
        for name, (modname, fname, _old, _new) in SRC_MUTANTS.items():
            out.append(({"_import_glob_lazy_list": "imp_glob", "_import_lazylist_attach_landmarks": "imp_landmarks",
                         "ffmpeg_importer": "imp_video", "import_videos": "imp_wrappers",
                         "import_images": "imp_wrappers"}[fname], {"selftest_mutant": name}))
        return out
    if os.environ.get("C19_NO_XCHECK"):
        return []
    P = _parse()
    out = [("imp_glob", {}), ("imp_landmarks", {}), ("imp_video", {}), ("imp_wrappers", {})]
    for cond, (start, split) in XPLAN.items():
        if start == "thorough" and tier == "quick":
            continue
        if split is None:
            out.append(("xcheck", {"cond": cond, "fix": {}}, {"max_paths": 40000}))
            continue
        lo, hi = P[cond]["ranges"][split]
        for v in range(lo, hi + 1):
            out.append(("xcheck", {"cond": cond, "fix": {split: v}}, {"max_paths": 40000, "max_s": 1500}))
    return out

