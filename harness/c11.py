"""C11 -- incremental model updates equal the batch model on the concatenated data.

Four families of harnesses:

  gaussian    menpo.model.gmrf._increment_multivariate_gaussian_mean/_cov chained over every way of cutting the
              sample sequence into an initial batch plus 1..k increments, against NumPy's documented mean /
              covariance formulae of the stacked data (replay: against numpy.mean / numpy.cov themselves);
              every data value symbolic
  gmrf        GMRFVectorModel(incremental=True) + increment(...) end to end against the batch model built from
  gmrf_model  all the data at once (n_samples, mean_vector, per-edge covariances, precision matrix), for every
              graph type, both edge modes, dense and block-sparse storage, both bias conventions.  Two encodings
              of the covariance inverse: inv="cof" (engine cofactor inverse, precision entries are explicit
              rational functions; all data symbolic on the small graphs, initial batch concrete + increments
              symbolic on the larger ones) and inv="uf" (uninterpreted function of the covariance; all data
              symbolic on every graph)
  pca_counts  PCAVectorModel / PCAModel .increment(...): sample count and mean against the batch model, for n
  pca_model   above and below d, centred and uncentred, with LAPACK (eigh, qr, svd) cut by contract stubs
  pca_degenerate  all samples identical (zero variance)
  ipca_algebra    menpo.math.ipca, one update from an arbitrary valid prior model (d = 2): the scatter the update
              hands to the SVD, expressed in the basis it returns, is the pooled scatter of prior model and new data
              (the eigenvalue / principal-subspace clause up to LAPACK's SVD, which is trusted)

Findings on the unchanged tree (genuine, confirmed by hand; reported as VIOLATIONs):
  * obligations "...after_exactly_zero_mean": menpo.math.decomposition.ipca treats a mean that is EXACTLY zero as
    "not centred" (`if m_a is not None and not np.all(m_a == 0)`), so a centred PCA model whose current mean is the
    zero vector (symmetric or pre-centred data) is incremented without mean update and without centring: the mean
    stays 0 instead of the batch mean (and the eigen-structure is that of uncentred data).
  * obligation "zero_variance.increment_raises": when no eigenvalue survives ipca's ABSOLUTE threshold l > 1e-10
    (identical samples; by hand also data with spread ~1e-6, where the batch model keeps all components because
    pca() uses a RELATIVE threshold), PCAVectorModel.increment raises ValueError("Tried setting n_active_components
    to 0 ...") instead of producing the batch model.
"""
import itertools
import random

import numpy as np

from harness import common as K

META = {
    "explanation": "C11: (gaussian) the Gaussian mean/covariance update of menpo.model.gmrf, chained over EVERY "
    "composition of the sample sequence into an initial batch plus 1..k increments (n <= 6 exhaustively, random "
    "compositions up to n = 10), returns termwise the mean and the covariance (both bias conventions) of the "
    "stacked data as defined by NumPy's documented formulae -- all data symbolic, so each obligation is a "
    "polynomial identity; hence the result cannot depend on the split. (gmrf) GMRFVectorModel(incremental=True) "
    "followed by 1-3 increment() calls (array and list-of-vectors forms) is compared field by field (n_samples, "
    "mean_vector, every per-edge / per-vertex covariance, every entry of the precision matrix) after every increment "
    "with the batch model built from the data seen so far, incremental and non-incremental, for graphs without "
    "edges, single edge, chains, cycles, trees and directed graphs, both edge modes, dense and scipy-BSR storage, "
    "both bias conventions. The covariance inverse is encoded twice: as the cofactor inverse (precision entries are "
    "explicit rational functions of the data; all data symbolic on graphs with <= 3 vertices / 2x2 covariances, "
    "concrete initial batch + symbolic increments beyond) and as an uninterpreted function of the covariance "
    "(all data symbolic on every graph). (pca) PCAVectorModel/PCAModel.increment: n_samples and the mean equal "
    "those of the batch model for n above and below d, centred and uncentred, 1-3 increments, data left untouched; "
    "the eigen-decomposition, QR and SVD are replaced by contract stubs returning arbitrary values (ordered as "
    "LAPACK orders them), because the clause does not depend on them; paths on which the model mean is exactly "
    "zero, and zero-variance data, are explored separately (both are findings).",
    "bounds": ["gaussian: n <= 6 all compositions (quick n <= 5), thorough random compositions n = 7..10; d in {1,2,3}",
               "gmrf: 2-4 vertices, 1-2 features per vertex (1x1, 2x2 and one 4x4 covariance), 2-5 initial samples, 1-3 increments of 1-2 samples "
               "(thorough: random splits of 7-9 samples with the uninterpreted inverse)",
               "pca: n0 in {2,3,4}, d in {2,3}, increments of 1-2 samples, 1-3 increments",
               "ipca_algebra: d = 2, 1-2 prior components (any orthonormal rows, any positive eigenvalues <= 4, any mean), "
               "n_a in {k+1, k+3} (thorough k+1, k+2, k+5), 1-2 (thorough 3) new samples boxed to [-3,3], centred and uncentred",
               "data boxed to [-8,8]"],
    "stubs": ["scipy.sparse.bsr_matrix -> block-sum model (duplicates add, as scipy documents); replay uses real scipy",
              "numpy.cov / numpy.mean -> NumPy's documented formulae (engine model)",
              "numpy.linalg.inv -> cofactor inverse (engine model), non-singularity recorded as a side condition; "
              "inv=uf instances: menpo's _covariance_matrix_inverse -> uninterpreted function of its argument",
              "pca harnesses only: numpy.linalg.eigh / qr / svd -> arbitrary values of the right shapes, eigenvalues "
              "ascending, non-negative, largest positive; singular values descending, non-negative, largest >= 0.01",
              "ipca_algebra: numpy.linalg.qr -> ANY orthogonal 2x2 matrix (over-approximates every QR factor Q); "
              "numpy.linalg.svd -> instrument that records its argument and answers (I, 1, I); sqrt of concrete weights kept exact"],
    "assumptions": ["floats are modelled as exact reals (PCA means: tolerance 1e-9, menpo weights them with the "
                    "floats n_a/n, n_b/n)",
                    "covariance matrices that menpo inverts are non-singular (otherwise menpo raises / divides by "
                    "zero in the batch model as well)",
                    "pca_counts / pca_model: the first two samples differ by >= 0.5 in their first coordinate "
                    "(non-degenerate data; justifies the stub contracts), pca_degenerate covers identical samples"],
    "not_covered": ["eigenvalues and principal subspace after ipca are covered only as the pre-SVD algebra of one update "
                    "(harness ipca_algebra: d = 2, 1-2 prior components, 1-3 new samples, QR factor over-approximated by "
                    "any orthogonal matrix); the SVD step itself, d >= 3 (polynomial arithmetic did not finish), the "
                    "initial pca() decomposition, and ipca's absolute eigenvalue threshold versus pca's relative one on "
                    "small-scale data are not covered",
                    "forgetting factor != 1 (the property is stated without forgetting)",
                    "n_components (truncated-SVD inverse) in the GMRF", "float32 storage of the precision matrix"],
    "trusted": ["NumPy's documented mean/cov formulae as written in the harness", "BSR block-sum model",
                "LAPACK's SVD contract V^T diag(s^2) V = R^T R with descending s (ipca_algebra stops at the SVD call)",
                "canonical polynomial arithmetic of the engine (structural identity of fractions)"],
}

# ---------------------------------------------------------------------------------------------- instances
GRAPHS = {
    # name: (class, edges, n_vertices, root)
    "isolated2": ("UndirectedGraph", None, 2, None),
    "isolated3": ("UndirectedGraph", None, 3, None),
    "edge": ("UndirectedGraph", [[0, 1]], 2, None),
    "chain3": ("UndirectedGraph", [[0, 1], [1, 2]], 3, None),
    "chain3r": ("UndirectedGraph", [[2, 1], [0, 1]], 3, None),
    "cycle3": ("UndirectedGraph", [[0, 1], [1, 2], [2, 0]], 3, None),
    "tree3": ("Tree", [[0, 1], [0, 2]], 3, 0),
    "tree3b": ("Tree", [[1, 0], [1, 2]], 3, 1),
    "dchain3": ("DirectedGraph", [[0, 1], [1, 2]], 3, None),
    "dcycle3": ("DirectedGraph", [[0, 1], [1, 2], [2, 0]], 3, None),
    "chain4": ("UndirectedGraph", [[0, 1], [1, 2], [2, 3]], 4, None),
    "cycle4": ("UndirectedGraph", [[0, 1], [1, 2], [2, 3], [3, 0]], 4, None),
    "tree4": ("Tree", [[0, 1], [0, 2], [2, 3]], 4, 0),
    "star4": ("Tree", [[0, 1], [0, 2], [0, 3]], 4, 0),
}


def compositions(n, first_min=1, min_parts=2, max_parts=None):
    """every way of writing n as an ordered sum of positive parts (first part >= first_min)"""
    out = []
    for cuts in itertools.product([0, 1], repeat=n - 1):
        parts, run = [], 1
        for c in cuts:
            if c:
                parts.append(run)
                run = 1
            else:
                run += 1
        parts.append(run)
        if parts[0] >= first_min and len(parts) >= min_parts and (max_parts is None or len(parts) <= max_parts):
            out.append(parts)
    return out


def _random_compositions(n, first_min, count, seed):
    rnd = random.Random(seed)
    out = []
    while len(out) < count:
        k = rnd.randint(1, n - first_min)  # number of increments
        cuts = sorted(rnd.sample(range(first_min, n), k))
        parts = [b - a for a, b in zip([0] + cuts, cuts + [n])]
        if parts not in out:
            out.append(parts)
    return out


def instances(tier):
    import os

    quick = tier == "quick"
    seed = int(os.environ.get("VERIF_SEED", "0"))
    out = []
    if os.environ.get("C11_SELFTEST"):
        # self-test of the harness (NOT part of any tier): seeded bugs that must be reported as VIOLATIONs
        return [("gaussian", {"n": 4, "d": 2, "bias": 0, "parts": "all", "selftest_mutant": "mean_weight"}),
                ("gaussian", {"n": 4, "d": 2, "bias": 0, "parts": "all", "selftest_mutant": "cov_k"}),
                ("gmrf", {"graph": "chain3", "mode": "concatenation", "sparse": True, "bias": 0, "k": 1,
                          "parts": [3, 1, 1], "inv": "uf", "selftest_mutant": "cov_k"}),
                ("gmrf", {"graph": "edge", "mode": "subtraction", "sparse": False, "bias": 0, "k": 2,
                          "parts": [3, 2], "inv": "cof", "selftest_mutant": "mean_weight"}),
                ("gmrf", {"graph": "cycle3", "mode": "concatenation", "sparse": False, "bias": 0, "k": 1,
                          "parts": [3, 1, 1], "inv": "cof", "selftest_mutant": "precision_entry"}),
                ("gmrf", {"graph": "cycle3", "mode": "concatenation", "sparse": False, "bias": 0, "k": 1,
                          "parts": [3, 1, 1], "inv": "uf", "selftest_mutant": "precision_entry"}),
                ("pca_counts", {"n0": 3, "d": 2, "centre": True, "incs": [2], "inplace": False,
                                "selftest_mutant": "ipca_mean"})]
    # ---- gaussian increments, every composition
    for bias in (0, 1):
        for d in (1, 2):
            for n in ((3, 4, 5) if quick else (3, 4, 5, 6)):
                out.append(("gaussian", {"n": n, "d": d, "bias": bias, "parts": "all"}))
        out.append(("gaussian", {"n": 4, "d": 3, "bias": bias, "parts": "all"}))
    if not quick:
        for bias in (0, 1):
            for n in (7, 8, 10):
                ps = _random_compositions(n, 2 - bias, 6, seed * 1000 + n * 10 + bias)
                out.append(("gaussian", {"n": n, "d": 2, "bias": bias, "parts": ps}))
    # ---- GMRF end to end
    #  features per vertex k: concatenation 1 (2x2 covariances); subtraction and edgeless graphs 1 and 2 (1x1 and
    #  2x2 covariances).  Two encodings of the covariance inverse: "cof" = the engine's cofactor inverse (precision
    #  entries are explicit rational functions; all data symbolic where that stays small, otherwise the initial
    #  batch is concrete and the increments symbolic), "uf" = uninterpreted function of the covariance, all data
    #  symbolic.
    gq = ["isolated2", "edge", "chain3", "cycle3", "tree3"]
    gt = gq + ["isolated3", "chain3r", "tree3b", "dchain3", "dcycle3", "chain4", "cycle4", "tree4", "star4"]
    for g in (gq if quick else gt):
        edges, nv = GRAPHS[g][1], GRAPHS[g][2]
        edgeless = edges is None
        for mode in (("concatenation",) if edgeless else ("concatenation", "subtraction")):
            for k in ((1, 2) if (edgeless or mode == "subtraction") else (1,)):
                scalar = k == 1 and (edgeless or mode == "subtraction")  # 1x1 covariances
                small = scalar or edgeless or len(edges) == 1 or (k == 1 and nv == 3)
                n0 = 2 if scalar else 3
                for sparse in (False, True):
                    for bias in (0, 1):
                        base = {"graph": g, "mode": mode, "sparse": sparse, "bias": bias, "k": k}
                        if not (quick and bias == 1 and not sparse):
                            out.append(("gmrf", dict(base, parts=[3, 1, 1] if quick else "some", inv="uf")))
                        if quick and bias == 1 and sparse and not small:
                            continue
                        # (one instance per split: a forked choice would put an integer into the non-linear
                        # side conditions "determinant != 0" and z3 then gives up on the path feasibility query)
                        if quick:
                            splits = [[n0, 1, 1]]
                        elif small:
                            splits = [[n0, 1, 1], [n0, 2], [n0 + 1, 1], [n0, 1, 2]]
                        else:
                            splits = [[3, 1] if g == "star4" and k == 2 else [3, 1, 1]]
                        for parts in splits:
                            cof = dict(base, parts=parts, inv="cof")
                            if not small:
                                cof["conc0"] = 3
                            out.append(("gmrf", cof))
    # single edge with two features per vertex in concatenation mode (4x4 covariance)
    for sparse in ((True,) if quick else (False, True)):
        out.append(("gmrf", {"graph": "edge", "mode": "concatenation", "sparse": sparse, "bias": 0, "k": 2,
                             "parts": [5, 1, 1], "inv": "uf"}))
        out.append(("gmrf", {"graph": "edge", "mode": "concatenation", "sparse": sparse, "bias": 0, "k": 2,
                             "parts": [5, 1], "inv": "cof", "conc0": 5}))
    if not quick:
        # longer sample sequences, random splits (initial batch >= 3 samples)
        for g, mode, k, n in (("chain3", "concatenation", 1, 8), ("cycle3", "subtraction", 2, 7),
                              ("tree4", "concatenation", 1, 9), ("isolated3", "concatenation", 2, 8)):
            for sparse in (False, True):
                ps = _random_compositions(n, 3, 5, seed * 1000 + n * 10 + len(g))
                out.append(("gmrf", {"graph": g, "mode": mode, "sparse": sparse, "bias": int(sparse), "k": k,
                                     "parts": ps, "inv": "uf", "every_step": False}))
    # single edge with two features per vertex in concatenation mode (4x4 covariance)
    for sparse in ((True,) if quick else (False, True)):
        out.append(("gmrf", {"graph": "edge", "mode": "concatenation", "sparse": sparse, "bias": 0, "k": 2,
                             "parts": [5, 1, 1], "inv": "uf"}))
        out.append(("gmrf", {"graph": "edge", "mode": "concatenation", "sparse": sparse, "bias": 0, "k": 2,
                             "parts": [5, 1], "inv": "cof", "conc0": 5}))
    # Vectorizable-backed model (PointCloud samples)
    out.append(("gmrf_model", {"graph": "edge", "mode": "concatenation", "sparse": True, "bias": 0, "parts": [3, 1, 1]}))
    out.append(("gmrf_model", {"graph": "chain3", "mode": "subtraction", "sparse": False, "bias": 1, "parts": [2, 2, 1]}))
    # ---- PCA sample count and mean
    for centre in (True, False):
        for (n0, d) in ((2, 3), (3, 2)) if quick else ((2, 3), (3, 2), (2, 2), (4, 2), (3, 3)):
            for parts in ([[1]] if quick else [[1], [2]]):
                out.append(("pca_counts", {"n0": n0, "d": d, "centre": centre, "incs": parts, "inplace": False}))
    out.append(("pca_counts", {"n0": 3, "d": 2, "centre": False, "incs": [1, 1], "inplace": True}))
    if not quick:
        big = {"max_paths": 20000, "max_s": 3000}
        out.append(("pca_counts", {"n0": 3, "d": 2, "centre": True, "incs": [1, 1], "inplace": True}, big))
        out.append(("pca_counts", {"n0": 2, "d": 3, "centre": False, "incs": [1, 2], "inplace": True}, big))
        out.append(("pca_counts", {"n0": 3, "d": 2, "centre": False, "incs": [2, 1, 1], "inplace": False}, big))
    out.append(("pca_model", {"n0": 3, "centre": True, "incs": [1]}))
    out.append(("pca_degenerate", {"n0": 3, "d": 2, "m": 1}))
    # eigenvalues / principal subspace: the algebra of one ipca update from an arbitrary valid prior model, up to the
    # SVD call (see ipca_algebra)
    for d, k, m, centred in ((2, 1, 1, True), (2, 1, 2, False), (2, 2, 1, True), (2, 1, 2, True)) + (
            () if quick else ((2, 2, 2, False), (2, 2, 2, True), (2, 1, 3, True), (2, 1, 3, False))):
        # (d = 3 through the quaternion parametrisation did not finish its polynomial arithmetic in 5 minutes)
        for n_a in ((k + 1, k + 3) if quick else (k + 1, k + 2, k + 5)):
            out.append(("ipca_algebra", {"d": d, "k": k, "m": m, "centred": centred, "n_a": n_a}))
    return out


# ---------------------------------------------------------------------------------------------- oracles
def _mean(F, X):
    """numpy.mean(X, axis=0): the documented formula (symbolic mode) / NumPy itself (replay)"""
    if not F.sym:
        return np.mean(X, axis=0)
    n = X.shape[0]
    return np.array([sum(X[i, j] for i in range(n)) / n for j in range(X.shape[1])], dtype=object)


def _cov(F, X, bias):
    """numpy.cov(X, rowvar=0, bias=bias) as a (d, d) matrix: sum_i (x_i - mean)(x_i - mean)^T / (n - 1 + bias)"""
    if not F.sym:
        return np.atleast_2d(np.cov(X, rowvar=0, bias=bias))
    n, d = X.shape
    m = _mean(F, X)
    out = np.empty((d, d), dtype=object)
    for a in range(d):
        for b in range(d):
            out[a, b] = sum((X[i, a] - m[a]) * (X[i, b] - m[b]) for i in range(n)) / (n - 1 + bias)
    return out


def _chunks(X, parts):
    out, at = [], 0
    for p in parts:
        out.append(X[at:at + p])
        at += p
    return out


def _pick_parts(F, cfg, n, first_min):
    p = cfg["parts"]
    if p == "all":
        return F.choice("split", compositions(n, first_min=first_min))
    if p and isinstance(p[0], list):
        return F.choice("split", p)
    return p


def _mutate(F, cfg):
    """self-test only (cfg flag "selftest_mutant"): seed a plausible bug and expect a VIOLATION"""
    mut = cfg.get("selftest_mutant")
    if not mut:
        return
    import menpo.model.gmrf as G
    import menpo.math.decomposition as D

    if mut == "mean_weight":
        def bad_mean(X, m, n):
            return (n * m + X.sum(axis=0)) / (n + 1)  # forgets that an increment may hold several samples
        F.patch(G, "_increment_multivariate_gaussian_mean", bad_mean)
    elif mut == "cov_k":
        real = G._increment_multivariate_gaussian_cov

        def bad_cov(X, m, S, n, bias=0):
            return real(X, m, S, n, bias=1)  # always the biased normalisation
        F.patch(G, "_increment_multivariate_gaussian_cov", bad_cov)
    elif mut == "ipca_mean":
        real_ipca = D.ipca

        def bad_ipca(B, U_a, l_a, n_a, m_a=None, f=1.0, eps=1e-10):
            U, l, m = real_ipca(B, U_a, l_a, n_a, m_a=m_a, f=f, eps=eps)
            return U, l, (m_a + B.mean(axis=0)) / 2 if m_a is not None else m
        import menpo.model.pca as P

        F.patch(P, "ipca", bad_ipca)
    elif mut == "precision_entry":
        real_inc = G._increment_dense_precision

        def bad_inc(*a, **k):
            P, C = real_inc(*a, **k)
            P[0, 0] = P[0, 0] * 2  # covariances right, assembled precision wrong
            return P, C
        F.patch(G, "_increment_dense_precision", bad_inc)
    else:
        raise KeyError(mut)


# ---------------------------------------------------------------------------------------------- gaussian
def gaussian(F, ob, cfg):
    """chained _increment_multivariate_gaussian_cov == mean/cov of the stacked data, for every split"""
    import menpo.model.gmrf as G

    _mutate(F, cfg)
    n, d, bias = cfg["n"], cfg["d"], cfg["bias"]
    X = F.reals("x", (n, d))
    # the unbiased covariance of a single sample is undefined (0/0), so the initial batch has >= 2 samples then
    parts = _pick_parts(F, cfg, n, 2 - bias)
    ch = _chunks(X, parts)
    m, S, cnt = _mean(F, ch[0]), _cov(F, ch[0], bias), parts[0]
    for i, B in enumerate(ch[1:]):
        m_only = G._increment_multivariate_gaussian_mean(B, m, cnt)
        m, S = G._increment_multivariate_gaussian_cov(B, m, S, cnt, bias=bias)
        cnt += B.shape[0]
        seen = X[:cnt]
        ob.eq("inc%d.mean" % i, m, _mean(F, seen))
        ob.eq("inc%d.mean_fn" % i, m_only, _mean(F, seen))
        ob.eq("inc%d.cov" % i, S, _cov(F, seen, bias))
    ob.true("count", cnt == n)
    ob.true("shapes", np.shape(m) == (d,) and np.shape(S) == (d, d))


# ---------------------------------------------------------------------------------------------- GMRF
class _BSR:
    """scipy.sparse.bsr_matrix((data, indices, indptr), shape=...) on symbolic blocks: the matrix whose block
    (i, indices[k]) is the SUM of data[k] over k in [indptr[i], indptr[i+1]) (duplicates add up)"""

    def __init__(self, arg1, shape=None, dtype=None, copy=False, blocksize=None):
        data, indices, indptr = arg1
        data = np.asarray(data, dtype=object)
        if data.ndim != 3:
            raise ValueError("BSR data must be 3-dimensional")
        R, C = data.shape[1:]
        M, N = shape
        if M % R or N % C:
            raise ValueError("shape must be multiple of blocksize")
        ip = [int(v) for v in indptr]
        ix = [int(v) for v in indices]
        if len(ip) != M // R + 1:
            raise ValueError("index pointer size should be %d" % (M // R + 1))
        if ip[0] != 0:
            raise ValueError("index pointer should start with 0")
        if len(ix) != data.shape[0]:
            raise ValueError("indices and data should have the same size")
        if ip[-1] > len(ix):
            raise ValueError("Last value of index pointer should be less than the size of index and data arrays")
        if any(b < a for a, b in zip(ip, ip[1:])):
            raise ValueError("index pointer values must form a non-decreasing sequence")
        if any(not (0 <= j < N // C) for j in ix[: ip[-1]]):
            raise ValueError("column index out of range")
        D = np.zeros((M, N)).astype(object)
        for i in range(len(ip) - 1):
            for k in range(ip[i], ip[i + 1]):
                j = ix[k]
                D[i * R:(i + 1) * R, j * C:(j + 1) * C] = D[i * R:(i + 1) * R, j * C:(j + 1) * C] + data[k]
        self._D = D
        self.shape = (M, N)

    def toarray(self):
        return self._D.copy()

    todense = toarray

    def dot(self, x):
        return self._D.dot(x)


def _graph(name):
    import menpo.shape as ms

    cls, edges, nv, root = GRAPHS[name]
    e = None if edges is None else np.array(edges)
    if cls == "Tree":
        return ms.Tree.init_from_edges(e, nv, root)
    return getattr(ms, cls).init_from_edges(e, nv)


def _dense(p):
    return p.toarray() if hasattr(p, "toarray") else p


def _eq_rational(F, ob, name, P, Q):
    """P == Q entrywise for matrices of (possibly large) rational functions.  Entries that are structurally the
    same canonical fraction are discharged on the spot; the others go to the solver as ONE conjunction over the
    plain quotient terms (no cross-multiplication in Python, which explodes when the two sides differ)."""
    if not F.sym:
        ob.eq(name, P, Q)
        return
    import z3
    from symx.core import Sym, SymB

    P, Q = np.asarray(P, dtype=object), np.asarray(Q, dtype=object)
    if P.shape != Q.shape:
        ob.fail(name + ".shape", "%s vs %s" % (P.shape, Q.shape))
        return
    rest = []
    for i in np.ndindex(*P.shape):
        a, b = P[i], Q[i]
        if not isinstance(a, Sym) and not isinstance(b, Sym):
            ob.eq("%s%s" % (name, list(i)), a, b)
            continue
        a, b = Sym.of(a), Sym.of(b)
        if a.n == b.n and ((a.d is None and b.d is None) or (a.d is not None and b.d is not None and a.d == b.d)):
            ob.true("%s%s" % (name, list(i)), True)
        else:
            rest.append(a.t == b.t)
    if rest:
        ob.true(name + ".entries_not_identical_as_fractions", SymB(z3.And(*rest)))


def _compare_gmrf(F, ob, name, inc, bat, sparse):
    ob.true(name + ".n_samples", inc.n_samples == bat.n_samples)
    ob.eq(name + ".mean_vector", inc.mean_vector, bat.mean_vector)
    ob.eq(name + ".mean()", inc.mean(), bat.mean_vector)
    if bat._covariance_matrices is not None:
        ob.true(name + ".cov.shape", np.shape(inc._covariance_matrices) == np.shape(bat._covariance_matrices))
        ob.eq(name + ".covariances", inc._covariance_matrices, bat._covariance_matrices)
    ob.true(name + ".precision.kind", hasattr(inc.precision, "toarray") == bool(sparse))
    P, Q = _dense(inc.precision), _dense(bat.precision)
    ob.true(name + ".precision.shape", np.shape(P) == np.shape(Q) == (bat.n_features, bat.n_features))
    _eq_rational(F, ob, name + ".precision", P, Q)


def _install_inverse_uf(F, G):
    """symbolic mode, cfg inv="uf": menpo's _covariance_matrix_inverse becomes an UNINTERPRETED function of the
    covariance (memoised on the canonical polynomial terms of its argument): equal covariances give the same
    arbitrary matrix, different ones unrelated matrices.  Sound for equalities (the inverse IS a function of the
    covariance) and it keeps the sums of rational functions in the precision assembly small."""
    from harness.lapack import _key
    from symx import core

    def inverse(cov_mat, n_components):
        c = core.ctx()
        cov_mat = np.atleast_2d(np.asarray(cov_mat, dtype=object))  # (a single feature gives a 0-d covariance)
        key = ("covinv", cov_mat.shape, _key(cov_mat), n_components)
        if key not in c.memo:
            a = np.empty(cov_mat.shape, dtype=object)
            for i in np.ndindex(*a.shape):
                a[i] = F.fresh("covinv")
            c.memo[key] = a
        return c.memo[key].copy()

    F.patch(G, "_covariance_matrix_inverse", inverse)


def _gmrf_parts(F, cfg):
    p = cfg["parts"]
    if p == "some":
        return F.choice("split", [[3, 1], [3, 2], [4, 1], [3, 1, 1], [3, 1, 2], [3, 2, 1], [3, 1, 1, 1]])
    if p and isinstance(p[0], list):
        return F.choice("split", p)
    return p


def gmrf(F, ob, cfg):
    """GMRFVectorModel(incremental=True).increment(...) == batch model on the stacked data"""
    import menpo.model.gmrf as G

    _mutate(F, cfg)
    if F.sym:
        F.patch(G, "bsr_matrix", _BSR)
        if cfg.get("inv") == "uf":
            _install_inverse_uf(F, G)
    graph = _graph(cfg["graph"])
    k = cfg["k"]
    parts = _gmrf_parts(F, cfg)
    n, nf = sum(parts), graph.n_vertices * k
    X = F.reals("x", (n, nf))
    c0 = cfg.get("conc0", 0)
    if c0:
        # the first c0 samples of the initial batch are concrete (exact constants), everything else symbolic:
        # keeps the cofactor inverses of the covariances (and their sums) within reach
        rs = np.random.RandomState(11)
        X = X.copy()
        X[:c0] = K.const(F, np.round(rs.uniform(-3, 3, (c0, nf)) * 4) / 4)
    kw = dict(mode=cfg["mode"], sparse=cfg["sparse"], bias=cfg["bias"], dtype=np.float64)
    ch = _chunks(X, parts)
    inc = G.GMRFVectorModel(ch[0].copy(), graph, incremental=True, **kw)
    at = parts[0]
    last = len(ch) - 2
    for i, B in enumerate(ch[1:]):
        if i % 2 == 0:
            inc.increment(B.copy())
        else:
            inc.increment([row for row in B.copy()])  # list-of-vectors form
        at += B.shape[0]
        if i == last or cfg.get("every_step", True):  # (the batch model after every increment, or only at the end)
            bat = G.GMRFVectorModel(X[:at].copy(), graph, incremental=True, **kw)
            _compare_gmrf(F, ob, "inc%d" % i, inc, bat, cfg["sparse"])
    # the plain (non-incremental) batch model agrees as well
    plain = G.GMRFVectorModel(X.copy(), graph, incremental=False, **kw)
    ob.true("plain.n_samples", inc.n_samples == plain.n_samples == n)
    ob.eq("plain.mean_vector", inc.mean_vector, plain.mean_vector)
    _eq_rational(F, ob, "plain.precision", _dense(inc.precision), _dense(plain.precision))
    ob.true("still_incremental", inc.is_incremental is True)


def gmrf_model(F, ob, cfg):
    """GMRFModel on PointCloud samples (data matrices built by as_matrix)"""
    import menpo.model.gmrf as G
    from menpo.shape import PointCloud

    _mutate(F, cfg)
    if F.sym:
        F.patch(G, "bsr_matrix", _BSR)
    graph = _graph(cfg["graph"])
    parts = cfg["parts"]
    n, nv = sum(parts), graph.n_vertices
    X = F.reals("x", (n, nv))

    def clouds(rows):
        # every sample is a PointCloud of nv points in 1-D: one feature per vertex
        return [PointCloud(np.array(r, dtype=X.dtype).reshape(nv, 1), copy=False) for r in rows]

    kw = dict(mode=cfg["mode"], sparse=cfg["sparse"], bias=cfg["bias"], dtype=np.float64)
    ch = _chunks(X, parts)
    inc = G.GMRFModel(clouds(ch[0]), graph, incremental=True, **kw)
    for B in ch[1:]:
        inc.increment(clouds(B))
    bat = G.GMRFModel(clouds(X), graph, incremental=True, **kw)
    ob.true("n_samples", inc.n_samples == bat.n_samples == n)
    ob.eq("mean_vector", inc.mean_vector, bat.mean_vector)
    ob.eq("mean().points", inc.mean().points, bat.mean().points)
    ob.eq("covariances", inc._covariance_matrices, bat._covariance_matrices)
    _eq_rational(F, ob, "precision", _dense(inc.precision), _dense(bat.precision))
    ob.eq("mean_vector=oracle", inc.mean_vector, _mean(F, X))


# ---------------------------------------------------------------------------------------------- PCA
def _install_lapack_cuts(F):
    """symbolic mode: eigh / qr / svd of a symbolic matrix return ARBITRARY values of the right shapes (the
    sample count and the mean do not depend on them).  What the stubs promise is what LAPACK guarantees for the
    matrices menpo passes under the harness assumption that the data are not degenerate (two samples differ by
    at least 0.5 in their first coordinate): eigenvalues of the Gram matrix ascending, non-negative, the largest
    positive; singular values descending, non-negative, the largest >= 0.01 (||R||_F^2 >= sum of the retained
    s_a^2 >= 0.125 / 16, so s_0^2 >= ||R||_F^2 / 4 stays above 1e-4 over the <= 3 increments used here).
    Constant matrices (degenerate harness) go to real LAPACK."""
    from symx import core, npproxy
    from symx.core import Sym

    def contract(cond):
        core.ctx().defined.append(core.bterm(cond))

    def fresh_mat(tag, shape):
        a = np.empty(shape, dtype=object)
        for i in np.ndindex(*shape):
            a[i] = F.fresh(tag, -4, 4)
        return a

    def concrete(A):
        A = np.asarray(A, dtype=object)
        if all((not isinstance(v, Sym)) or v.is_const() for v in A.ravel()):
            return np.array([float(v) for v in A.ravel()], dtype=float).reshape(A.shape)
        return None

    def back(r):
        return tuple(K.const(F, x) for x in r) if isinstance(r, tuple) else K.const(F, r)

    def eigh(C, *a, **k):
        c = concrete(C)
        if c is not None:
            return back(tuple(np.linalg.eigh(c)))
        n = np.shape(C)[0]
        w = np.empty(n, dtype=object)
        for i in range(n):
            w[i] = F.fresh("eigh_w", 0, 1024)
            if i:
                contract(w[i] >= w[i - 1])
        contract(w[n - 1] > 0)
        return w, fresh_mat("eigh_v", (n, n))

    def qr(A, mode="reduced"):
        c = concrete(A)
        if c is not None:
            return back(tuple(np.linalg.qr(c, mode=mode)))
        if mode != "reduced":
            raise core.Unsupported("qr mode %r" % (mode,))
        m, n = np.shape(A)
        kk = min(m, n)
        return fresh_mat("qr_q", (m, kk)), fresh_mat("qr_r", (kk, n))

    def svd(A, full_matrices=True, compute_uv=True, **k):
        c = concrete(A)
        if c is not None:
            return back(np.linalg.svd(c, full_matrices=full_matrices, compute_uv=compute_uv))
        m, n = np.shape(A)
        kk = min(m, n)
        s = np.empty(kk, dtype=object)
        for i in range(kk):
            s[i] = F.fresh("svd_s", 0, 1024)
            if i:
                contract(s[i] <= s[i - 1])
        contract(s[0] >= 0.01)
        if not compute_uv:
            return s
        if full_matrices:
            return fresh_mat("svd_u", (m, m)), s, fresh_mat("svd_vt", (n, n))
        return fresh_mat("svd_u", (m, kk)), s, fresh_mat("svd_vt", (kk, n))

    npproxy.NP.stubs["linalg.eigh"] = eigh
    npproxy.NP.stubs["linalg.qr"] = qr
    npproxy.NP.stubs["linalg.svd"] = svd


def _all_zero(F, v):
    """fork (harness side): is every entry of v exactly zero?"""
    for x in np.asarray(v).ravel():
        if not bool(F.eq(x, 0)):
            return False
    return True


def _not_degenerate(F, X):
    """precondition of the stub contracts: the initial batch has visible spread (zero / tiny variance is the
    subject of pca_degenerate)"""
    F.assume(X[0, 0] - X[1, 0] >= 0.5)


def _pca_run(F, ob, cfg, build, feed, X, parts, mean_of):
    centre = cfg["centre"]
    ch = _chunks(X, parts)
    model = build(ch[0])
    at = parts[0]
    d = X.shape[1]
    ob.true("init.n_samples", model.n_samples == at)
    ob.eq("init.mean", mean_of(model), _mean(F, X[:at]) if centre else np.zeros(d))
    suffix = ""
    for i, B in enumerate(ch[1:]):
        # menpo's ipca treats a model whose mean is EXACTLY zero as uncentred; those paths get their own
        # obligation names so that this finding is reported separately from the generic case
        if centre and _all_zero(F, mean_of(model)):
            suffix = ".after_exactly_zero_mean"
        feed(model, B)
        at += B.shape[0]
        want = _mean(F, X[:at]) if centre else np.zeros(d)
        ob.true("inc%d.n_samples%s" % (i, suffix), model.n_samples == at)
        # menpo weights the two means with the FLOATS n_a/n and n_b/n (2/3 is not a float), hence a tolerance
        ob.eq("inc%d.mean%s" % (i, suffix), mean_of(model), want, tol=PCA_TOL)
        ob.true("inc%d.mean.shape" % i, np.shape(mean_of(model)) == (d,))
        ob.true("inc%d.components.width" % i, np.shape(model.components)[1:] == (d,))
        ob.true("inc%d.centred_flag" % i, model.centred is centre)
    return model, suffix


def pca_counts(F, ob, cfg):
    """PCAVectorModel.increment: n_samples and mean equal the batch values"""
    from menpo.model import PCAVectorModel

    _mutate(F, cfg)
    if F.sym:
        _install_lapack_cuts(F)
    n0, d, centre = cfg["n0"], cfg["d"], cfg["centre"]
    parts = [n0] + list(cfg["incs"])
    X = F.reals("x", (sum(parts), d))
    _not_degenerate(F, X)
    snap = K.snapshot(X)

    def build(A):
        return PCAVectorModel(A.copy(), centre=centre, inplace=cfg["inplace"])

    def feed(model, B):
        if B.shape[0] == 1:
            model.increment([B[0].copy()])  # list of vectors
        else:
            model.increment(B.copy())

    model, sfx = _pca_run(F, ob, cfg, build, feed, X, parts, lambda m: m._mean)
    K.same_terms(F, ob, "data_untouched", snap, X)
    if not F.sym:
        # replay only: the batch model itself (real LAPACK) for the clause that is checked
        bat = PCAVectorModel(X.copy(), centre=centre, inplace=False)
        ob.true("batch.n_samples", bat.n_samples == model.n_samples)
        ob.eq("batch.mean" + sfx, model._mean, bat._mean)


PCA_TOL = 1e-9


def ipca_algebra(F, ob, cfg):
    """menpo.math.ipca, one update from an ARBITRARY VALID prior model (k orthonormal components U_a, eigenvalues
    l_a > 0, n_a samples, mean m_a) with m new samples B, all symbolic.  The law behind "same eigenvalues and
    principal subspace as the batch model": the updated model's scatter U^T diag(l) U (n-1) equals the pooled scatter
        (n_a-1) U_a^T diag(l_a) U_a + sum_b (b-m_b)(b-m_b)^T + (n_a n_b / n)(m_b-m_a)(m_b-m_a)^T   (centred)
        (n_a-1) U_a^T diag(l_a) U_a + B^T B                                                         (uncentred)
    so that, by induction over increments, the incremental covariance is the batch covariance.
    Symbolically the law is checked up to the SVD call: numpy.linalg.svd is replaced by an INSTRUMENT that records
    the matrix R it is given and answers (I, 1, I), so that the components ipca hands back are exactly the basis it
    multiplies V^T with; the obligation is basis^T R^T R basis = pooled scatter (given a correct SVD, V^T diag(s^2) V =
    R^T R, that is the law above; LAPACK's SVD itself is trusted).  numpy.linalg.qr of the d x d residual block
    returns ANY orthogonal matrix (every QR factor Q is one; only Q is used).  In the concrete replay nothing is
    replaced and the law is evaluated on the real output."""
    import menpo.math.decomposition as dec
    from symx import core, npproxy
    from symx.core import Sym, SymB

    d, k, m, centred, n_a = cfg["d"], cfg["k"], cfg["m"], cfg["centred"], cfg["n_a"]
    if d == 2:
        # unit vectors as (c, +-sqrt(1 - c^2)): no denominators, and even powers of the root are rewritten by
        # core.reduce_sqrts, which keeps the polynomial arithmetic small
        c0 = F.real("ua_c", -1, 1)
        s0 = F.sqrt(1 - c0 * c0)
        if F.bool("ua_neg"):
            s0 = -s0
        Rm = K.arr(F, [[c0, -s0], [s0, c0]])
    else:
        Rm = K.rot(F, "ua", d)
    U_a = np.array(Rm[:k, :], dtype=object if F.sym else float)
    l_a = F.reals("la", (k,), 0.05, 4)
    B = F.reals("b", (m, d), -3, 3)
    m_a = None
    if centred:
        m_a = F.reals("ma", (d,), -3, 3)
        F.assume(m_a[0] >= 0.05)  # (a mean of exactly zero is read as "uncentred": subject of pca_counts)
    log = {}
    if F.sym:
        def qr(A, mode="reduced"):
            A = core.O(A)
            if A.shape[0] != d or A.shape[1] < d or mode != "reduced":
                raise core.Unsupported("qr instrument: only d x (>= d) blocks (got %s)" % (A.shape,))
            c = core.ctx()
            if d == 2:
                cc = F.fresh("qr_c", -1, 1)
                ss = (1 - cc * cc).sqrt()
                if bool(SymB(c.fresh_bool("qr_neg"))):
                    ss = -ss
                Q = np.array([[cc, -ss], [ss, cc]], dtype=object)
            else:
                w, x, y, z = [F.fresh("qr_q", -4, 4) for _ in range(4)]
                nn = w * w + x * x + y * y + z * z
                c.defined.append(core.bterm(nn >= 0.01))
                Q = np.array([[nn - 2 * (y * y + z * z), 2 * (x * y - z * w), 2 * (x * z + y * w)],
                              [2 * (x * y + z * w), nn - 2 * (x * x + z * z), 2 * (y * z - x * w)],
                              [2 * (x * z - y * w), 2 * (y * z + x * w), nn - 2 * (x * x + y * y)]], dtype=object) * (1 / nn)
            if bool(SymB(c.fresh_bool("qr_reflect"))):
                Q = Q.copy()
                Q[:, 0] = -Q[:, 0]
            log["qr"] = A.shape
            return Q, np.zeros((d, A.shape[1]), dtype=object)

        def svd(Rmat, **kw):
            Rmat = core.O(Rmat)
            log["R"] = Rmat
            p, q = Rmat.shape
            return K.eye(F, p), K.const(F, np.ones(min(p, q))), K.eye(F, q)

        npproxy.NP.stubs["linalg.qr"] = qr
        npproxy.NP.stubs["linalg.svd"] = svd
        # square roots of concrete weights (sqrt(n_a n_b / n)) stay exact: r >= 0, r^2 = the float menpo computed
        orig_sqrt = npproxy.NP.sqrt

        def exact_sqrt(a):
            if isinstance(a, (float, int, np.floating)) and not isinstance(a, bool):
                return Sym.of(float(a)).sqrt()
            return orig_sqrt(a)

        F.patch(npproxy.NP, "sqrt", exact_sqrt)
    U, l, mean = dec.ipca(B.copy(), U_a.copy(), l_a.copy(), n_a, m_a=None if m_a is None else m_a.copy())
    n = n_a + m
    prior = sum(np.outer(U_a[i], U_a[i]) * (l_a[i] * (n_a - 1)) for i in range(k))
    if centred:
        m_b = B.sum(axis=0) / m
        Bc = B - m_b
        dm = m_b - m_a
        w = (float(n_a) * m) / (float(n_a) + m)  # the very float menpo takes the square root of
        want = prior + Bc.T.dot(Bc) + np.outer(dm, dm) * K.const(F, w)
        ob.eq("mean", mean, (m_a * n_a + B.sum(axis=0)) / n, atol=1e-9)
    else:
        want = prior + B.T.dot(B)
        ob.eq("mean.uncentred", mean, np.zeros(d))
    if F.sym:
        ob.true("instrument.reached", "R" in log and "qr" in log)
        if "R" not in log:
            return
        R = log["R"]
        ob.true("basis.shape", np.shape(U) == (R.shape[1], d))
        rtr = core.reduce_sqrts(R.T.dot(R))
        got = core.reduce_sqrts(core.reduce_sqrts(U.T.dot(rtr)).dot(U))
        ob.eq("pooled_scatter(pre-SVD)", core.reduce_sqrts(got), want)
    else:
        got = sum(np.outer(U[i], U[i]) * l[i] for i in range(len(l))) * (n - 1)
        ob.eq("pooled_scatter", got, want, tol=1e-7)
        ob.eq("components.orthonormal", U.dot(U.T), np.eye(len(l)), atol=1e-8)
        ob.true("eigenvalues.positive_descending", bool(np.all(l > 0)) and bool(np.all(np.diff(l) <= 1e-12)))


def pca_model(F, ob, cfg):
    """PCAModel on PointCloud samples (as_matrix path)"""
    from menpo.model import PCAModel
    from menpo.shape import PointCloud

    _mutate(F, cfg)
    if F.sym:
        _install_lapack_cuts(F)
    n0, centre = cfg["n0"], cfg["centre"]
    parts = [n0] + list(cfg["incs"])
    X = F.reals("x", (sum(parts), 2))
    _not_degenerate(F, X)

    def clouds(rows):
        return [PointCloud(np.array(r, dtype=X.dtype).reshape(1, 2), copy=False) for r in rows]

    def build(A):
        return PCAModel(clouds(A), centre=centre)

    def feed(model, B):
        model.increment(clouds(B))

    model, sfx = _pca_run(F, ob, cfg, build, feed, X, parts, lambda m: m.mean_vector)
    ob.eq("mean().points" + sfx, model.mean().points, (_mean(F, X) if centre else np.zeros(2)).reshape(1, 2), tol=PCA_TOL)
    if not F.sym:
        bat = PCAModel(clouds(X), centre=centre)
        ob.true("batch.n_samples", bat.n_samples == model.n_samples)
        ob.eq("batch.mean" + sfx, model.mean().points, bat.mean().points)


def pca_degenerate(F, ob, cfg):
    """all samples equal to one symbolic vector (zero variance): the batch model exists (no components, mean = the
    vector); the increments must give the same count and mean"""
    from menpo.model import PCAVectorModel

    if F.sym:
        _install_lapack_cuts(F)
    n0, d, m = cfg["n0"], cfg["d"], cfg["m"]
    v = F.reals("v", (d,), 0.5, 8)  # away from zero: the exactly-zero-mean finding is a different one
    A = np.array([v] * n0, dtype=v.dtype)
    B = np.array([v] * m, dtype=v.dtype)
    bat = PCAVectorModel(np.vstack([A, B]).copy(), inplace=False)
    ob.true("batch.n_samples", bat.n_samples == n0 + m)
    ob.eq("batch.mean", bat._mean, v)
    model = PCAVectorModel(A.copy(), inplace=False)
    try:
        model.increment(B.copy())
    except ValueError as e:
        ob.fail("zero_variance.increment_raises", "%s: %s" % (type(e).__name__, str(e)[:120]))
        return
    ob.true("inc.n_samples", model.n_samples == n0 + m)
    ob.eq("inc.mean", model._mean, v)
    ob.true("inc.n_components", model.n_components == bat.n_components)
