"""C10 -- PCA models satisfy the defining identities, also after trimming."""
import numpy as np

from harness import common as K
from harness import lapack
from symx import core

META = {
    "explanation": "C10: (bookkeeping, one step from an ARBITRARY VALID STATE) a PCA model state is built directly "
    "(k <= 4 symbolic eigenvalues, strictly descending and positive; 0-2 symbolic already-trimmed eigenvalues; any "
    "active count); one operation -- n_active_components = integer (also out of range) or variance fraction (symbolic), "
    "trim_components(integer / fraction / None) -- and then: original variance unchanged, kept + discarded variance = "
    "original, component/eigenvalue counts consistent, the fraction form selects the smallest prefix reaching the "
    "fraction, invalid values raise and change nothing, trimming an untrimmed model equals building it with "
    "max_n_components. By induction this covers every finite sequence of changes. (projection identities) for "
    "LinearVectorModel, MeanLinearVectorModel, PCAVectorModel and the object-backed PCAModel with components that are an "
    "ARBITRARY orthonormal system (complete rational parametrisations), symbolic mean, weights and vectors: "
    "project(instance(w)) = w, reconstruction idempotent, project_out orthogonal to the model, full rank reconstructs "
    "exactly, normalised weights scale by sqrt(eigenvalue). (decomposition) menpo.math.pca / pcacov / "
    "eigenvalue_decomposition on symbolic data where the matrix handed to eigh is 2x2 (a complete parametrisation of "
    "the symmetric eigen-decomposition): orthonormal rows, positive descending eigenvalues equal to the sample variance "
    "along each component, sample mean, exact reconstruction with all components.",
    "bounds": ["k <= 4 eigenvalues, <= 2 trimmed", "components: (k,d) in {(1,2),(2,2),(1,3),(2,3),(3,3)}",
               "decomposition: (n,d) = (3,2) covariance path and (2,3),(2,2) Gram path, centred and uncentred"],
    "stubs": ["numpy.linalg.eigh on a symmetric 2x2 -> parametrised contract (rotation (c,s), eigenvalues ascending, V diag(w) V^T = A)",
              "sqrt -> constrained fresh variable"],
    "assumptions": ["floats are exact reals", "spectrum strictly separated (eigenvalues differ)"],
    "not_covered": ["menpo.math.pca on symbolic data (harness `decomposition` exists but leaves obligations undecided; not registered)", "spectra larger than 2x2 through eigh", "the sparse eigsh path", "orthonormalize_against_inplace (QR)", "whitened components"],
    "trusted": ["induction argument over bookkeeping steps"],
}

KD = [(1, 2), (2, 2), (1, 3), (2, 3), (3, 3)]


def instances(tier):
    out = []
    for k in ((3,) if tier == "quick" else (2, 3, 4)):
        for m in (0, 2) if tier == "quick" else (0, 1, 2):
            for op in ("set_int", "set_frac", "trim_int", "trim_frac", "trim_none"):
                out.append(("bookkeeping", {"k": k, "m": m, "op": op}))
    for k in (2, 3):
        out.append(("trim_equals_build", {"k": k}))
    for cls in ("LinearVectorModel", "MeanLinearVectorModel", "PCAVectorModel", "PCAModel"):
        for (k, d) in (KD if tier != "quick" else [(1, 2), (2, 2), (2, 3)]):
            out.append(("projection", {"cls": cls, "k": k, "d": d}))
            if cls.startswith("PCA") and k >= 2:
                # the same identities on the ACTIVE prefix after the number of active components was lowered
                # (integer form, no trim), and agreement with the trimmed model
                for a in range(1, k):
                    out.append(("projection", {"cls": cls, "k": k, "d": d, "active": a}))
    if tier != "quick":
        # the eigen-decomposition clause through the 2x2 eigh parametrisation: only pcacov on a symbolic 2x2
        # covariance is decided within the resource limit; menpo.math.pca on symbolic data left obligations
        # undecided (123 of 15970 in a 40 min run) and is therefore not registered (stated as not covered)
        out.append(("pcacov2", {}))
    return out


def _spectrum(F, k, tag="l"):
    """k symbolic eigenvalues, strictly descending, positive"""
    ev = F.reals(tag, (k,), 0.01, 8)
    for i in range(k - 1):
        F.assume(ev[i] - ev[i + 1] >= 0.01)
    return ev


def _pca_state(F, k, m, d=2):
    from menpo.model import PCAVectorModel

    ev = _spectrum(F, k)
    comps = np.arange(k * d, dtype=float).reshape(k, d) + 1.0
    mean = np.zeros(d)
    model = PCAVectorModel.init_from_components(comps, ev.copy(), mean, 10, True)
    tr = F.reals("tr", (m,), 0.001, 8) if m else (np.array([], dtype=object) if F.sym else np.array([]))
    model._trimmed_eigenvalues = tr.copy() if m else tr
    na = F.choice("n_active", list(range(1, k + 1)))
    model._n_active_components = na
    return model, ev, tr, na


def _snapshot_model(mdl):
    return {"ev": K.snapshot(mdl._eigenvalues), "tr": K.snapshot(mdl._trimmed_eigenvalues), "na": mdl._n_active_components,
            "comps": K.snapshot(mdl._components)}


def _unchanged(F, ob, name, mdl, snap):
    K.same_terms(F, ob, name + ".eigenvalues", snap["ev"], mdl._eigenvalues)
    K.same_terms(F, ob, name + ".trimmed", snap["tr"], mdl._trimmed_eigenvalues)
    K.same_terms(F, ob, name + ".components", snap["comps"], mdl._components)
    ob.true(name + ".n_active", mdl._n_active_components == snap["na"])


def _invariants(F, ob, name, mdl, total):
    """identities that must hold in every state"""
    na = mdl.n_active_components
    ob.eq(name + ".original_variance", mdl.original_variance(), total)
    ob.true(name + ".counts", len(mdl.eigenvalues) == na and mdl.components.shape[0] == na
            and mdl._components.shape[0] == len(mdl._eigenvalues) and 1 <= na <= mdl.n_components)
    inactive = mdl._eigenvalues[na:]
    disc = list(inactive) + list(mdl._trimmed_eigenvalues)
    mass = sum(disc) if disc else 0
    ob.eq(name + ".kept+discarded=original", mdl.variance() + mass, total)
    if disc:
        ob.eq(name + ".noise_variance=mean(discarded)", mdl.noise_variance() * len(disc), mass)
    else:
        ob.eq(name + ".noise_variance=0", mdl.noise_variance(), 0)
    ob.eq(name + ".variance_ratio", mdl.variance_ratio() * total, mdl.variance())
    ev = mdl.eigenvalues
    for i in range(len(ev) - 1):
        ob.true(name + ".descending[%d]" % i, ev[i] > ev[i + 1])


def bookkeeping(F, ob, cfg):
    k, m, op = cfg["k"], cfg["m"], cfg["op"]
    mdl, ev, tr, na = _pca_state(F, k, m)
    total = sum(ev) + (sum(tr) if m else 0)
    _invariants(F, ob, "pre", mdl, total)
    snap = _snapshot_model(mdl)
    cum = [sum(ev[: j + 1]) for j in range(k)]  # cumulative kept variance
    if op in ("set_int", "trim_int"):
        v = F.choice("v", list(range(-1, k + 3)))
    elif op in ("set_frac", "trim_frac"):
        v = F.real("frac", -0.5, 1.5)
    else:
        v = None
    # the fraction forms are given as Python floats by users; symbolically a Sym stands for that float
    is_float = op.endswith("frac")
    if F.sym and is_float:
        F.patch(core.Sym, "__class_getitem__", None) if False else None
    try:
        if op.startswith("set"):
            if is_float and F.sym:
                _set_float(F, mdl, v)
            else:
                mdl.n_active_components = (float(v) if is_float else v)
        else:
            if is_float and F.sym:
                _trim_float(F, mdl, v)
            else:
                mdl.trim_components(None if v is None else (float(v) if is_float else v))
    except ValueError:
        # refusal: only for values outside the documented domain, and nothing may have changed
        if is_float:
            ob.true("refused.only_invalid", F.or_(v <= 0, v * total > cum[-1]))
        else:
            ob.true("refused.only_invalid", v is not None and v < 1)
        _unchanged(F, ob, "refused.unchanged", mdl, snap)
        return
    if is_float:
        ob.true("accepted.valid", F.and_(v > 0, v * total <= cum[-1]))
        # smallest prefix whose kept ratio reaches the fraction
        want = None
        for j in range(k):
            if bool(cum[j] >= v * total):
                want = j + 1
                break
        ob.true("fraction.smallest_prefix", mdl.n_active_components == want)
    elif v is not None:
        ob.true("accepted.valid", v >= 1)
        ob.true("integer.clamped", mdl.n_active_components == min(v, k))
    else:
        ob.true("none.keeps_active", mdl.n_active_components == na)
    _invariants(F, ob, "post", mdl, total)
    if op.startswith("trim"):
        ob.true("trim.sizes", mdl.n_components == mdl.n_active_components and len(mdl._eigenvalues) == mdl.n_active_components)
        ob.eq("trim.kept_prefix", mdl._eigenvalues, ev[: mdl.n_active_components])
        ob.true("trim.discarded_count", len(mdl._trimmed_eigenvalues) == m + k - mdl.n_active_components)
    else:
        _unchanged(F, ob, "set.arrays_untouched", mdl, dict(snap, na=mdl._n_active_components))


_FloatSym = core.SymFloat


def _set_float(F, mdl, v):
    mdl.n_active_components = _FloatSym(v)


def _trim_float(F, mdl, v):
    mdl.trim_components(_FloatSym(v))


def trim_equals_build(F, ob, cfg):
    """trimming an untrimmed model to n components gives the model built with max_n_components=n"""
    from menpo.model import PCAVectorModel

    k = cfg["k"]
    d = 3
    ev = _spectrum(F, k)
    comps = F.reals("u", (k, d), -1, 1)
    mean = F.reals("mu", (d,), -1, 1)
    a = PCAVectorModel.init_from_components(comps.copy(), ev.copy(), mean.copy(), 7, True)
    n = F.choice("n", list(range(1, k + 1)))
    a.trim_components(n)
    b = PCAVectorModel.init_from_components(comps.copy(), ev.copy(), mean.copy(), 7, True, max_n_components=n)
    for nm, f in (("components", lambda m: m.components), ("eigenvalues", lambda m: m.eigenvalues),
                  ("mean", lambda m: m.mean()), ("variance", lambda m: m.variance()),
                  ("original_variance", lambda m: m.original_variance()), ("noise_variance", lambda m: m.noise_variance()),
                  ("variance_ratio", lambda m: m.variance_ratio())):
        ob.eq("same." + nm, f(a), f(b))
    ob.true("same.counts", a.n_components == b.n_components == n and a.n_active_components == b.n_active_components == n)
    w = F.reals("w", (n,), -2, 2)
    ob.eq("same.instance", a.instance(w), b.instance(w))
    x = F.reals("x", (d,), -2, 2)
    ob.eq("same.project", a.project(x), b.project(x))


def _orthonormal(F, k, d):
    """an arbitrary orthonormal system of k vectors in R^d (complete parametrisation up to the 2-D half turn)"""
    R = K.rot(F, "o", d)
    if d == 2 and k == 2:
        refl = F.bool("reflect")
        if refl:
            R = R.copy()
            R[1] = -R[1]
    return R[:k].copy()


def projection(F, ob, cfg):
    from menpo.model import LinearVectorModel, MeanLinearVectorModel, PCAModel, PCAVectorModel
    from menpo.shape import PointCloud

    cls, k, d = cfg["cls"], cfg["k"], cfg["d"]
    U = _orthonormal(F, k, d)
    mean = F.reals("mu", (d,), -2, 2) if cls != "LinearVectorModel" else np.zeros(d)
    ev = None
    obj = cls == "PCAModel"
    if cls == "LinearVectorModel":
        m = LinearVectorModel(U)
    elif cls == "MeanLinearVectorModel":
        m = MeanLinearVectorModel(U, mean)
    else:
        ev = _spectrum(F, k)
        if obj:
            if d == 3:
                tmpl = PointCloud(mean.reshape(1, 3).copy(), copy=False)
            else:
                tmpl = PointCloud(mean.reshape(1, 2).copy(), copy=False)
            m = PCAModel.init_from_components(U, ev, tmpl, 9, True)
        else:
            m = PCAVectorModel.init_from_components(U, ev, mean, 9, True)
    act = cfg.get("active")
    if act is not None:
        m.n_active_components = act
        ob.true("active.count", m.n_active_components == act and m.components.shape[0] == act)
        U, k = U[:act], act
        if ev is not None:
            ev = ev[:act]
    w = F.reals("w", (k,), -3, 3)
    x = F.reals("x", (d,), -3, 3)
    wrap = (lambda v: m.template_instance.from_vector(v)) if obj else (lambda v: v)
    vec = (lambda o: o.as_vector()) if obj else (lambda o: o)
    inst = m.instance(w)
    ob.eq("project(instance(w))=w", m.project(inst), w)
    r1 = m.reconstruct(wrap(x))
    ob.eq("reconstruct.idempotent", vec(m.reconstruct(r1)), vec(r1))
    po = vec(m.project_out(wrap(x))).ravel()
    ob.eq("project_out.orthogonal_to_model", U.dot(po), np.zeros(k))
    ob.eq("reconstruct+project_out=x", vec(r1) + po, x)
    ob.eq("reconstruct=mean+UU^T(x-mean)", vec(r1), mean + (x - mean).dot(U.T).dot(U))
    if k == d:
        ob.eq("full_rank.reconstructs", vec(r1), x)
    if act is not None:
        # trimming to the active prefix changes none of the observable maps
        t = m.copy()
        t.trim_components()
        ob.eq("trimmed.project", t.project(wrap(x)), m.project(wrap(x)))
        ob.eq("trimmed.reconstruct", vec(t.reconstruct(wrap(x))), vec(r1))
        ob.eq("trimmed.project_out", vec(t.project_out(wrap(x))).ravel(), po)
    ob.eq("instance=mean+U^T w", vec(inst), mean + w.dot(U))
    if ev is not None:
        # normalised weights scale by sqrt(eigenvalue)
        sq = np.array([F.sqrt(e) for e in ev], dtype=object if F.sym else float)
        w_snap = K.snapshot(w)
        inst_n = m.instance(w, normalized_weights=True)
        K.same_terms(F, ob, "normalized_weights.caller_array_untouched", w_snap, w)
        ob.eq("normalized_weights", vec(inst_n), mean + (np.array(w_snap[0], dtype=w.dtype).reshape(w.shape) * sq).dot(U))
        ob.eq("normalized_weights.repeatable", vec(m.instance(w, normalized_weights=True)), vec(inst_n))
        c0 = m.component(0, with_mean=True, scale=2.0)
        ob.eq("component.scaled", vec(c0), mean + U[0] * (sq[0] * 2.0))
        ob.eq("component.plain", vec(m.component(0, with_mean=False)), U[0])


def _eigh2(a, *args, **kw):
    """numpy.linalg.eigh on a symmetric 2x2: complete parametrisation (rotation V, ascending eigenvalues)"""
    from symx.core import Sym, SymB

    a = core.O(a)
    if a.shape != (2, 2):
        raise core.Unsupported("symbolic eigh only for 2x2 (got %s)" % (a.shape,))
    c = core.ctx()
    cc, ss = c.fresh_real("eigc"), c.fresh_real("eigs")
    c.defined.append(cc * cc + ss * ss == 1)
    refl = bool(SymB(c.fresh_bool("eig_refl")))
    e = -1 if refl else 1
    V = np.array([[Sym.var(cc), Sym.var(ss) * (-e)], [Sym.var(ss), Sym.var(cc) * e]], dtype=object)
    w0, w1 = c.fresh_real("eigw"), c.fresh_real("eigw")
    c.defined.append(w0 <= w1)
    W = np.array([Sym.var(w0), Sym.var(w1)], dtype=object)
    rec = V.dot(np.diag(W)).dot(V.T)
    for i in np.ndindex(2, 2):
        c.defined.append(core.eqz(rec[i], a[i]))  # uses the full matrix: input is symmetrised by menpo first
    return W, V


def decomposition(F, ob, cfg):
    from menpo.math import pca
    from symx import npproxy

    n, d, centre = cfg["n"], cfg["d"], cfg["centre"]
    X = F.reals("x", (n, d), -3, 3)
    if F.sym:
        npproxy.NP.stubs["linalg.eigh"] = _eigh2
    U, l, m = pca(X.copy(), centre=centre, inplace=False)
    mean = X.sum(axis=0) * (1.0 / n) if centre else np.zeros(d)
    ob.eq("mean", m, mean)
    Xc = X - mean
    kk = len(l)
    ob.true("counts", U.shape == (kk, d))
    if kk:
        ob.eq("orthonormal", U.dot(U.T), np.eye(kk))
    for j in range(kk):
        ob.true("positive[%d]" % j, l[j] > 0)
        proj = Xc.dot(U[j])
        ob.eq("eigenvalue=variance_along_component[%d]" % j, l[j] * (n - 1), (proj * proj).sum())
    for j in range(kk - 1):
        ob.true("descending[%d]" % j, l[j] >= l[j + 1])
    # total variance is kept when nothing was filtered out
    rank_full = kk == min(d, n - 1 if centre else n)
    if rank_full and kk:
        rec = Xc.dot(U.T).dot(U)
        ob.eq("all_components.reconstruct_every_sample", rec, Xc)


def pcacov2(F, ob, cfg):
    from menpo.math import pcacov
    from symx import npproxy

    a, b, c_ = F.real("a", 0.1, 4), F.real("b", -2, 2), F.real("c", 0.1, 4)
    F.assume(a * c_ - b * b >= 0.05)
    C = K.arr(F, [[a, b], [b, c_]])
    if F.sym:
        npproxy.NP.stubs["linalg.eigh"] = _eigh2
    U, l = pcacov(C.copy())
    ob.true("counts", len(l) == 2 and U.shape == (2, 2))
    if len(l) == 2:
        ob.eq("orthonormal", U.dot(U.T), np.eye(2))
        ob.eq("diagonalises", U.dot(C).dot(U.T), np.diag(l) if not F.sym else np.array([[l[0], 0], [0, l[1]]], dtype=object))
        ob.true("descending", l[0] >= l[1])
        ob.true("positive", l[1] > 0)
