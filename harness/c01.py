"""C01 -- image geometry ops keep landmarks and mask registered to pixel content."""
import numpy as np

from harness import common as K
from harness import imgsym
from harness.c20 import angle

META = {
    "explanation": "C01: the property's own observation device is an identity-coordinate image: sampling it returns the "
    "coordinate. Symbolically that is: the coordinates at which the source is sampled for output pixel p are T(p), and "
    "the returned landmarks satisfy T(lm') = lm. The only place where pixels are read (scipy_interpolation) is replaced "
    "by a logging stub returning uninterpreted values, so every op's geometry -- the transform it builds, its inverse, "
    "the template shape, the landmark warp -- is menpo's real code on symbolic parameters (scales, angles as points of "
    "the unit circle, crop bounds, affine matrices, landmark coordinates). Obligations, op-independent: the logged "
    "sample points form an affine grid S over the output indices (S fitted through 3 output indices, every other "
    "logged point must agree); S(lm') = lm for every landmark; the returned transform maps output indices to the same "
    "S; on masked images the mask is sampled at exactly the same points with order 0 and the result keeps a mask of "
    "the result's shape; BooleanImage sampling is order 0. Ops: crop, crop_to_landmarks, rescale (all rounding "
    "modes), rescale_to_diagonal, rescale_to_pointcloud, rescale_landmarks_to_diagonal_range, resize, zoom, "
    "rotate_ccw_about_centre (retain_shape on/off), transform_about_centre (arbitrary affine), mirror, pyramid, "
    "gaussian_pyramid, warp_to_shape / warp_to_mask with affine, with piecewise-affine and with thin-plate-spline "
    "transforms (for the warps the logged points must equal transform.apply(template) and landmarks come back "
    "through pseudoinverse()).",
    "bounds": ["images (3,4) (and (2,3,3) for the n-D ops) with 1-2 channels", "one landmark group of 2 symbolic points",
               "scales in [0.3,3], template shapes up to 9x12", "PWA: 2 concrete triangles; TPS: 4 concrete landmarks (landmarks of the image at TPS target landmarks)"],
    "stubs": ["scipy_interpolation -> logging stub (uninterpreted pixel values; all-True for boolean sources)",
              "scipy gaussian_filter (gaussian_pyramid) -> identity on the pixel array", "Angle algebra for rotations"],
    "assumptions": ["floats are exact reals", "pixel values and interpolation quality are not the subject (only where the source is sampled)"],
    "not_covered": ["integer/float dtype of pixels", "cv2 fast path (not installed)", "TPS with symbolic landmarks"],
    "trusted": ["affine-grid oracle in harness/c01.py"],
}

CLASSES = ["Image", "MaskedImage", "BooleanImage"]
# menpo itself does part of the arithmetic in concrete floats (shape ratios, cos/sin of concrete angles), so
# identities are stated with a relative tolerance far below any registration error of interest
TOL = 1e-8
ANGLES_DEG = [0.0, 30.0, 90.0, 135.0, -60.0, 200.0, 450.0]
AFFINES = [[[1.0, 0.4, 0.3], [0.0, 1.0, -0.2]], [[0.8, -0.6, 0.0], [0.6, 0.8, 0.5]], [[1.5, 0.0, 0.0], [0.2, 0.7, 0.1]]]


def instances(tier):
    out = []
    big = {"max_paths": 20000, "max_s": 2500}
    ops = ["crop", "crop_to_landmarks", "rescale", "rescale_to_diagonal", "rescale_to_pointcloud",
           "rescale_landmarks_to_diagonal_range", "resize", "zoom", "rotate", "rotate_retain", "transform_about_centre",
           "transform_about_centre_retain", "mirror0", "mirror1", "pyramid", "gaussian_pyramid", "warp_to_shape_affine",
           "warp_to_mask_affine", "warp_to_mask_pwa", "warp_to_shape_pwa"]
    for cls in CLASSES:
        for op in ops:
            if tier == "quick" and cls == "BooleanImage" and op not in ("crop", "rescale", "rotate", "mirror1", "warp_to_mask_affine"):
                continue
            if cls == "BooleanImage" and op == "gaussian_pyramid":
                continue  # smoothing a mask yields a float image: not a boolean-image op
            out.append(("op", {"cls": cls, "op": op, "shape": [3, 4], "ch": 1 if cls != "Image" else 2}, big))
    # an all-true mask must be carried by the same mapping too (no shortcut may skip its resampling)
    for op in ("rotate_retain", "transform_about_centre_retain", "warp_to_shape_affine", "zoom", "mirror1", "rescale_to_diagonal"):
        out.append(("op", {"cls": "MaskedImage", "op": op, "shape": [3, 4], "ch": 1, "mask": "all"}, big))
    for cls in CLASSES:
        for op in ("warp_to_shape_affine", "warp_to_mask_affine", "warp_to_mask_pwa"):
            out.append(("op", {"cls": cls, "op": op, "shape": [3, 4], "ch": 1, "batched": True}, big))
    # a piecewise-affine transform that is re-targeted between two warps
    for cls in ("Image", "MaskedImage"):
        out.append(("op", {"cls": cls, "op": "warp_to_mask_pwa_retarget", "shape": [3, 4], "ch": 1}, big))
    # n-D: volumes (zoom and similarity warps in 3-D in both tiers, the rest in thorough)
    for op in ("zoom", "warp_to_shape_similarity"):
        out.append(("op", {"cls": "Image", "op": op, "shape": [2, 3, 3], "ch": 1}, big))
    if tier != "quick":
        for op in ("crop", "rescale", "resize", "mirror0", "warp_to_shape_affine"):
            out.append(("op", {"cls": "Image", "op": op, "shape": [2, 3, 3], "ch": 1}, big))
        out.append(("op", {"cls": "MaskedImage", "op": "zoom", "shape": [2, 3, 3], "ch": 1}, big))
    return out


def _image(F, cfg):
    from menpo.image import BooleanImage, Image, MaskedImage
    from menpo.shape import PointCloud

    shp, ch = tuple(cfg["shape"]), cfg["ch"]
    if cfg["cls"] == "BooleanImage":
        img = BooleanImage((np.arange(int(np.prod(shp))).reshape(shp) % 3) != 0)
    elif cfg["cls"] == "Image":
        img = Image(np.arange(ch * int(np.prod(shp)), dtype=float).reshape((ch,) + shp) / 100.0)
    else:
        m = (np.arange(int(np.prod(shp))).reshape(shp) % 5) != 1
        if cfg.get("mask") == "all":
            m = np.ones(shp, dtype=bool)
        img = MaskedImage(np.arange(ch * int(np.prod(shp)), dtype=float).reshape((ch,) + shp) / 100.0, mask=m)
    lm = F.reals("lm", (2, len(shp)), 0.25, 2)
    if cfg["op"] in ("rescale_to_pointcloud", "rescale_landmarks_to_diagonal_range"):
        # the scale is a function of the landmarks' size (a square root): landmarks fixed, the target symbolic
        lm = K.const(F, [[0.5, 0.75], [1.75, 2.0]])
    if cfg["op"] == "crop_to_landmarks":
        # the box is derived from the landmarks: keep the two points apart
        for k in range(len(shp)):
            F.assume(lm[1, k] - lm[0, k] >= 1.1)
    img.landmarks["lm"] = PointCloud(lm, copy=False)
    return img, lm


def _affine(F, n):
    return K.mk_transform(F, "Affine", "a", n)


def _run_op(F, img, cfg):
    """-> list of (result image, returned transform or None) produced by the op (pyramids give several)"""
    import menpo.transform as mt
    from menpo.image import BooleanImage
    from menpo.shape import PointCloud, TriMesh

    op = cfg["op"]
    nd = len(cfg["shape"])
    shp = cfg["shape"]
    rt = dict(return_transform=True)
    if op == "crop":
        mn = np.array([F.real("mn%d" % k, -1, 1.5) for k in range(nd)], dtype=object if F.sym else float)
        mx = np.array([F.real("mx%d" % k, 1.6, shp[k] + 1) for k in range(nd)], dtype=object if F.sym else float)
        return [img.crop(mn, mx, constrain_to_boundary=True, **rt)]
    if op == "crop_to_landmarks":
        return [img.crop_to_landmarks(group="lm", boundary=F.choice("boundary", [0, 1]), constrain_to_boundary=True, **rt)]
    if op in ("rescale", "pyramid", "gaussian_pyramid", "rescale_to_diagonal", "resize"):
        rnd = F.choice("round", ["ceil", "floor", "round"]) if op == "rescale" else "ceil"
        if op == "rescale":
            sc = [F.real("s%d" % k, 0.4, 2.5) for k in range(nd)]
            return [img.rescale(sc, round=rnd, **rt)]
        if op == "rescale_to_diagonal":
            return [img.rescale_to_diagonal(F.real("diag", 2, 12), round=rnd, **rt)]
        if op == "resize":
            new = [F.choice("n%d" % k, [2, shp[k], shp[k] + 2]) for k in range(nd)]
            return [img.resize(new, **rt)]
        if op == "pyramid":
            levels = list(img.pyramid(n_levels=2, downscale=F.choice("down", [2, 1.5])))
            return [(lv, None) for lv in levels[1:]]
        if F.sym:
            import scipy.ndimage as sni

            def _gf(px, sigma, output=None, **kw):
                # the filter's values are not the subject: shape-preserving stand-in
                if output is not None:
                    output[...] = px
                    return None
                return np.array(px, copy=True)

            F.patch(sni, "gaussian_filter", _gf)
        levels = list(img.gaussian_pyramid(n_levels=2, downscale=2))
        return [(lv, None) for lv in levels[1:]]
    if op == "rescale_to_pointcloud":
        tgt = PointCloud(F.reals("pc", (2, nd), -3, 3), copy=False)
        d = tgt.points[1] - tgt.points[0]
        F.assume((d * d).sum() >= 0.25)
        return [img.rescale_to_pointcloud(tgt, group="lm", **rt)]
    if op == "rescale_landmarks_to_diagonal_range":
        return [img.rescale_landmarks_to_diagonal_range(F.real("dr", 0.5, 6), group="lm", **rt)]
    if op == "zoom":
        return [img.zoom(F.real("z", 0.4, 2.5), **rt)]
    if op == "rotate_retain":
        unit = F.choice("unit", ["deg", "rad"])
        th, c, s = angle(F, "th", unit)
        return [img.rotate_ccw_about_centre(th, degrees=(unit == "deg"), retain_shape=True, **rt)]
    if op == "rotate":
        # the output shape depends on the angle through rounding: angles from a stated list, landmarks symbolic
        deg = F.choice("angle", ANGLES_DEG)
        unit = F.choice("unit", ["deg", "rad"])
        th = deg if unit == "deg" else float(np.deg2rad(deg))
        return [img.rotate_ccw_about_centre(th, degrees=(unit == "deg"), retain_shape=False,
                                            round=F.choice("round", ["round", "ceil", "floor"]), **rt)]
    if op == "transform_about_centre_retain":
        return [img.transform_about_centre(_affine(F, nd), retain_shape=True, **rt)]
    if op == "transform_about_centre":
        import menpo.transform as mt2

        h = np.eye(3)
        h[:2, :] = np.array(F.choice("affine", AFFINES))
        return [img.transform_about_centre(mt2.Affine(h), retain_shape=False, round=F.choice("round", ["round", "ceil", "floor"]), **rt)]
    if op in ("mirror0", "mirror1"):
        return [img.mirror(axis=int(op[-1]), **rt)]
    # the documented batch_size option of the warps (work split over batches of template points)
    bs = dict(batch_size=F.choice("batch", [1, 4, 100])) if cfg.get("batched") else {}
    if op == "warp_to_shape_similarity":
        tshape = tuple(F.choice("t%d" % k, [2, 3]) for k in range(nd))
        return [img.warp_to_shape(tshape, K.mk_transform(F, "Similarity", "a", nd), warp_landmarks=True, **rt)]
    if op == "warp_to_shape_affine":
        tshape = tuple(F.choice("t%d" % k, [2, 3]) for k in range(nd))
        return [img.warp_to_shape(tshape, _affine(F, nd), warp_landmarks=True, **rt, **bs)]
    tmask = BooleanImage(np.array([[True, False, True], [True, True, False]]))
    if op == "warp_to_mask_affine":
        return [img.warp_to_mask(tmask, _affine(F, nd), warp_landmarks=True, **rt, **bs)]
    if op in ("warp_to_mask_pwa", "warp_to_shape_pwa", "warp_to_mask_pwa_retarget"):
        # template space -> image space; the image's landmarks sit inside the target triangles
        src = K.const(F, [[-1.0, -1.0], [4.0, -1.0], [-1.0, 4.0], [4.0, 4.0]])
        tgt = K.const(F, [[-1.0, -1.5], [5.0, -1.0], [-1.5, 5.0], [4.5, 5.0]])
        tgt[3] = F.reals("pw", (2,), 4, 6)
        pwa = mt.PiecewiseAffine(TriMesh(src, np.array([[0, 1, 2], [1, 3, 2]]), copy=False), PointCloud(tgt, copy=False))
        if op == "warp_to_mask_pwa":
            return [img.warp_to_mask(tmask, pwa, warp_landmarks=True, **rt, **bs)]
        if op == "warp_to_mask_pwa_retarget":
            first = img.warp_to_mask(tmask, pwa, warp_landmarks=True, **rt)
            tgt2 = tgt.copy()
            tgt2[3] = F.reals("pw2", (2,), 4, 6)
            tgt2[0] = K.const(F, [-0.5, -1.0])
            pwa.set_target(PointCloud(tgt2, copy=False))
            # only the second warp is examined: it must be consistent with the re-targeted transform
            second = img.warp_to_mask(tmask, pwa, warp_landmarks=True, **rt)
            cfg["_skip_calls"] = 1
            return [second]
        return [img.warp_to_shape((2, 3), pwa, warp_landmarks=True, **rt)]
    if op == "warp_to_mask_tps":
        src = np.array([[0.0, 0.0], [2.0, 0.2], [0.3, 2.0], [2.2, 2.4]])
        tgt = F.reals("tp", (4, 2), 0, 3)
        if F.sym:
            import menpo.transform.rbf as rbf
            from harness import lapack

            lapack.install_cdist(F, rbf)
            lapack.install_log(F)
        tps = mt.ThinPlateSplines(PointCloud(src), PointCloud(tgt, copy=False))
        # landmarks placed on the TPS target landmarks: the reverse-fitted spline sends them exactly back
        img.landmarks["lm"] = PointCloud(tgt[:2].copy(), copy=False)
        return [img.warp_to_mask(tmask, tps, warp_landmarks=True, **rt)]
    raise KeyError(op)


def op(F, ob, cfg):
    import menpo.image.base as ib
    from menpo.image import BooleanImage, MaskedImage
    from menpo.image.base import indices_for_image_of_shape

    img, lm = _image(F, cfg)
    log = imgsym.install_logging_sampler(F, ib)
    log.tag(img.pixels, "img")
    if isinstance(img, MaskedImage):
        log.tag(img.mask.pixels, "mask")
    before = K.freeze(K.digest(img))
    results = _run_op(F, img, cfg)
    nd = len(cfg["shape"])
    lm_src = img.landmarks["lm"].points
    pixel_calls = [c for c in log.calls if c["dtype"] != "bool" or isinstance(img, BooleanImage)]
    mask_calls = [c for c in log.calls if c["dtype"] == "bool"] if not isinstance(img, BooleanImage) else []
    skip = cfg.pop("_skip_calls", 0)
    pixel_calls, mask_calls = pixel_calls[skip:], mask_calls[skip:]
    ob.true("sampled.once_per_result", len(pixel_calls) >= len(results))
    prev_lm = lm_src
    for j, (out, T) in enumerate(results):
        nm = "r%d" % j
        call = pixel_calls[j] if cfg["op"] not in ("pyramid", "gaussian_pyramid") else pixel_calls[j]
        P = call["points"]
        if "warp_to_mask" in cfg["op"] and not isinstance(img, BooleanImage):
            ob.true(nm + ".class", isinstance(out, MaskedImage))  # warping to a mask yields a masked image
        else:
            ob.true(nm + ".class", type(out) is type(img))
        ob.true(nm + ".channels", out.n_channels == img.n_channels)
        if isinstance(out, MaskedImage) and "mask" in cfg["op"] and "warp_to_mask" in cfg["op"]:
            tidx = out.mask.true_indices()
        elif isinstance(out, BooleanImage) and "warp_to_mask" in cfg["op"]:
            tidx = np.argwhere(np.array([[True, False, True], [True, True, False]]))
        elif "warp_to_mask" in cfg["op"]:
            tidx = np.argwhere(np.array([[True, False, True], [True, True, False]]))
        else:
            tidx = indices_for_image_of_shape(out.shape)
        ob.true(nm + ".one_sample_per_output_pixel", P.shape == (tidx.shape[0], nd))
        if P.shape != (tidx.shape[0], nd):
            continue
        if isinstance(img, BooleanImage):
            ob.true(nm + ".boolean_sampled_nearest", call["order"] == 0)
        affine_op = not any(k in cfg["op"] for k in ("pwa", "tps"))
        if T is not None:
            # the returned transform maps result coordinates to the source coordinates that were sampled
            ob.eq(nm + ".transform(index)=sampled_point", T.apply(tidx.astype(float)), P, atol=TOL)
            ob.eq(nm + ".transform(landmarks')=landmarks", T.apply(out.landmarks["lm"].points), prev_lm,
                  atol=TOL)
        if affine_op and tidx.shape[0] >= nd + 1:
            # independent of the returned transform: the sampled points form an affine grid S over the indices,
            # and S(landmarks') = landmarks
            S = _fit_affine(F, tidx, P, nd)
            if S is not None:
                A, b = S
                ob.eq(nm + ".samples_form_affine_grid", tidx.astype(float).dot(A.T) + b, P, atol=TOL)
                ob.eq(nm + ".S(landmarks')=landmarks", out.landmarks["lm"].points.dot(A.T) + b, prev_lm, atol=TOL)
        ob.true(nm + ".landmarks.groups", list(out.landmarks.keys()) == ["lm"])
        if isinstance(img, MaskedImage):
            ob.true(nm + ".is_masked", isinstance(out, MaskedImage) and out.mask.shape == out.shape)
            if "warp_to_mask" in cfg["op"]:
                ob.true(nm + ".mask=template", bool(np.array_equal(out.mask.mask, np.array([[True, False, True], [True, True, False]]))))
            else:
                ob.true(nm + ".mask.sampled", len(mask_calls) > j)
                if len(mask_calls) > j:
                    mc = mask_calls[j]
                    ob.true(nm + ".mask.order0", mc["order"] == 0)
                    ob.eq(nm + ".mask.same_points", mc["points"], P, atol=TOL)
        prev_lm = out.landmarks["lm"].points if cfg["op"] in ("pyramid", "gaussian_pyramid") else prev_lm
        if cfg["op"] in ("pyramid", "gaussian_pyramid"):
            log.tag(out.pixels, "img")
    K.eq_digest(F, ob, "input.unchanged", K.digest(img), before)


def _fit_affine(F, idx, P, nd):
    """affine map through the samples at index 0 and at the nd unit steps from it (None if the grid is too small)"""
    idx = np.asarray(idx)
    look = {tuple(r): k for k, r in enumerate(idx.tolist())}
    base = tuple(idx[0].tolist())
    cols = []
    for d in range(nd):
        step = list(base)
        step[d] += 1
        if tuple(step) not in look:
            return None
        cols.append(P[look[tuple(step)]] - P[look[base]])
    A = np.array(cols, dtype=P.dtype).T
    b = P[look[base]] - np.asarray(base, dtype=float).dot(A.T)
    return A, b
