"""C02 -- transforming a shape moves points and landmarks as one and mutates nothing."""
import numpy as np

from harness import common as K
from harness import lapack

META = {
    "explanation": "C02: every shape class (concrete structure, symbolic coordinates, two landmark groups of different "
    "shape classes with symbolic coordinates) crossed with every transform class (arbitrary valid homogeneous-family "
    "members incl. alignment variants, chains, dimension slicing, thin-plate splines and piecewise affine warps with "
    "concrete landmarks). Transform.apply(shape) must return the same class with points = T(points) termwise, "
    "every landmark group moved by the same map, all structure (connectivity, trilist, labels and their order, colours, "
    "tcoords, texture, root) equal, the input shape, its landmarks and the transform termwise unchanged, and "
    "apply on the bare coordinate array giving the same terms.",
    "bounds": ["4 points per shape, 3 per landmark group", "2-D (quick) and 3-D (thorough)", "TPS: 5 concrete landmarks; PWA: 2 concrete triangles, points inside the domain"],
    "stubs": ["TPS kernel: scipy cdist -> sqrt of sums of squares, np.log -> uninterpreted function"],
    "assumptions": ["floats are exact reals", "PWA: shape and landmark points lie inside the source triangulation",
                    "TPS: points do not coincide with kernel centres"],
    "not_covered": ["shapes with more points; dtype-dependent behaviour (payload is dtype=object)"],
    "trusted": ["state digest in harness/common.py"],
}

TRANSFORMS = K.FAMILY + ["HomogeneousW", "HomogeneousP", "Chain", "WithDims", "TPS", "PWA"]
TPS_SRC = [[0, 0], [1, 0.1], [0.2, 1], [1.3, 1.2]]
TPS_TGT = [[0.1, 0], [1.2, 0.3], [0.1, 1.1], [1.5, 1.0]]
# one source triangle that contains the whole coordinate box [-8,8]^2 (every containment test has one outcome)
TRI_S = [[-20.0, -20.0], [40.0, -20.0], [-20.0, 40.0]]
TRI_T = [[-18.0, -21.0], [41.0, -17.0], [-22.0, 38.0]]


def instances(tier):
    out = []
    dims = [2] if tier == "quick" else [2, 3]
    for n in dims:
        for cls in K.SHAPES:
            for t in TRANSFORMS:
                if t in ("TPS", "PWA") and n != 2:
                    continue
                if tier == "quick" and t in K.ALIGN and t != "AlignmentSimilarity":
                    continue
                if tier == "quick" and t == "TPS" and cls not in ("PointCloud", "LabelledPointUndirectedGraph"):
                    continue
                out.append(("apply", {"cls": cls, "t": t, "n": n}))
    for t in ("Affine", "Translation", "UniformScale", "HomogeneousW"):
        for dt in ("int32", "int16", "float32"):
            out.append(("apply_dtype", {"t": t, "n": 2, "dtype": dt}))
        out.append(("apply_dtype", {"t": t, "n": 2, "dtype": "int64", "batched": True}))
    for cls in ("PointCloud", "TriMesh", "LabelledPointUndirectedGraph"):
        for t in ("Affine", "Similarity", "Chain", "HomogeneousP"):
            out.append(("apply_batched", {"cls": cls, "t": t, "n": 2}))
    return out


def _transform(F, cfg):
    import menpo.transform as mt
    from menpo.shape import PointCloud, TriMesh

    t, n = cfg["t"], cfg["n"]
    if t == "Chain":
        return mt.TransformChain([K.mk_transform(F, "Affine", "t0", n), K.mk_transform(F, "Translation", "t1", n)])
    if t == "WithDims":
        return mt.WithDims(list(range(n))[::-1][: max(1, n - 1)] if n == 3 else [1, 0])
    if t == "TPS":
        if F.sym:
            import menpo.transform.rbf as rbf

            lapack.install_cdist(F, rbf)
            lapack.install_log(F)
        return mt.ThinPlateSplines(PointCloud(np.array(TPS_SRC, dtype=float)), PointCloud(np.array(TPS_TGT, dtype=float)))
    if t == "PWA":
        return mt.PiecewiseAffine(TriMesh(K.const(F, TRI_S), np.array([[0, 1, 2]]), copy=False),
                                  PointCloud(K.const(F, TRI_T), copy=False))
    return K.mk_transform(F, t, "t", n)


def _all_points(s):
    yield s.points
    if s.has_landmarks:
        for g in s.landmarks.values():
            yield g.points


def apply(F, ob, cfg):
    from menpo.transform import Homogeneous

    n = cfg["n"]
    s = K.mk_shape(F, cfg["cls"], "p", n, npts=4, landmarks=1 if cfg["t"] == "TPS" else 2)
    t = _transform(F, cfg)
    if cfg["t"] == "TPS":
        for P in _all_points(s):
            for p in P:
                for c in TPS_SRC:
                    F.assume((p[0] - c[0]) * (p[0] - c[0]) + (p[1] - c[1]) * (p[1] - c[1]) >= 0.01)
    d_s, d_t = K.freeze(K.digest(s)), K.freeze(K.digest(t))
    pts_before = s.points
    r = t.apply(s)
    ob.true("type", type(r) is type(s))
    ob.true("new_object", r is not s and r.points is not s.points)
    # reference values come from fresh, identical transforms (caching across calls is C09's subject)
    on_array = _transform(F, cfg).apply(s.points)
    ob.eq("points=T(points)", r.points, on_array)
    ob.eq("points=_apply(points)", r.points, _transform(F, cfg)._apply(s.points))
    if isinstance(t, Homogeneous):
        # independent reference for the map itself (not menpo's own apply)
        ob.eq("points=h(points)", r.points, K.homog_apply(t.h_matrix, s.points))
    ob.true("landmarks.groups", list(r.landmarks.keys()) == list(s.landmarks.keys()))
    for g in s.landmarks.keys():
        ob.true("landmarks[%s].type" % g, type(r.landmarks[g]) is type(s.landmarks[g]))
        ob.eq("landmarks[%s]=T(landmarks)" % g, r.landmarks[g].points, _transform(F, cfg).apply(s.landmarks[g].points))
        ob.true("landmarks[%s].new" % g, r.landmarks[g] is not s.landmarks[g])
    # structure carried over unchanged (everything in the digest except coordinates)
    def structure(d):
        return [(k, v) for k, v in d if not (k.endswith("points") and "tcoords" not in k)]
    if cfg["t"] != "WithDims":
        K.eq_digest(F, ob, "structure", structure(K.digest(r)), structure(d_s))
    else:
        K.eq_digest(F, ob, "structure", [x for x in structure(K.digest(r))], [x for x in structure(d_s)])
    # nothing mutated
    K.eq_digest(F, ob, "input_shape.unchanged", K.digest(s), d_s)
    K.eq_digest(F, ob, "transform.unchanged", K.digest(t), d_t)
    ob.true("input_shape.same_array", s.points is pts_before)


def apply_dtype(F, ob, cfg):
    """coordinate arrays of a narrow concrete dtype (a float64 shape carrying integer landmarks and vice versa):
    points and landmarks must still be moved by the same real-valued map"""
    from menpo.shape import PointCloud

    t = _transform(F, cfg)
    P = np.array([[0, 1], [2, 3], [5, 1], [4, 4]])
    L = np.array([[1, 1], [3, 0], [2, 5]])
    for (pd, ld) in ((cfg["dtype"], "float64"), ("float64", cfg["dtype"])):
        s = PointCloud(P.astype(pd))
        s.landmarks["g"] = PointCloud(L.astype(ld))
        r = t.apply(s, batch_size=F.choice("batch", [1, 2, 3])) if cfg.get("batched") else t.apply(s)
        tag = "%s/%s" % (pd, ld)
        tol = 1e-5 if "float32" in (pd, ld) else None
        ob.eq(tag + ".points", r.points, _transform(F, cfg).apply(P.astype(float)), tol=tol)
        ob.eq(tag + ".landmarks", r.landmarks["g"].points, _transform(F, cfg).apply(L.astype(float)), tol=tol)
        ob.true(tag + ".input.dtype_kept", s.points.dtype == np.dtype(pd) and s.landmarks["g"].points.dtype == np.dtype(ld))
        ob.true(tag + ".input.values_kept", bool(np.array_equal(s.points, P.astype(pd))))


def apply_batched(F, ob, cfg):
    """apply(shape, batch_size=b): points and every landmark group are still moved by the same map as without batching"""
    s = K.mk_shape(F, cfg["cls"], "p", cfg["n"], npts=4, landmarks=2)
    t = _transform(F, cfg)
    if cfg["t"] == "TPS":
        for P in _all_points(s):
            for p in P:
                for c in TPS_SRC:
                    F.assume((p[0] - c[0]) * (p[0] - c[0]) + (p[1] - c[1]) * (p[1] - c[1]) >= 0.01)
    d_s = K.freeze(K.digest(s))
    b = F.choice("batch", [1, 2, 3, 7])
    r = t.apply(s, batch_size=b)
    ref = _transform(F, cfg).apply(s)
    K.eq_digest(F, ob, "batched=unbatched", K.digest(r), K.digest(ref))
    K.eq_digest(F, ob, "input_shape.unchanged", K.digest(s), d_s)
