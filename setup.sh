#!/bin/sh
# Build the offline overlay venv used by ./check (idempotent).
set -e
V="$(cd "$(dirname "$0")" && pwd)/.venv"
if [ -x "$V/bin/python" ] && "$V/bin/python" -c "import z3, crosshair, numpy, scipy" 2>/dev/null; then
  exit 0
fi
rm -rf "$V"
/venv/bin/python -m venv "$V"
echo "import site; site.addsitedir('/venv/lib/python3.12/site-packages')" > "$V/lib/python3.12/site-packages/_base.pth"
PIP_NO_INDEX=1 "$V/bin/pip" install -q --no-index --find-links /opt/veriftools/wheels z3-solver crosshair-tool cvc5 >/dev/null
"$V/bin/python" -c "import z3, crosshair, numpy, scipy; print('venv ok', z3.get_version_string())"
