#!/bin/sh
# tools/seedsweep.sh <seed-name>...: run each stored seeded change against its property's quick check in a scratch
# worktree (tools/seedtest_wt.sh) and print one line per seed: name, exit status, number of VIOLATION lines, seconds
cd "$(dirname "$0")/.."
for n in "$@"; do
  p=$(echo $n | cut -c1-3)
  s=$(date +%s)
  out=$(timeout 1500 tools/seedtest_wt.sh /verif/seeded/$n/patch.diff $p quick 2>&1)
  e=$(date +%s)
  echo "$n $(echo "$out" | grep '^exit=' | head -1) $(echo "$out" | grep '^violations:' | head -1) $((e-s))s"
done
