#!/bin/sh
# tools/runsome.sh <tier> <id>...: run the given checks sequentially without touching evidence
T=$1; shift
cd "$(dirname "$0")/.."
for id in "$@"; do
  s=$(date +%s); ./check $id --tier $T --no-evidence > /tmp/runsome_${T}_$id.out 2>&1; rc=$?; e=$(date +%s)
  echo "$id exit=$rc $((e-s))s $(tail -1 /tmp/runsome_${T}_$id.out | cut -c1-170)"
done
