#!/bin/sh
# tools/confirm_seed.sh <agent_out_dir> <N> <seed-name> <PROP>: confirm a seeded change in a scratch worktree and keep it under /verif/seeded/<seed-name>/
OUT=$1; N=$2; NAME=$3; PROP=$4
WT=/tmp/confirm_wt_$$
git -C /repo worktree add --detach $WT HEAD -q || exit 9
cd $WT
R=ok
git apply $OUT/patch$N.diff || R="patch-does-not-apply"
if [ "$R" = ok ]; then
  /venv/bin/python $OUT/demo$N.py > /tmp/demo_with.txt 2>&1; dw=$?
  /root/seedtools/run_tests.py $WT > /tmp/tests_with.txt 2>&1; tw=$?
  git checkout -q -- . ; git clean -fdq
  /venv/bin/python $OUT/demo$N.py > /tmp/demo_without.txt 2>&1; dwo=$?
  echo "demo with patch exit=$dw ; tests with patch exit=$tw ; demo without patch exit=$dwo"
  [ $dw -ne 0 ] && [ $tw -eq 0 ] && [ $dwo -eq 0 ] || R="not-confirmed"
fi
cd /; git -C /repo worktree remove --force $WT; git -C /repo worktree prune
echo "result: $R"
if [ "$R" = ok ]; then
  D=/verif/seeded/$NAME; mkdir -p $D
  cp $OUT/patch$N.diff $D/patch.diff; cp $OUT/demo$N.py $D/demo.py
  /venv/bin/python - "$OUT/meta$N.json" "$D/meta.json" "$PROP" <<'PY'
import json,sys
m=json.load(open(sys.argv[1]))
m['property']=sys.argv[3]
m['confirmed']={'how':'tools/confirm_seed.sh in a scratch worktree of /repo HEAD: demo fails with the patch (exit!=0), pinned baseline (753 tests) passes with the patch, demo passes without it',
  'demo_with_patch_tail':open('/tmp/demo_with.txt').read()[-400:], 'tests_with_patch':open('/tmp/tests_with.txt').read()[-200:], 'repo_head':sys.argv[4] if len(sys.argv)>4 else ''}
json.dump(m,open(sys.argv[2],'w'),indent=1)
PY
fi
