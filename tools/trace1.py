"""debug aid: run one harness instance in-process and print slow solver queries
usage: python tools/trace1.py <module> <func> '<cfg dict>' [timeout_s]"""
import faulthandler
import sys
import time

faulthandler.dump_traceback_later(int(sys.argv[4]) if len(sys.argv) > 4 else 60, exit=True)
sys.path.insert(0, "/verif")
from symx import core, driver  # noqa: E402

orig = core.check


def slow(fs, **kw):
    t = time.time()
    r = orig(fs, **kw)
    dt = time.time() - t
    if dt > 0.5:
        sys.stderr.write("Q n=%d %s %.2fs kw=%s last=%s\n" % (len(fs), r[0], dt, kw, str(fs[-1])[:150].replace("\n", " ")))
    return r


core.check = slow
r = driver.run_instance({"prop": "X", "module": sys.argv[1], "func": sys.argv[2], "cfg": eval(sys.argv[3])})
print({k: v for k, v in r.items() if k not in ("functions", "samples", "cex")})
for c in r["cex"][:8]:
    print(c["name"], c["prefix"], c["kind"], c["detail"], c.get("traceback", "")[-600:])
