#!/bin/sh
# tools/runall.sh [tier]: run every registered check sequentially, print one line each
T=${1:-quick}
cd "$(dirname "$0")/.."
for id in $(python3 -c "import json; print(' '.join(c['property_id'] for c in json.load(open('MANIFEST.json'))['checks']))"); do
  s=$(date +%s); ./check $id --tier $T --no-evidence > /tmp/runall_${T}_$id.out 2>&1; rc=$?; e=$(date +%s)
  echo "$id exit=$rc $((e-s))s $(tail -1 /tmp/runall_${T}_$id.out | cut -c1-160)"
done
