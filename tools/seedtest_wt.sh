#!/bin/sh
# tools/seedtest_wt.sh <patch.diff> <PROP> [tier] [extra check args]
# Like seedtest.sh but leaves /repo alone: the patch is applied in a scratch worktree of /repo HEAD and the
# check is pointed at it with SYMX_REPO (for use while other runs need /repo unchanged). For measurement only:
# registered commands always check /repo itself.
P=$1; ID=$2; T=${3:-quick}; shift; shift; shift 2>/dev/null
WT=/tmp/seedrun_$$
git -C /repo worktree add --detach $WT HEAD -q || exit 9
git -C $WT apply "$P" || { echo "patch does not apply"; git -C /repo worktree remove --force $WT; exit 9; }
cd /verif && SYMX_REPO=$WT ./check $ID --tier $T --no-evidence "$@" > /tmp/seedtest_$$.out 2>&1; rc=$?
git -C /repo worktree remove --force $WT; git -C /repo worktree prune
grep -c "^VIOLATION" /tmp/seedtest_$$.out | sed "s/^/violations: /"; grep "^VIOLATION\|^ENCODING\|^INCONCLUSIVE" /tmp/seedtest_$$.out | cut -c1-260 | head -4; grep -A1 "^VIOLATION" /tmp/seedtest_$$.out | grep harness= | sed 's/detail=.*//' | cut -c1-160 | sort | uniq -c | head -4; tail -1 /tmp/seedtest_$$.out | cut -c1-220
echo "exit=$rc"; rm -f /tmp/seedtest_$$.out
