#!/usr/bin/env python3
"""regenerate MANIFEST.json from the table below"""
import json, os
HERE = os.path.dirname(os.path.dirname(os.path.abspath(__file__)))
BASE = "cd /repo && /venv/bin/python -m pytest -ra -q -p no:cacheprovider --timeout=900 --continue-on-collection-errors"
TECH = "bounded symbolic execution of the real menpo functions on z3 real terms (SYMX: value overloading on numpy object arrays, path forking under solver control), obligations discharged by z3 (nlsat/LRA) as unsat, counterexamples replayed on the unpatched code"
# id -> (level text, level note, technique override or None, design ref)
CHECKS = {}
NA = {}
def add(pid, text, note, tech=None, ref=None):
    CHECKS[pid] = (text, note, tech or TECH, ref or "DESIGN.md section 4, %s" % pid)
exec(open(os.path.join(HERE, "tools", "manifest_table.py")).read())
checks = []
for pid in sorted(CHECKS):
    text, note, tech, ref = CHECKS[pid]
    checks.append({
        "property_id": pid,
        "quick_cmd": "./check %s --tier quick" % pid,
        "thorough_cmd": "./check %s --tier thorough" % pid,
        "evidence_file": "/verif/evidence/%s.json" % pid,
        "replay_cmd_template": "./check %s --replay {path}" % pid,
        "engine": "symx",
        "level_claimed": {"category": "other", "text": text, "design_ref": ref},
        "level_note": note,
        "technique": tech,
    })
m = {
    "version": 1,
    "setup_cmd": "./setup.sh",
    "hooks": {"guard": "MENPO_VERIF", "enable": "no source hooks: menpo modules are monkey-patched inside the checker process only (module-global np -> symbolic proxy)",
              "baseline_off_cmd": BASE, "source_commits": [], "add_only": True},
    "engines": [{"name": "symx", "path": "/verif/symx", "serves_properties": sorted(CHECKS),
                 "kind_free_text": "dynamic symbolic execution of Python/NumPy code over z3 terms with replay"},
                {"name": "crosshair", "path": "/verif/.venv (crosshair-tool 0.0.110)", "serves_properties": [p for p in CHECKS if p in ("C19",)],
                 "kind_free_text": "CrossHair symbolic execution of pure-Python code"}],
    "checks": checks,
    "not_applicable": [{"property_id": k, "reason": v} for k, v in sorted(NA.items())],
    "notes": "All checks: exit 0 held / 1 replayed VIOLATION / 2 inconclusive (undecided, unsupported, bound hit) / 3 encoding mismatch. Known findings are in /verif/known_findings.json.",
}
json.dump(m, open(os.path.join(HERE, "MANIFEST.json"), "w"), indent=1)
print("checks:", len(checks), "not_applicable:", len(m["not_applicable"]))
