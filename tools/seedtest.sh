#!/bin/sh
# tools/seedtest.sh <patch.diff> <PROP> [tier] [extra check args]: apply a seeded change to /repo, run the check, undo.
P=$1; ID=$2; T=${3:-quick}; shift; shift; shift 2>/dev/null
cd /repo && git diff --quiet || { echo "/repo dirty"; exit 9; }
git -C /repo apply "$P" || { echo "patch does not apply"; exit 9; }
cd /verif && ./check $ID --tier $T --no-evidence "$@" > /tmp/seedtest.out 2>&1; rc=$?
git -C /repo checkout -- . 
grep -c "^VIOLATION" /tmp/seedtest.out | sed "s/^/violations: /"; grep "^VIOLATION\|^ENCODING\|^INCONCLUSIVE" /tmp/seedtest.out | cut -c1-260 | head -6; tail -1 /tmp/seedtest.out | cut -c1-250
echo "exit=$rc"
