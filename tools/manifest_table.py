PENDING = "check not built yet in this session; will be claimed once its harness decides every registered obligation on the unchanged tree"
for i in range(1, 21):
    NA["C%02d" % i] = PENDING
add("C03", "Bounded, solver-decided: for all ordered pairs of the 12 homogeneous-family classes in 2-D (quick) and 3-D (thorough), with ALL parameter values symbolic (arbitrary valid members), the composition law, closure, class honesty, invertibility, in-place agreement/rejection and operand immutability are proved as z3 unsat results over the real compose code; chains/WithDims members and Affine.decompose (2x2 SVD contract) included. One-step-from-arbitrary-valid-state, so finite compose sequences follow by induction.",
    "Reals for floats; n_dims<=3; class-honesty oracles and rotation parametrisations trusted; SVD contract stub (complete O(2) parametrisation) trusted; TPS/PWA operands not covered.")
for k in CHECKS: NA.pop(k, None)
add("C04", "Bounded, solver-decided: every homogeneous-family class (arbitrary valid member, symbolic parameters, 2-D; 3-D in thorough) is inverted from both sides by its pseudoinverse on symbolic points, with honest inverse class and swapped alignment ends; PiecewiseAffine round trips with symbolic vertices/query points over 1-2 triangles; the ThinPlateSplines pseudoinverse built from an arbitrary valid forward state (symbolic forward source) is shown to be the reverse-fitted spline (kernel on its own source, floor carried, landmarks sent back within 1e-7 relative).",
    "Reals for floats; n_dims<=3; PWA: at most two symbolic vertices at a time over stated base triangulations; TPS: concrete landmark sets from a stated list, SVD in real LAPACK with explicit tolerance.")
for k in CHECKS: NA.pop(k, None)
