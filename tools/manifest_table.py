PENDING = "check not built yet in this session; will be claimed once its harness decides every registered obligation on the unchanged tree"
for i in range(1, 21):
    NA["C%02d" % i] = PENDING
add("C03", "Bounded, solver-decided: for all ordered pairs of the 12 homogeneous-family classes in 2-D (quick) and 3-D (thorough), with ALL parameter values symbolic (arbitrary valid members), the composition law, closure, class honesty, invertibility, in-place agreement/rejection and operand immutability are proved as z3 unsat results over the real compose code; chains/WithDims members and Affine.decompose (2x2 SVD contract) included. One-step-from-arbitrary-valid-state, so finite compose sequences follow by induction.",
    "Reals for floats; n_dims<=3; class-honesty oracles and rotation parametrisations trusted; SVD contract stub (complete O(2) parametrisation) trusted; TPS/PWA operands not covered.")
for k in CHECKS: NA.pop(k, None)
